"""Texts for MANIFEST.json (per property)."""
HOOK_COMMITS = ["d87ca48", "568dd3a", "6a56fe0", "a8cc179"]

ENGINES = [
    {"name": "engine-S", "path": "harness/common/synth.hpp",
     "serves_properties": ["C01", "C02", "C03", "C05", "C07", "C08", "C15", "C16"],
     "kind_free_text": "grammar-by-execution block synthesiser: the library's reading code is fed from a choice tape through hooks H1/H2 and the answers are recorded as the block's wire payload; tapes come from rapidcheck (generation + shrinking), enumerated pattern tapes, libFuzzer or replay files"},
    {"name": "tape-pbt", "path": "harness/common/harness.hpp",
     "serves_properties": ["C01", "C02", "C03", "C04", "C05", "C06", "C07", "C08", "C09", "C10", "C11", "C12", "C13", "C14", "C15", "C16", "C17", "C18", "C19", "C20"],
     "kind_free_text": "property runner: one property function over a choice tape per harness; rapidcheck generates and shrinks tapes (harness/common/rc_driver.cpp), bin/check shards over the cores, merges counters, confirms violations by triple replay and writes the evidence"},
    {"name": "mininif", "path": "harness/common/mininif.hpp",
     "serves_properties": ["C01", "C03", "C05", "C07", "C08"],
     "kind_free_text": "independent NIF header/table/footer reader and writer sharing no code with nifly"},
]

NOTES = ("All checks are property-based tests / fuzzers over generated inputs (DESIGN.md). bin/check <ID> rebuilds the "
         "sanitised library from /repo's working tree (content-hash cache under .cache/), runs the harness on 16 shards, "
         "replays every reported violation three times before printing VIOLATION, and rewrites evidence/<ID>.json. "
         "known_findings.json lists genuine defects that were repaired (fixed: entries, regression replays) or recorded.")

NOT_YET = {}

TEXT = {
    "C05": {
        "engine": "engine-S",
        "technique": "property-based testing: hook-fed block synthesis (rapidcheck tapes + exhaustive type x version pattern tapes), subset oracle on observed vs enumerated reference pointers, metamorphic delete-and-save consequence check",
        "level_text": "Every registered block type in every supported version is instantiated from enumerated pattern tapes and from >100k random tapes; for each instance the set of reference objects that actually pass through the serialiser is compared with the owner's enumeration, and the saved file after a block deletion is read back to confirm no stale index. Exhaustive over type x version, sampled over field populations; absence beyond the sampled populations is not proven.",
        "level_note": "Trusts hooks H3/H4 to see every serialised reference (all references go through NiBlockRef::Sync / NiStringRef::Read/Write in this code base) and the tape supplier to reach optional sections; string references are only demanded in versions that store string-table indices.",
        "design_ref": "DESIGN.md section 3, C05",
    },
}
