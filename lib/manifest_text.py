"""Texts for MANIFEST.json (per property)."""
HOOK_COMMITS = ["d87ca48", "568dd3a", "6a56fe0", "a8cc179"]

ENGINES = [
    {"name": "engine-S", "path": "harness/common/synth.hpp",
     "serves_properties": ["C01", "C02", "C03", "C05", "C07", "C08", "C15", "C16"],
     "kind_free_text": "grammar-by-execution block synthesiser: the library's reading code is fed from a choice tape through hooks H1/H2 and the answers are recorded as the block's wire payload; tapes come from rapidcheck (generation + shrinking), enumerated pattern tapes, libFuzzer or replay files"},
    {"name": "tape-pbt", "path": "harness/common/harness.hpp",
     "serves_properties": ["C01", "C02", "C03", "C04", "C05", "C06", "C07", "C08", "C09", "C10", "C11", "C12", "C13", "C14", "C15", "C16", "C17", "C18", "C19", "C20"],
     "kind_free_text": "property runner: one property function over a choice tape per harness; rapidcheck generates and shrinks tapes (harness/common/rc_driver.cpp), bin/check shards over the cores, merges counters, confirms violations by triple replay and writes the evidence"},
    {"name": "mininif", "path": "harness/common/mininif.hpp",
     "serves_properties": ["C01", "C03", "C05", "C07", "C08"],
     "kind_free_text": "independent NIF header/table/footer reader and writer sharing no code with nifly"},
    {"name": "engine-G", "path": "harness/common/gen.hpp",
     "serves_properties": ["C04", "C06", "C09", "C10", "C11", "C12", "C13", "C14", "C17"],
     "kind_free_text": "API-level model builder: meshes, skins, shapes of every geometry kind, node/collision/controller graphs decoded from the choice tape and built through the public API"},
]

NOTES = ("All checks are property-based tests / fuzzers over generated inputs (DESIGN.md). bin/check <ID> rebuilds the "
         "sanitised library from /repo's working tree (content-hash cache under .cache/), runs the harness on 16 shards, "
         "replays every reported violation three times before printing VIOLATION, and rewrites evidence/<ID>.json. "
         "known_findings.json lists genuine defects that were repaired (fixed: entries, regression replays) or recorded.")

NOT_YET = {}

TEXT = {
    "C11": {
        "engine": "engine-G",
        "technique": "property-based testing: copy (constructor / assignment into empty / non-empty) of samples, samples with unregistered block types, generated scene graphs, synthesised files and newer-version files with NiTriShape geometry, then generated edit sequences on one side and destruction of it; byte-equality of raw saves and query-battery equality on the other side, under ASan",
        "level_text": "Every sample x copy kind x edit kind x edited side (enumerated) and thousands of generated cases: the copy must save to the source's bytes (raw, and through the default Save against an independently loaded twin), and no edit, save or destruction of one model may change what the other answers or writes; cached geometry pointers that still point into the other model surface as use-after-free under ASan.",
        "level_note": "Bytes of a model under observation come from raw-saving a fresh copy of it; both sides are queried once before the reference bytes are taken because some getters fill caches lazily.",
        "design_ref": "DESIGN.md section 3, C11",
    },
    "C12": {
        "engine": "engine-G",
        "technique": "property-based testing: generated Skyrim LE/SE models (all shape kinds, skins, strips, segments, colours, model-space shaders, duplicate names) and samples through OptimizeFor in both directions, with metamorphic there-and-back and save/reload; per-shape comparison with the storage formats' tolerances",
        "level_text": "Thousands of LE and SE models x option combinations: positions bit-exact, triangle sets equal, UVs/colours/weights within storage precision, bone lists, shader values / textures / alpha property, hierarchy, distinct sibling names, partition coverage, reload in the target version and conversion back are all checked. Two root causes (weights of unused vertices, SE files without NiSkinData weights) are recorded as known findings.",
        "level_note": "Shapes are matched by geometry across the conversion; weights are compared after normalisation at 2e-3; NiOptimizeKeep is only put on unskinned shapes; head-part conversion only when every shape is dynamic-compatible.",
        "design_ref": "DESIGN.md section 3, C12",
    },
    "C14": {
        "engine": "engine-G",
        "technique": "property-based testing: CloneShape of every sample shape and of generated shapes into the same model, a fresh model and another model; parallel walk of the cloned sub-graph comparing canonical block content (hooks H3/H4), source-unchanged and save/reload oracles",
        "level_text": "Every shape of every sample x three destination kinds (enumerated) plus generated scene graphs, 1-3 repeated clonings: clone content equals the source's, every child reference resolves inside the destination to an equal block that is not shared with the source, every back pointer into the cloned sub-graph (controller chains on the shader) points at the clone of its target, bones exist by name, the source model's bytes are unchanged and the clone survives save+reload.",
        "level_note": "Normals/tangents are not compared for Skyrim model-space shaders (dropped by design); generated source models keep block 0 as root (this library takes block 0, if a node, for the root).",
        "design_ref": "DESIGN.md section 3, C14",
    },
    "C04": {
        "engine": "engine-G",
        "technique": "property-based testing with an address-identity oracle: snapshots before/after PrettySortBlocks / Optimize / SetShapeOrder / default Save over generated scene graphs, synthesised files and samples; invariants on survivors, reference targets, child multisets, canonical payloads, idempotence and reload",
        "level_text": "Thousands of generated scene graphs (node trees, shapes of every kind, shared texture sets, collision sub-graphs with constraints and chains, controller chains, ordered/multibound nodes, loose blocks, permuted order, root not first, a child node stored in front of a root that its collision object points back to), synthesised multi-block files and all samples x four operations (explicit shape orders incl. duplicate/missing names and wrong length): every clause of the statement is evaluated on object identities observed from outside the sorter.",
        "level_note": "Object address is block identity; bounds are recomputed before the snapshot; empty reference entries are ignored on both sides; payloads are taken from clones with reference fields masked (H3) and string indices replaced by text (H4).",
        "design_ref": "DESIGN.md section 3, C04",
    },
    "C06": {
        "engine": "engine-G",
        "technique": "model-based stateful testing: exhaustive enumeration of command sequences (all argument choices) to a bounded depth on small graphs plus rapidcheck-generated longer sequences on created / synthesised / sample models, against an executable token model (object address = identity)",
        "level_text": "All sequences of add / delete / delete-NPOS / replace / set-order (all permutations) / delete-by-type / prune-unreferenced / prune-nodes / sort commands up to depth 3 (4 thorough) on the smallest start graphs and depth 2 (3) on 4-9-block graphs with collision-free skin/loose/cyclic structure, in a size-table and a no-size-table version, are executed against the model; after every command token order, reference targets, slot validity and header type strings are compared, deletion counts are compared, and at the end a copy is saved and reloaded (type table compact, graph equal). Exhaustive inside those bounds, sampled beyond.",
        "level_note": "Reference targets are compared as multisets per owner; SetBlockOrder receives permutations only; geometry-data blocks referenced by a shape are never deleted/replaced (cached raw pointer hazard, outside the property); writing may only drop references (fixed-arity constraint entities).",
        "design_ref": "DESIGN.md section 3, C06",
    },
    "C17": {
        "engine": "engine-G",
        "technique": "property-based testing: generated segmentation infos / partition infos and per-triangle label lists; set -> get round trip against a reference model of the documented renumbering and stable sort, structural check of the stored range records, metamorphic vertex deletion, save/reload",
        "level_text": "Tens of thousands of FO4/FO76 sub-index shapes (0..600 triangles, 1..8 segments x 0..6 sub-segments, permuted ids, labels incl. -1 and labels directly on parent segments) and OB/FO3/SK/SSE skinned shapes: read-back must equal the request under the documented renumbering, triangles must be the previous ones stably sorted by label, range records must tile the triangle list, and all of it must survive vertex deletion and save+reload.",
        "level_note": "Labels are drawn only from ids present in the info plus -1; the ssf name is compared after reload only when sub-segments exist (the format stores it with them).",
        "design_ref": "DESIGN.md section 3, C17",
    },
    "C16": {
        "engine": "engine-S",
        "technique": "fault injection: enumeration of truncation points (every offset of small files, header, block boundaries, block heads, strided payload) plus generated cuts on samples and synthesised files; crash/hang oracle in a forked sanitised child running load, query battery, default save, copy, destruction",
        "level_text": "Every prefix in the enumerated set of each of the 26 samples (field-guided cuts from the loader's own read map - every read site at the start, one byte into and one byte before the end of a field -, all offsets for small files, around every block boundary and array-count region for the others; batched 32 to a forked child) and thousands of random cuts incl. synthesised files of every block type are loaded, queried, saved and destroyed under ASan/UBSan; any report, signal or reproduced hang is a violation. Exhaustive only for the small files' offsets.",
        "level_note": "Truncation only shortens what is read (missing bytes read as zero/garbage from an exhausted stream), so allocation sizes stay bounded by the original file; partition/segment queries are excluded from the post-load battery.",
        "design_ref": "DESIGN.md section 3, C16",
    },
    "C15": {
        "engine": "engine-S",
        "technique": "fault injection driven by property-based generation: every reference field located exactly (hook H3) and overwritten by each corruption kind; crash/hang oracle in a forked sanitised child running load, query battery, copy, default save, reload",
        "level_text": "Exhaustive single-fault enumeration (every reference field x 7 corruption kinds, with several targets for ancestor/in-range) over the sample files (quick: every field of files <= 16 KB and two instances of every (block type, field) of the larger ones; thorough: every field of all 26; 32 faults to a forked child) plus thousands of random 1-3-fault combinations on samples and synthesised files; any sanitizer report, signal, stack overflow, error return or reproduced 20 s hang is a violation.",
        "level_note": "Faults are 4-byte overwrites of fields that pass through NiBlockRef::Sync in the raw-saved file; for synthesised files only failures absent from the unfaulted file are attributed to the fault; hangs must reproduce in three replays.",
        "design_ref": "DESIGN.md section 3, C15",
    },
    "C10": {
        "engine": "engine-G",
        "technique": "property-based testing (stateful): generated skinned shapes and sample shapes x sequences of partition operations; invariants (exact cover, vertex maps, mapped triangles, bone limit, weight normalisation, bone slots, dismember alignment, read-back) after every step and on the saved-and-reloaded file",
        "level_text": "Thousands of skinned shapes for OB/FO3/SK/SSE with 1..120 bones and arbitrary weights, each driven through 1-4 generated partition operations (labels incl. -1 and out-of-range ids, deletions, triangle-list edits followed by a rebuild, default partition, rebuilds); every invariant of the statement is evaluated after each rebuild/reassignment and again on the reloaded file.",
        "level_note": "Triangles are generated pairwise distinct; partition deletion is followed by the caller protocol get -> set -> rebuild; after a bare reassignment only coverage/alignment/read-back are demanded in memory (maps and weights are rebuilt later by design).",
        "design_ref": "DESIGN.md section 3, C10",
    },
    "C20": {
        "engine": "tape-pbt",
        "technique": "property-based testing of algebraic laws with stated tolerances: inverse/compose/apply, rotation vector <-> matrix, 3x3/4x4 inversion, average/median of identical transforms, bounding-sphere containment and size bound, recomputed shape bounds; double-precision reference computations",
        "level_text": "Hundreds of thousands of generated transforms (any angle, scale 0.01..100, |t| <= 1e5), well-conditioned matrices and point sets (1..2000 points incl. duplicates, collinear, coplanar, co-spherical, lattice) plus 1302 structured cases; each law is checked at a tolerance ~20x the worst error measured on the unchanged tree and the measured maxima are reported. Three root causes on the pinned tree are recorded as known findings.",
        "level_note": "Tolerances are empirical with a stated safety factor, not error analyses; half-turn rotations are excluded only from the vector<->matrix conversion law, as the statement does.",
        "design_ref": "DESIGN.md section 3, C20",
    },
    "C09": {
        "engine": "engine-G",
        "technique": "property-based testing: generated shapes of every geometry kind (API-built, optionally skinned / strips / segments / LOCKEDNORM) and sample shapes x generated sorted deletion sets; reference model computed from a pre-deletion snapshot; save/reload round trip",
        "level_text": "Tens of thousands of (shape, 1-3 deletions) cases over OB/FO3/SK/SSE/FO4/FO76 and all shape classes; after every deletion vertices, per-vertex attributes, triangles, skin weights, partition tables, dismember list, segments and locked-normal list are compared with a model (remaining elements, re-indexed, in order), the return value is checked, and the result must save and reload to the same geometry.",
        "level_note": "Partition/segment facts are demanded only if they held before the deletion; strips are held to index validity only, as the statement says. Shapes are built through the public API the way callers build them.",
        "design_ref": "DESIGN.md section 3, C09",
    },
    "C13": {
        "engine": "engine-G",
        "technique": "property-based testing: generated meshes (1..65535 vertices incl. limits and over-long inputs) per version, round trip through CreateShapeFromData / setter-getter pairs / save-reload with the storage format's quantisation as explicit tolerance",
        "level_text": "For OB/FO3/SK/SSE/FO4/FO76 and every setter/getter pair, generated geometry (incl. triangles with a repeated index) must read back bit-exact (or within half / byte quantisation where the format stores halves / bytes) immediately, after the setter (nothing else resized) and after default save + reload. Sampled, with enumerated limit sizes.",
        "level_note": "Tolerances are the formats' own: 2^-11 relative for halves, 1/127 for byte normals, 1/255 for byte colours; component values are generated inside [-1,1] for tangent-space vectors.",
        "design_ref": "DESIGN.md section 3, C13",
    },
    "C18": {
        "engine": "tape-pbt",
        "technique": "property-based testing + bounded exhaustive enumeration: each utility against a naive reference model and its algebraic laws (erase/insert inverse, collapse/expand inverse), all index types used by callers, exact-capacity containers under ASan",
        "level_text": "Exhaustive over all vectors up to length 6-7 x all sorted index lists (incl. lists reaching past the end where the function guards them), all small triangle lists x all maps, all strips over a 4-letter alphabet up to length 7, plus rapidcheck cases up to 65535 elements; every result compared with a five-line model. Exhaustive only inside the stated bounds.",
        "level_note": "Unchecked preconditions every caller respects (sorted unique index lists, containers addressable by the index type) are not violated by the generator; out-of-bounds accesses are visible through ASan with size()==capacity() vectors.",
        "design_ref": "DESIGN.md section 3, C18",
    },
    "C19": {
        "engine": "tape-pbt",
        "technique": "property-based testing + exhaustive token-sequence enumeration: canonical-form predicate, idempotence (second clean-up is a no-op) and a differential against an independent non-regex reference of the documented pipeline, through both entry points and every slot kind",
        "level_text": "All token sequences of length <= 4 (5 thorough) over separators/whitespace/dots/letters/'textures'/'data'/drive/newline x {OB, FO3, SK+} x terrain x both entry points, every slot of every kind, each shard process warmed up with one clean-up in a configuration recorded in the failure tapes, plus random byte strings up to 4 KB; each cleaned path must satisfy the canonical-form predicate and be a fixed point of a second clean-up. Six root causes on the pinned tree are recorded as known findings and excluded by signature so the search continues behind them.",
        "level_note": "'relative path' is the platform's notion (std::filesystem on Linux); the differential is applied only where the documented pipeline itself ends in a canonical fixed point; a 60 s watchdog turns a hang into a crash of the shard (reported).",
        "design_ref": "DESIGN.md section 3, C19",
    },
    "C01": {
        "engine": "engine-S",
        "technique": "property-based testing: round-trip / fixed-point oracle over hook-synthesised files of every block type x version (rapidcheck tapes + enumerated pattern tapes + read-site-guided forced-read sweep; libFuzzer over the same tapes in the thorough tier), generated scene-graph files and the sample files",
        "level_text": "Every registered type x 14 version configurations is instantiated from pattern tapes (exhaustive over type x version) and tens of thousands of random tapes, plus the forced-read sweep (every integer-like read forced to 0..23 one at a time, kept when a new read site is reached), multi-block files, generated scene-graph files (incl. loose Havok chains stored children-first) and the 26 samples; each accepted file must reach a byte-identical raw fixed point after one write and a default-save fixed point within two rounds. Sampled over field populations; no proof of absence.",
        "level_note": "Synthesised files obey the listed format preconditions; first-write normalisation is allowed, only non-idempotent normalisation or read/write asymmetry fails. A crash while reloading the library's own output is reported as a violation.",
        "design_ref": "DESIGN.md section 3, C01",
    },
    "C02": {
        "engine": "engine-S",
        "technique": "property-based testing: same live model saved three times with a query battery before/after each save; byte equality (raw) / string-order-canonical equality (default) and battery equality as oracles",
        "level_text": "For samples and synthesised files of every type x version, in both save modes, three consecutive saves of one in-memory model must give the same content and every read-only query the same answers; models are also generated scene graphs and are optionally edited through the API before the first save (cleared references, deleted blocks, renamed nodes/shapes, added nodes, named shaders, texture slots, alpha properties); generated exploration, not a proof.",
        "level_note": "The query battery is the public read-only API (harness/common/battery.hpp); across the first default save only the reachable, order-insensitive part is compared (C04 allows permutation/pruning); partition/segment queries only on sample files.",
        "design_ref": "DESIGN.md section 3, C02",
    },
    "C03": {
        "engine": "mininif",
        "technique": "property-based testing: metamorphic relabelling of block types to unknown names by an independent writer; byte-identity oracle on opaque payloads, positions, sizes and string indices read back by an independent parser",
        "level_text": "Every sample x every singleton type and the full type set x {raw, default}, every registered type in size-table versions, random subsets on synthesised files, and (a quarter of the cases) a 0-3 byte opaque block of an unregistered type appended at the end, in half of them as the file's only unknown block: opaque blocks must come back byte-identical at the same position and the string table may only grow. Exhaustive over the listed enumerations, sampled beyond.",
        "level_note": "Unknown types are simulated by relabelling known ones (payload untouched); MiniNif is the only reader of the output.",
        "design_ref": "DESIGN.md section 3, C03",
    },
    "C07": {
        "engine": "mininif",
        "technique": "property-based testing: independent header/table walker (MiniNif) over outputs of round trips and generated edit sequences; per-block size compared with independently re-serialised length",
        "level_text": "Tens of thousands of saved files (all types x versions, samples, files with unregistered block types, 0-4 generated edits, both save modes, sometimes written by an object that loaded and saved another file before) are walked by a parser that trusts only the header tables; block count, type table, type indices, sizes, footer position, string uniqueness, max length and string-index ranges must all match the bytes.",
        "level_note": "True block lengths come from re-serialising the reloaded blocks into private buffers; string-field offsets from hook H4.",
        "design_ref": "DESIGN.md section 3, C07",
    },
    "C08": {
        "engine": "engine-S",
        "technique": "differential testing against a vendored reference build linked into the same process: read-trace differential of the hook-fed synthesiser plus cross-build read/re-encode of generated and sample files",
        "level_text": "For every registered type x version (pattern tapes, exhaustive over type x version) the forced-read sweep over the current build's reading code (switch arms reached one value at a time) and random tapes, the reference and the current build must issue the same sequence of typed reads and record the same payload, and files written by either must be re-encoded byte-identically by the other. Detects symmetric read/write changes (gate shifts, swapped fields, width changes) that every round-trip test misses.",
        "level_note": "The reference is the vendored snapshot in /verif/reference (pinned commit + hooks + fix: commits, see PROVENANCE); it must be re-vendored by hand (bin/vendor_reference) when a wire defect is repaired on purpose.",
        "design_ref": "DESIGN.md section 3, C08",
    },
    "C05": {
        "engine": "engine-S",
        "technique": "property-based testing: hook-fed block synthesis (rapidcheck tapes + exhaustive type x version pattern tapes), subset oracle on observed vs enumerated reference pointers, metamorphic delete-and-save consequence check",
        "level_text": "Every registered block type in every supported version is instantiated from enumerated pattern tapes and from >100k random tapes; for each instance the set of reference objects that actually pass through the serialiser is compared with the owner's enumeration, and the saved file after a block deletion is read back to confirm no stale index. Exhaustive over type x version, sampled over field populations; absence beyond the sampled populations is not proven.",
        "level_note": "Trusts hooks H3/H4 to see every serialised reference (all references go through NiBlockRef::Sync / NiStringRef::Read/Write in this code base) and the tape supplier to reach optional sections; string references are only demanded in versions that store string-table indices.",
        "design_ref": "DESIGN.md section 3, C05",
    },
}
