"""Per-property configuration of the checks (harness, build flavour, floors, budgets)."""
import os

import vbuild

CHECKS = {
    "C01": {
        "harness": "c01",
        "level": "exploration",
        "floor": {"quick": 500, "thorough": 1000},
        "timeout": {"quick": 1500, "thorough": 7200},
        "assumptions": [
            "synthesised files respect the format preconditions listed in DESIGN.md section 2.3 (BSGeometry mesh slots filled from the front)",
            "the first write may normalise; only a non-idempotent normalisation or a read/write asymmetry counts",
        ],
    },
    "C02": {
        "harness": "c02",
        "level": "exploration",
        "floor": {"quick": 500, "thorough": 1000},
        "timeout": {"quick": 1500, "thorough": 7200},
        "assumptions": [
            "queries are the public read-only API listed in harness/common/battery.hpp; empty entries of reference arrays are not content (every write drops them)",
            "for default saves the first save may permute and prune (C04): the before/after comparison uses the order-insensitive battery restricted to blocks reachable from the root, without bounds",
        ],
    },
    "C05": {
        "harness": "c05",
        "level": "exploration",
        "floor": {"quick": 500, "thorough": 1000},
        "timeout": {"quick": 1500, "thorough": 7200},
        "assumptions": [
            "reference fields are those that pass through NiBlockRef::Sync / NiStringRef::Read/Write (hooks H3/H4)",
            "string references are only required to be enumerated in versions that store string-table indices (>= 20.1.0.3)",
        ],
    },
}

for _pid, _floor in (("C18", 1000), ("C19", 1000), ("C20", 1000)):
    CHECKS[_pid] = {
        "harness": _pid.lower(),
        "level": "exploration",
        "floor": {"quick": _floor, "thorough": _floor},
        "timeout": {"quick": 1500, "thorough": 7200},
        "assumptions": [],
    }


def build(pid, spec):
    """Build (or fetch from the cache) the harness binary for a property."""
    if "build" in spec:
        return spec["build"](pid, spec)
    return vbuild.build_harness(spec["harness"], spec.get("flavour", "san"))
