"""Per-property configuration of the checks (harness, build flavour, floors, budgets)."""
import os

import vbuild

CHECKS = {
    "C01": {
        "harness": "c01",
        "level": "exploration",
        "fuzz": {"thorough": 20000},
        "floor": {"quick": 500, "thorough": 1000},
        "timeout": {"quick": 1500, "thorough": 7200},
        "assumptions": [
            "synthesised files respect the format preconditions listed in DESIGN.md section 2.3 (BSGeometry mesh slots filled from the front)",
            "the first write may normalise; only a non-idempotent normalisation or a read/write asymmetry counts",
        ],
    },
    "C02": {
        "harness": "c02",
        "level": "exploration",
        "floor": {"quick": 500, "thorough": 1000},
        "timeout": {"quick": 1500, "thorough": 7200},
        "assumptions": [
            "queries are the public read-only API listed in harness/common/battery.hpp; empty entries of reference arrays are not content (every write drops them)",
            "for default saves the first save may permute and prune (C04): the before/after comparison uses the order-insensitive battery restricted to blocks reachable from the root, without bounds",
        ],
    },
    "C03": {
        "harness": "c03",
        "level": "exploration",
        "floor": {"quick": 500, "thorough": 1000},
        "timeout": {"quick": 1500, "thorough": 7200},
        "assumptions": [
            "unknown types are simulated by relabelling known types to unregistered names with an independent header writer; payload and declared sizes are untouched",
        ],
    },
    "C05": {
        "harness": "c05",
        "level": "exploration",
        "fuzz": {"thorough": 40000},
        "floor": {"quick": 500, "thorough": 1000},
        "timeout": {"quick": 1500, "thorough": 7200},
        "assumptions": [
            "reference fields are those that pass through NiBlockRef::Sync / NiStringRef::Read/Write (hooks H3/H4)",
            "string references are only required to be enumerated in versions that store string-table indices (>= 20.1.0.3)",
        ],
    },
}

def build_c08(pid, spec):
    """C08 links two builds of the library: the working tree and the vendored reference."""
    import hashlib
    import shutil
    import subprocess
    repo = vbuild.REPO
    ref = os.path.join(vbuild.VERIF, "reference")
    libcur, rh = vbuild.build_lib("san", repo)
    libref, refh = vbuild.build_lib("san", ref, extra_defs=["-Dnifly=nifly_ref"], tag="ref")
    hdir = os.path.join(vbuild.VERIF, "harness")
    hh = vbuild._hash_tree([os.path.join(hdir, "common"), os.path.join(hdir, "c08.cpp"), os.path.join(hdir, "c08_adapter.cpp")])
    hh = hashlib.sha256((hh + refh).encode()).hexdigest()[:12]
    out = os.path.join(vbuild.CACHE, rh, "san", "h-c08-" + hh)
    binp = os.path.join(out, "c08")
    with vbuild.Lock(os.path.join(vbuild.CACHE, "lock-h-" + rh + "-san-c08")):
        if os.path.exists(binp):
            return binp
        parent = os.path.join(vbuild.CACHE, rh, "san")
        for e in os.listdir(parent):
            if e.startswith("h-c08-") and e != os.path.basename(out):
                shutil.rmtree(os.path.join(parent, e), ignore_errors=True)
        os.makedirs(out, exist_ok=True)
        flags = vbuild.FLAVOURS["san"][1] + ["-O1"]
        common = ["-I", os.path.join(hdir, "common")]

        def inc(r):
            return ["-I", os.path.join(r, "include"), "-isystem", os.path.join(r, "external")]

        jobs = [
            ([vbuild.CXX] + flags + common + ["-c", os.path.join(hdir, "c08.cpp"), "-o", os.path.join(out, "c08.o")], "c08.cpp"),
            ([vbuild.CXX] + flags + common + inc(repo) + ["-DADAPTER=cur", "-c", os.path.join(hdir, "c08_adapter.cpp"),
              "-o", os.path.join(out, "adapter_cur.o")], "adapter cur"),
            ([vbuild.CXX] + flags + common + inc(ref) + ["-DADAPTER=ref", "-Dnifly=nifly_ref", "-Dvf=vf_ref", "-c",
              os.path.join(hdir, "c08_adapter.cpp"), "-o", os.path.join(out, "adapter_ref.o")], "adapter ref"),
        ]
        from concurrent.futures import ThreadPoolExecutor
        with ThreadPoolExecutor(3) as ex:
            list(ex.map(lambda j: vbuild._run(j[0], j[1]), jobs))
        link = [vbuild.CXX] + vbuild.FLAVOURS["san"][2] + [os.path.join(out, "c08.o"), os.path.join(out, "adapter_cur.o"),
                os.path.join(out, "adapter_ref.o"), vbuild.build_rc_driver(), os.path.join(libcur, "libnifly.a"),
                os.path.join(libref, "libnifly.a"), "-lrapidcheck", "-lpthread", "-o", binp + ".tmp"]
        vbuild._run(link, "link c08")
        os.rename(binp + ".tmp", binp)
    return binp


CHECKS["C07"] = {
    "harness": "c07",
    "level": "exploration",
    "floor": {"quick": 500, "thorough": 1000},
    "timeout": {"quick": 1500, "thorough": 7200},
    "assumptions": [
        "true block lengths are measured by re-serialising each block of the reloaded output into its own buffer (independent of NiOStream's byte counter)",
        "string-index field offsets come from hook H4",
    ],
}

CHECKS["C08"] = {
    "harness": "c08",
    "build": build_c08,
    "level": "translation_validation",
    "floor": {"quick": 500, "thorough": 1000},
    "timeout": {"quick": 1500, "thorough": 7200},
    "assumptions": [
        "the reference build is the vendored snapshot /verif/reference (provenance in reference/PROVENANCE): pinned commit + hook commits + fix: commits; a repaired wire defect is part of the reference",
        "both builds run in one process behind C adapters (reference compiled with -Dnifly=nifly_ref)",
    ],
}

CHECKS["C13"] = {
    "harness": "c13",
    "level": "exploration",
    "floor": {"quick": 300, "thorough": 1000},
    "timeout": {"quick": 1500, "thorough": 7200},
    "assumptions": [
        "tolerances are the storage formats' own quantisation: half precision 2^-11 relative, byte normals 1/127, byte colours 1/255",
        "shapes stay unskinned as CreateShapeFromData makes them (skinned SSE shapes are regrouped by partition on save: C10)",
    ],
}

CHECKS["C09"] = {
    "harness": "c09",
    "level": "exploration",
    "floor": {"quick": 300, "thorough": 1000},
    "timeout": {"quick": 1500, "thorough": 7200},
    "assumptions": [
        "facts about partitions/segments are checked as preserved: a clause is only demanded after the deletion if it held before",
        "strip-based geometry: only validity of indices is demanded (the statement exempts strips from the exact-triangle clause)",
    ],
}

CHECKS["C10"] = {
    "harness": "c10",
    "level": "exploration",
    "floor": {"quick": 300, "thorough": 1000},
    "timeout": {"quick": 1500, "thorough": 7200},
    "assumptions": [
        "triangles are pairwise distinct up to rotation (the triangle->partition lookup is keyed by triangle)",
        "DeletePartitions is followed by the caller protocol get -> set -> rebuild; after a bare reassignment only coverage/alignment are demanded in memory, maps and weights after the rebuild or on the saved file",
    ],
}

CHECKS["C15"] = {
    "harness": "c15",
    "level": "fault_enumeration",
    "floor": {"quick": 300, "thorough": 1000},
    "timeout": {"quick": 2400, "thorough": 14400},
    "exhaustive": False,
    "assumptions": [
        "reference fields are located through hook H3 on the raw-saved file; every fault is one 4-byte overwrite of such a field",
        "a child exceeding 20 s (normal cases take ~30 ms) counts as a hang only if it reproduces in three replays",
        "for synthesised (internally inconsistent) files only failures that the unfaulted file does not show are attributed to the fault",
    ],
}

CHECKS["C16"] = {
    "harness": "c16",
    "level": "fault_enumeration",
    "floor": {"quick": 300, "thorough": 1000},
    "timeout": {"quick": 2400, "thorough": 14400},
    "assumptions": [
        "truncation is the only fault: the prefix is byte-identical to the valid file up to the cut",
        "a child exceeding 20 s counts as a hang only if it reproduces in three replays",
        "partition/segment queries are not part of the post-load battery (they index unvalidated tables even for complete files)",
    ],
}

CHECKS["C17"] = {
    "harness": "c17",
    "level": "exploration",
    "floor": {"quick": 300, "thorough": 1000},
    "timeout": {"quick": 1500, "thorough": 7200},
    "assumptions": [
        "labels are drawn from the ids present in the info plus -1 (ids absent from the info are an unchecked precondition of the API)",
        "a -1 triangle may land in any range; partition mode uses few bones so that no bone-limit split renumbers partitions",
    ],
}

CHECKS["C06"] = {
    "harness": "c06",
    "level": "model_checking",
    "floor": {"quick": 300, "thorough": 1000},
    "timeout": {"quick": 1500, "thorough": 7200},
    "assumptions": [
        "blocks are owned by unique_ptr and moved, never reallocated: object address is block identity (ASan quarantine prevents address reuse within a case)",
        "reference targets are compared as multisets per owner (slot identity inside one block is not tracked); empty entries are ignored",
        "SetBlockOrder is only called with permutations; a geometry-data block referenced by a shape is never deleted or replaced (cached raw pointer, API hazard outside this property)",
    ],
}

CHECKS["C04"] = {
    "harness": "c04",
    "level": "exploration",
    "floor": {"quick": 300, "thorough": 1000},
    "timeout": {"quick": 1500, "thorough": 7200},
    "assumptions": [
        "object address is block identity (blocks are moved, never reallocated, by SetBlockOrder/DeleteBlock)",
        "bounds are recomputed before the snapshot, so 'apart from recomputed bounding spheres' needs no masking",
        "empty entries of reference arrays are ignored on both sides (every write drops them); payload snapshots come from clones",
    ],
}

CHECKS["C11"] = {
    "harness": "c11",
    "level": "exploration",
    "floor": {"quick": 300, "thorough": 1000},
    "timeout": {"quick": 1500, "thorough": 7200},
    "assumptions": [
        "bytes of a model under observation are taken by raw-saving a fresh copy of it (saving is C02's subject)",
        "self-assignment is outside the statement and not generated",
    ],
}

CHECKS["C14"] = {
    "harness": "c14",
    "level": "exploration",
    "floor": {"quick": 100, "thorough": 500},
    "timeout": {"quick": 1500, "thorough": 7200},
    "assumptions": [
        "normals/tangents are not compared for Skyrim shapes with a model-space shader (CloneShape drops them by design)",
        "the skin instance's bone pointer list is compared through bone names (it is rebuilt from names by design)",
    ],
}

CHECKS["C12"] = {
    "harness": "c12",
    "level": "exploration",
    "floor": {"quick": 200, "thorough": 1000},
    "timeout": {"quick": 1500, "thorough": 7200},
    "assumptions": [
        "weights are compared per vertex after normalisation with tolerance 2e-3 (half precision); at most 4 weights per vertex are generated so the top-4 selection is unambiguous",
        "head-part conversion is only requested when every shape is dynamic-compatible",
        "vertex colours may vanish when OptResult reports their removal (all white)",
    ],
}

for _pid, _floor in (("C18", 1000), ("C19", 1000), ("C20", 1000)):
    CHECKS[_pid] = {
        "harness": _pid.lower(),
        "level": "exploration",
        "floor": {"quick": _floor, "thorough": _floor},
        "timeout": {"quick": 1500, "thorough": 7200},
        "assumptions": [],
    }


def build(pid, spec):
    """Build (or fetch from the cache) the harness binary for a property."""
    if "build" in spec:
        return spec["build"](pid, spec)
    return vbuild.build_harness(spec["harness"], spec.get("flavour", "san"))
