#!/usr/bin/env python3
"""Regenerate MANIFEST.json from lib/checks.py + lib/manifest_text.py (kept valid at all times)."""
import json, os, subprocess, sys
VERIF = os.path.dirname(os.path.dirname(os.path.abspath(__file__)))
sys.path.insert(0, os.path.join(VERIF, "lib"))
import checks, manifest_text as mt

props = [json.loads(l)["id"] for l in open(os.path.join(VERIF, "properties.jsonl"))]
hook_commits = mt.HOOK_COMMITS
man = {
    "version": 1,
    "setup_cmd": "python3 bin/setup",
    "hooks": {
        "guard": "NIFLY_VERIF",
        "enable": "checks compile /repo/src/*.cpp themselves with clang++ -DNIFLY_VERIF (plus ASan/UBSan); see lib/vbuild.py",
        "baseline_off_cmd": "bin/baseline_off",
        "source_commits": hook_commits,
        "add_only": True,
    },
    "engines": mt.ENGINES,
    "checks": [],
    "notes": mt.NOTES,
    "not_applicable": [],
}
for pid in props:
    if pid in checks.CHECKS and pid in mt.TEXT:
        t = mt.TEXT[pid]
        man["checks"].append({
            "property_id": pid,
            "quick_cmd": "bin/check %s --tier quick" % pid,
            "thorough_cmd": "bin/check %s --tier thorough" % pid,
            "evidence_file": "evidence/%s.json" % pid,
            "replay_cmd_template": "bin/check %s --replay {path}" % pid,
            "engine": t["engine"],
            "level_claimed": {"category": checks.CHECKS[pid].get("level", "exploration"), "text": t["level_text"],
                              "design_ref": t["design_ref"]},
            "level_note": t["level_note"],
            "technique": t["technique"],
        })
    else:
        man["not_applicable"].append({"property_id": pid, "reason": mt.NOT_YET.get(pid, "check not built yet in this session; see DESIGN.md section 3 for the planned design")})
json.dump(man, open(os.path.join(VERIF, "MANIFEST.json"), "w"), indent=1)
print("checks:", [c["property_id"] for c in man["checks"]])
