"""Build cache for the verification harnesses.

Everything is compiled from /repo's *current working tree*: the cache key is a
content hash of /repo/{src,include,external}, so an edit to the library always
triggers a rebuild, and an unchanged tree is a cache hit.
"""
import fcntl
import hashlib
import os
import shutil
import subprocess
import sys
import time
from concurrent.futures import ThreadPoolExecutor

VERIF = os.path.dirname(os.path.dirname(os.path.abspath(__file__)))
REPO = os.environ.get("VERIF_REPO", "/repo")
CACHE = os.environ.get("VERIF_CACHE", os.path.join(VERIF, ".cache"))
CXX = "clang++"
NPROC = int(os.environ.get("VERIF_JOBS", str(os.cpu_count() or 8)))

COMMON = ["-std=gnu++17", "-DNIFLY_VERIF", "-gline-tables-only", "-fno-omit-frame-pointer", "-w"]
SAN = ["-fsanitize=address,undefined", "-fno-sanitize-recover=undefined",
       "-fno-sanitize=alignment,float-cast-overflow"]
FLAVOURS = {
    # flavour: (lib flags, harness flags, link flags)
    "san": (COMMON + SAN, COMMON + SAN, SAN),
    "fuzz": (COMMON + SAN + ["-fsanitize=fuzzer-no-link"], COMMON + SAN + ["-fsanitize=fuzzer-no-link"],
             SAN + ["-fsanitize=fuzzer"]),
}


def log(msg):
    print("[vbuild] " + msg, file=sys.stderr, flush=True)


def _hash_tree(paths):
    h = hashlib.sha256()
    for root in paths:
        if os.path.isfile(root):
            files = [root]
        else:
            files = []
            for d, dn, fn in os.walk(root):
                dn.sort()
                for f in sorted(fn):
                    if f.endswith((".cpp", ".hpp", ".h", ".c", ".py", ".json", ".txt")):
                        files.append(os.path.join(d, f))
        for f in files:
            h.update(os.path.relpath(f, os.path.dirname(root)).encode())
            with open(f, "rb") as fh:
                h.update(fh.read())
    return h.hexdigest()[:16]


def repo_hash(repo=None):
    repo = repo or REPO
    return _hash_tree([os.path.join(repo, d) for d in ("src", "include", "external")])


class Lock:
    def __init__(self, path):
        self.path = path

    def __enter__(self):
        os.makedirs(os.path.dirname(self.path), exist_ok=True)
        self.f = open(self.path, "w")
        fcntl.flock(self.f, fcntl.LOCK_EX)
        return self

    def __exit__(self, *a):
        fcntl.flock(self.f, fcntl.LOCK_UN)
        self.f.close()


def _run(cmd, what):
    p = subprocess.run(cmd, stdout=subprocess.PIPE, stderr=subprocess.STDOUT, text=True)
    if p.returncode != 0:
        sys.stderr.write(p.stdout)
        raise RuntimeError("build failed: " + what)
    return p.stdout


def _prune_cache(keep):
    """Keep at most six tree hashes (the given one and the five most recently used others)."""
    if not os.path.isdir(CACHE):
        return
    ents = []
    for e in os.listdir(CACHE):
        p = os.path.join(CACHE, e)
        if os.path.isdir(p) and len(e) == 16 and e != keep:
            ents.append((os.path.getmtime(p), p))
    ents.sort(reverse=True)
    for _, p in ents[5:]:
        shutil.rmtree(p, ignore_errors=True)


def build_lib(flavour="san", repo=None, extra_defs=(), tag=None):
    """Build libnifly.a from the working tree; returns (dir, repo_hash)."""
    repo = repo or REPO
    rh = repo_hash(repo)
    name = flavour + ("-" + tag if tag else "")
    out = os.path.join(CACHE, rh, name)
    lib = os.path.join(out, "libnifly.a")
    with Lock(os.path.join(CACHE, "lock-" + rh + "-" + name)):
        if os.path.exists(lib):
            os.utime(os.path.join(CACHE, rh))
            return out, rh
        _prune_cache(rh)
        t0 = time.time()
        os.makedirs(out, exist_ok=True)
        libflags = FLAVOURS[flavour][0] + list(extra_defs)
        inc = ["-I", os.path.join(repo, "include"), "-isystem", os.path.join(repo, "external")]
        srcs = sorted(f for f in os.listdir(os.path.join(repo, "src")) if f.endswith(".cpp"))
        # Factory.cpp dominates (304 factory instantiations): -O0 and link it last so the
        # optimised COMDAT copies from the other TUs win.
        order = [s for s in srcs if s != "Factory.cpp"] + (["Factory.cpp"] if "Factory.cpp" in srcs else [])

        def comp(s):
            o = os.path.join(out, s[:-4] + ".o")
            opt = "-O0" if s == "Factory.cpp" else "-O1"
            _run([CXX] + libflags + [opt] + inc + ["-c", os.path.join(repo, "src", s), "-o", o], s)
            return o

        # start the slow ones first
        prio = sorted(order, key=lambda s: 0 if s in ("Factory.cpp", "NifFile.cpp", "Geometry.cpp") else 1)
        with ThreadPoolExecutor(NPROC) as ex:
            objs = dict(zip(prio, ex.map(comp, prio)))
        tmp = lib + ".tmp"
        if os.path.exists(tmp):
            os.unlink(tmp)
        _run(["ar", "rcs", tmp] + [objs[s] for s in order], "ar")
        os.rename(tmp, lib)
        log("built %s library for tree %s in %.0fs" % (name, rh, time.time() - t0))
    return out, rh


def build_rc_driver():
    """rapidcheck driver object: independent of /repo, cached by its own content."""
    src = os.path.join(VERIF, "harness", "common", "rc_driver.cpp")
    h = _hash_tree([src])
    out = os.path.join(CACHE, "rc", h)
    obj = os.path.join(out, "rc_driver.o")
    with Lock(os.path.join(CACHE, "lock-rc")):
        if not os.path.exists(obj):
            os.makedirs(out, exist_ok=True)
            t0 = time.time()
            _run([CXX, "-std=gnu++17", "-O1", "-w", "-c", src, "-o", obj + ".tmp"], "rc_driver")
            os.rename(obj + ".tmp", obj)
            log("built rc_driver in %.0fs" % (time.time() - t0))
    return obj


def build_harness(name, flavour="san", repo=None, sources=None, extra_objs=(), extra_flags=(), libdir=None,
                  link_rc=True):
    """Compile harness/<name>.cpp (+ sources) against the tree's headers and link with
    the matching library. Returns path of the binary."""
    repo = repo or REPO
    if libdir is None:
        libdir, rh = build_lib(flavour, repo)
    else:
        rh = repo_hash(repo)
    hdir = os.path.join(VERIF, "harness")
    srcs = sources or [os.path.join(hdir, name + ".cpp")]
    hh = _hash_tree([os.path.join(hdir, "common")] + srcs)
    hh = hashlib.sha256((hh + " ".join(extra_flags) + " ".join(extra_objs)).encode()).hexdigest()[:12]
    out = os.path.join(CACHE, rh, flavour, "h-" + name + "-" + hh)
    binp = os.path.join(out, name)
    with Lock(os.path.join(CACHE, "lock-h-" + rh + "-" + flavour + "-" + name)):
        if os.path.exists(binp):
            return binp
        # drop stale builds of this harness for this tree
        parent = os.path.join(CACHE, rh, flavour)
        for e in os.listdir(parent):
            if e.startswith("h-" + name + "-") and e != os.path.basename(out):
                shutil.rmtree(os.path.join(parent, e), ignore_errors=True)
        os.makedirs(out, exist_ok=True)
        t0 = time.time()
        hflags = FLAVOURS[flavour][1] + ["-O1"] + list(extra_flags)
        inc = ["-I", os.path.join(repo, "include"), "-isystem", os.path.join(repo, "external"),
               "-I", os.path.join(hdir, "common")]

        def comp(s):
            o = os.path.join(out, os.path.basename(s)[:-4] + ".o")
            _run([CXX] + hflags + inc + ["-c", s, "-o", o], s)
            return o

        with ThreadPoolExecutor(NPROC) as ex:
            objs = list(ex.map(comp, srcs))
        link = [CXX] + FLAVOURS[flavour][2] + objs + list(extra_objs)
        if link_rc:
            link += [build_rc_driver()]
        link += [os.path.join(libdir, "libnifly.a")]
        if link_rc:
            link += ["-lrapidcheck"]
        link += ["-lpthread", "-o", binp + ".tmp"]
        _run(link, "link " + name)
        os.rename(binp + ".tmp", binp)
        log("built harness %s (%s) in %.0fs" % (name, flavour, time.time() - t0))
    return binp


if __name__ == "__main__":
    # setup: pre-warm
    build_rc_driver()
    d, rh = build_lib("san")
    print(d, rh)
