#!/usr/bin/env python3-vt
import json, sys, glob, jsonschema
m = json.load(open('/verif/MANIFEST.json'))
jsonschema.validate(m, json.load(open('/root/.vp/MANIFEST.schema.json')))
print('manifest valid;', len(m['checks']), 'checks,', len(m.get('not_applicable', [])), 'not applicable')
es = json.load(open('/root/.vp/EVIDENCE.schema.json'))
for f in sorted(glob.glob('/verif/evidence/*.json')):
    try:
        jsonschema.validate(json.load(open(f)), es)
        print('evidence ok:', f)
    except Exception as e:
        print('EVIDENCE INVALID:', f, str(e)[:300])
