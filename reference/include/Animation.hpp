/*
nifly
C++ NIF library for the Gamebryo/NetImmerse File Format
See the included GPLv3 LICENSE file
*/

#pragma once

#include "BasicTypes.hpp"
#include "ExtraData.hpp"
#include "Keys.hpp"

namespace nifly {
struct QuatTransform {
	Vector3 translation;
	Quaternion rotation;
	float scale = 1.0f;
	bool trsValid[3]{};

	void Sync(NiStreamReversible& stream) {
		stream.Sync(translation);
		stream.Sync(rotation);
		stream.Sync(scale);

		if (stream.GetVersion().File() < V10_1_0_110)
			stream.Sync(trsValid);
	}
};

class NiKeyframeData : public NiCloneableStreamable<NiKeyframeData, NiObject> {
public:
	NiKeyType rotationType = NO_INTERP;
	std::vector<NiAnimationKey<Quaternion>> quaternionKeys;
	NiAnimationKeyGroup<float> xRotations;
	NiAnimationKeyGroup<float> yRotations;
	NiAnimationKeyGroup<float> zRotations;
	NiAnimationKeyGroup<Vector3> translations;
	NiAnimationKeyGroup<float> scales;

	static constexpr const char* BlockName = "NiKeyframeData";
	const char* GetBlockName() override { return BlockName; }

	void Sync(NiStreamReversible& stream);
};

class NiTransformData : public NiCloneable<NiTransformData, NiKeyframeData> {
public:
	static constexpr const char* BlockName = "NiTransformData";

	const char* GetBlockName() override { return BlockName; }
};

class NiPosData : public NiCloneableStreamable<NiPosData, NiObject> {
public:
	NiAnimationKeyGroup<Vector3> data;

	static constexpr const char* BlockName = "NiPosData";
	const char* GetBlockName() override { return BlockName; }

	void Sync(NiStreamReversible& stream);
};

class NiBoolData : public NiCloneableStreamable<NiBoolData, NiObject> {
public:
	NiAnimationKeyGroup<uint8_t> data;

	static constexpr const char* BlockName = "NiBoolData";
	const char* GetBlockName() override { return BlockName; }

	void Sync(NiStreamReversible& stream);
};

class NiFloatData : public NiCloneableStreamable<NiFloatData, NiObject> {
public:
	NiAnimationKeyGroup<float> data;

	static constexpr const char* BlockName = "NiFloatData";
	const char* GetBlockName() override { return BlockName; }

	void Sync(NiStreamReversible& stream);
};

class NiBSplineData : public NiCloneableStreamable<NiBSplineData, NiObject> {
public:
	NiVector<float> floatControlPoints;
	NiVector<short> shortControlPoints;

	static constexpr const char* BlockName = "NiBSplineData";
	const char* GetBlockName() override { return BlockName; }

	void Sync(NiStreamReversible& stream);
};

class NiBSplineBasisData : public NiCloneableStreamable<NiBSplineBasisData, NiObject> {
public:
	uint32_t numControlPoints = 0;

	static constexpr const char* BlockName = "NiBSplineBasisData";
	const char* GetBlockName() override { return BlockName; }

	void Sync(NiStreamReversible& stream);
};

class NiInterpolator : public NiCloneable<NiInterpolator, NiObject> {};

class NiBSplineInterpolator : public NiCloneableStreamable<NiBSplineInterpolator, NiInterpolator> {
public:
	float startTime = 0.0f;
	float stopTime = 0.0f;
	NiBlockRef<NiBSplineData> splineDataRef;
	NiBlockRef<NiBSplineBasisData> basisDataRef;

	void Sync(NiStreamReversible& stream);
	void GetChildRefs(std::set<NiRef*>& refs) override;
	void GetChildIndices(std::vector<uint32_t>& indices) override;
};

class NiBSplineFloatInterpolator : public NiCloneable<NiBSplineFloatInterpolator, NiBSplineInterpolator> {};

class NiBSplineCompFloatInterpolator
	: public NiCloneableStreamable<NiBSplineCompFloatInterpolator, NiBSplineFloatInterpolator> {
public:
	float base = 0.0f;
	uint32_t offset = 0;
	float bias = 0.0f;
	float multiplier = 0.0f;

	static constexpr const char* BlockName = "NiBSplineCompFloatInterpolator";
	const char* GetBlockName() override { return BlockName; }

	void Sync(NiStreamReversible& stream);
};

class NiBSplinePoint3Interpolator
	: public NiCloneableStreamable<NiBSplinePoint3Interpolator, NiBSplineInterpolator> {
public:
	Vector3 value = NiVec3Min;
	uint32_t handle = NiUShortMax;

	void Sync(NiStreamReversible& stream);
};

class NiBSplineCompPoint3Interpolator
	: public NiCloneableStreamable<NiBSplineCompPoint3Interpolator, NiBSplinePoint3Interpolator> {
public:
	float positionOffset = NiFloatMax;
	float positionHalfRange = NiFloatMax;

	static constexpr const char* BlockName = "NiBSplineCompPoint3Interpolator";
	const char* GetBlockName() override { return BlockName; }

	void Sync(NiStreamReversible& stream);
};

class NiBSplineTransformInterpolator
	: public NiCloneableStreamable<NiBSplineTransformInterpolator, NiBSplineInterpolator> {
public:
	Vector3 translation;
	Quaternion rotation;
	float scale = 1.0f;

	uint32_t translationOffset = 0;
	uint32_t rotationOffset = 0;
	uint32_t scaleOffset = 0;

	static constexpr const char* BlockName = "NiBSplineTransformInterpolator";
	const char* GetBlockName() override { return BlockName; }

	void Sync(NiStreamReversible& stream);
};

class NiBSplineCompTransformInterpolator
	: public NiCloneableStreamable<NiBSplineCompTransformInterpolator, NiBSplineTransformInterpolator> {
public:
	float translationBias = 0.0f;
	float translationMultiplier = 0.0f;
	float rotationBias = 0.0f;
	float rotationMultiplier = 0.0f;
	float scaleBias = 0.0f;
	float scaleMultiplier = 0.0f;

	static constexpr const char* BlockName = "NiBSplineCompTransformInterpolator";
	const char* GetBlockName() override { return BlockName; }

	void Sync(NiStreamReversible& stream);
};

enum InterpBlendFlags : uint8_t { INTERP_BLEND_NONE = 0x00, INTERP_BLEND_MANAGER_CONTROLLED = 0x01 };

class InterpBlendItem {
public:
	NiBlockRef<NiInterpolator> interpolatorRef;
	float weight = 0.0f;
	float normalizedWeight = 0.0f;
	uint32_t priorityInt = 0;
	uint8_t priority = 0;
	float easeSpinner = 0.0f;

	void Sync(NiStreamReversible& stream);
};

class NiBlendInterpolator : public NiCloneableStreamable<NiBlendInterpolator, NiInterpolator> {
public:
	InterpBlendFlags flags = INTERP_BLEND_MANAGER_CONTROLLED;
	uint16_t arraySize = 0;
	uint16_t arrayGrowBy = 0;
	float weightThreshold = 0.0f;

	uint16_t interpCount = 0;
	uint8_t singleIndex = NiByteMax;
	uint16_t singleIndexShort = NiUShortMax;
	char highPriority = NiCharMin;
	int highPriorityInt = NiIntMin;
	char nextHighPriority = NiCharMin;
	int nextHighPriorityInt = NiIntMin;
	float singleTime = NiFloatMin;
	float highWeightsSum = NiFloatMin;
	float nextHighWeightsSum = NiFloatMin;
	float highEaseSpinner = NiFloatMin;
	std::vector<InterpBlendItem> interpItems;

	bool managerControlled = false;
	bool onlyUseHighestWeight = false;
	NiBlockRef<NiInterpolator> singleInterpolatorRef;

	void Sync(NiStreamReversible& stream);
	void GetChildRefs(std::set<NiRef*>& refs) override;
	void GetChildIndices(std::vector<uint32_t>& indices) override;
};

class NiBlendBoolInterpolator : public NiCloneableStreamable<NiBlendBoolInterpolator, NiBlendInterpolator> {
public:
	// Stored as a byte: files use values other than 0 and 1 (2 = invalid), which a bool cannot hold
	uint8_t value = 0;

	static constexpr const char* BlockName = "NiBlendBoolInterpolator";
	const char* GetBlockName() override { return BlockName; }

	void Sync(NiStreamReversible& stream);
};

class NiBlendFloatInterpolator : public NiCloneableStreamable<NiBlendFloatInterpolator, NiBlendInterpolator> {
public:
	float value = 0.0f;

	static constexpr const char* BlockName = "NiBlendFloatInterpolator";
	const char* GetBlockName() override { return BlockName; }

	void Sync(NiStreamReversible& stream);
};

class NiBlendPoint3Interpolator
	: public NiCloneableStreamable<NiBlendPoint3Interpolator, NiBlendInterpolator> {
public:
	Vector3 point;

	static constexpr const char* BlockName = "NiBlendPoint3Interpolator";
	const char* GetBlockName() override { return BlockName; }

	void Sync(NiStreamReversible& stream);
};

class NiBlendTransformInterpolator
	: public NiCloneableStreamable<NiBlendTransformInterpolator, NiBlendInterpolator> {
public:
	QuatTransform value;

	static constexpr const char* BlockName = "NiBlendTransformInterpolator";
	const char* GetBlockName() override { return BlockName; }

	void Sync(NiStreamReversible& stream);
};

class NiKeyBasedInterpolator : public NiInterpolator {};

class NiBoolInterpolator : public NiCloneableStreamable<NiBoolInterpolator, NiKeyBasedInterpolator> {
public:
	uint8_t boolValue = 0;
	NiBlockRef<NiBoolData> dataRef;

	static constexpr const char* BlockName = "NiBoolInterpolator";
	const char* GetBlockName() override { return BlockName; }

	void Sync(NiStreamReversible& stream);
	void GetChildRefs(std::set<NiRef*>& refs) override;
	void GetChildIndices(std::vector<uint32_t>& indices) override;
};

class NiBoolTimelineInterpolator : public NiCloneable<NiBoolTimelineInterpolator, NiBoolInterpolator> {
public:
	static constexpr const char* BlockName = "NiBoolTimelineInterpolator";
	const char* GetBlockName() override { return BlockName; }
};

class NiFloatInterpolator : public NiCloneableStreamable<NiFloatInterpolator, NiKeyBasedInterpolator> {
public:
	float floatValue = 0.0f;
	NiBlockRef<NiFloatData> dataRef;

	static constexpr const char* BlockName = "NiFloatInterpolator";
	const char* GetBlockName() override { return BlockName; }

	void Sync(NiStreamReversible& stream);
	void GetChildRefs(std::set<NiRef*>& refs) override;
	void GetChildIndices(std::vector<uint32_t>& indices) override;
};

class NiTransformInterpolator
	: public NiCloneableStreamable<NiTransformInterpolator, NiKeyBasedInterpolator> {
public:
	Vector3 translation;
	Quaternion rotation;
	float scale = 0.0f;
	NiBlockRef<NiTransformData> dataRef;

	static constexpr const char* BlockName = "NiTransformInterpolator";
	const char* GetBlockName() override { return BlockName; }

	void Sync(NiStreamReversible& stream);
	void GetChildRefs(std::set<NiRef*>& refs) override;
	void GetChildIndices(std::vector<uint32_t>& indices) override;
};

class BSRotAccumTransfInterpolator
	: public NiCloneable<BSRotAccumTransfInterpolator, NiTransformInterpolator> {
public:
	static constexpr const char* BlockName = "BSRotAccumTransfInterpolator";
	const char* GetBlockName() override { return BlockName; }
};

class NiPoint3Interpolator : public NiCloneableStreamable<NiPoint3Interpolator, NiKeyBasedInterpolator> {
public:
	Vector3 point3Value;
	NiBlockRef<NiPosData> dataRef;

	static constexpr const char* BlockName = "NiPoint3Interpolator";
	const char* GetBlockName() override { return BlockName; }

	void Sync(NiStreamReversible& stream);
	void GetChildRefs(std::set<NiRef*>& refs) override;
	void GetChildIndices(std::vector<uint32_t>& indices) override;
};

enum PathFlags : uint16_t {
	PATH_NONE = 0x0000,
	PATH_CVDATANEEDSUPDATE = 0x0001,
	PATH_CURVETYPEOPEN = 0x0002,
	PATH_ALLOWFLIP = 0x0004,
	PATH_BANK = 0x0008,
	PATH_CONSTANTVELOCITY = 0x0016,
	PATH_FOLLOW = 0x0032,
	PATH_FLIP = 0x0064
};

class NiPathInterpolator : public NiCloneableStreamable<NiPathInterpolator, NiKeyBasedInterpolator> {
private:
	PathFlags pathFlags = static_cast<PathFlags>(PATH_CVDATANEEDSUPDATE | PATH_CURVETYPEOPEN);
	int bankDir = 1;
	float maxBankAngle = 0.0f;
	float smoothing = 0.0f;
	uint16_t followAxis = 0;

	NiBlockRef<NiPosData> pathDataRef;
	NiBlockRef<NiFloatData> percentDataRef;

public:
	static constexpr const char* BlockName = "NiPathInterpolator";
	const char* GetBlockName() override { return BlockName; }

	void Sync(NiStreamReversible& stream);
	void GetChildRefs(std::set<NiRef*>& refs) override;
	void GetChildIndices(std::vector<uint32_t>& indices) override;
};

enum LookAtFlags : uint16_t {
	LOOK_X_AXIS = 0x0000,
	LOOK_FLIP = 0x0001,
	LOOK_Y_AXIS = 0x0002,
	LOOK_Z_AXIS = 0x0004
};

class NiNode;

class NiLookAtInterpolator : public NiCloneableStreamable<NiLookAtInterpolator, NiInterpolator> {
public:
	LookAtFlags flags = LOOK_X_AXIS;
	NiBlockPtr<NiNode> lookAtRef;

	NiStringRef lookAtName;

	QuatTransform transform;
	NiBlockRef<NiPoint3Interpolator> translateInterpRef;
	NiBlockRef<NiFloatInterpolator> rollInterpRef;
	NiBlockRef<NiFloatInterpolator> scaleInterpRef;

	static constexpr const char* BlockName = "NiLookAtInterpolator";
	const char* GetBlockName() override { return BlockName; }

	void Sync(NiStreamReversible& stream);
	void GetStringRefs(std::vector<NiStringRef*>& refs) override;
	void GetChildRefs(std::set<NiRef*>& refs) override;
	void GetChildIndices(std::vector<uint32_t>& indices) override;
	void GetPtrs(std::set<NiPtr*>& ptrs) override;
};

struct BSTreadTransformData {
	Vector3 translation;
	Quaternion rotation;
	float scale = 1.0f;
};

struct BSTreadTransform {
	NiStringRef name;
	BSTreadTransformData transform1;
	BSTreadTransformData transform2;

	void Sync(NiStreamReversible& stream) {
		name.Sync(stream);
		stream.Sync(transform1);
		stream.Sync(transform2);
	}

	void GetStringRefs(std::vector<NiStringRef*>& refs) { refs.emplace_back(&name); }
};

class BSTreadTransfInterpolator : public NiCloneableStreamable<BSTreadTransfInterpolator, NiInterpolator> {
public:
	NiSyncVector<BSTreadTransform> treadTransforms;
	NiBlockRef<NiFloatData> dataRef;

	static constexpr const char* BlockName = "BSTreadTransfInterpolator";
	const char* GetBlockName() override { return BlockName; }

	void Sync(NiStreamReversible& stream);
	void GetStringRefs(std::vector<NiStringRef*>& refs) override;
	void GetChildRefs(std::set<NiRef*>& refs) override;
	void GetChildIndices(std::vector<uint32_t>& indices) override;
};

class NiObjectNET;

class NiTimeController : public NiCloneableStreamable<NiTimeController, NiObject> {
public:
	NiBlockRef<NiTimeController> nextControllerRef;
	uint16_t flags = 0x000C;
	float frequency = 1.0f;
	float phase = 0.0f;
	float startTime = NiFloatMax;
	float stopTime = NiFloatMin;
	NiBlockPtr<NiObjectNET> targetRef;

	void Sync(NiStreamReversible& stream);
	void GetChildRefs(std::set<NiRef*>& refs) override;
	void GetChildIndices(std::vector<uint32_t>& indices) override;
	void GetPtrs(std::set<NiPtr*>& ptrs) override;
};

class NiLookAtController : public NiCloneableStreamable<NiLookAtController, NiTimeController> {
public:
	LookAtFlags lookAtFlags = LOOK_X_AXIS;
	NiBlockPtr<NiNode> lookAtNodePtr;

	static constexpr const char* BlockName = "NiLookAtController";
	const char* GetBlockName() override { return BlockName; }

	void Sync(NiStreamReversible& stream);
	void GetPtrs(std::set<NiPtr*>& ptrs) override;
};

class NiPathController : public NiCloneableStreamable<NiPathController, NiTimeController> {
public:
	PathFlags pathFlags = PATH_NONE;
	int bankDir = 1;
	float maxBankAngle = 0.0f;
	float smoothing = 0.0f;
	uint16_t followAxis = 0;
	NiBlockRef<NiPosData> pathDataRef;
	NiBlockRef<NiFloatData> percentDataRef;

	static constexpr const char* BlockName = "NiPathController";
	const char* GetBlockName() override { return BlockName; }

	void Sync(NiStreamReversible& stream);
	void GetChildRefs(std::set<NiRef*>& refs) override;
	void GetChildIndices(std::vector<uint32_t>& indices) override;
};

class NiPSysResetOnLoopCtlr : public NiCloneable<NiPSysResetOnLoopCtlr, NiTimeController> {
public:
	static constexpr const char* BlockName = "NiPSysResetOnLoopCtlr";
	const char* GetBlockName() override { return BlockName; }
};

class NiUVData : public NiCloneableStreamable<NiUVData, NiObject> {
public:
	NiAnimationKeyGroup<float> uTrans;
	NiAnimationKeyGroup<float> vTrans;
	NiAnimationKeyGroup<float> uScale;
	NiAnimationKeyGroup<float> vScale;

	static constexpr const char* BlockName = "NiUVData";
	const char* GetBlockName() override { return BlockName; }

	void Sync(NiStreamReversible& stream);
};

class NiUVController : public NiCloneableStreamable<NiUVController, NiTimeController> {
public:
	uint16_t textureSet = 0;
	NiBlockRef<NiUVData> dataRef;

	static constexpr const char* BlockName = "NiUVController";
	const char* GetBlockName() override { return BlockName; }

	void Sync(NiStreamReversible& stream);
	void GetChildRefs(std::set<NiRef*>& refs) override;
	void GetChildIndices(std::vector<uint32_t>& indices) override;
};

class BSFrustumFOVController : public NiCloneableStreamable<BSFrustumFOVController, NiTimeController> {
public:
	NiBlockRef<NiInterpolator> interpolatorRef;

	static constexpr const char* BlockName = "BSFrustumFOVController";
	const char* GetBlockName() override { return BlockName; }

	void Sync(NiStreamReversible& stream);
	void GetChildRefs(std::set<NiRef*>& refs) override;
	void GetChildIndices(std::vector<uint32_t>& indices) override;
};

class BSLagBoneController : public NiCloneableStreamable<BSLagBoneController, NiTimeController> {
public:
	float linearVelocity = 0.0f;
	float linearRotation = 0.0f;
	float maxDistance = 0.0f;

	static constexpr const char* BlockName = "BSLagBoneController";
	const char* GetBlockName() override { return BlockName; }

	void Sync(NiStreamReversible& stream);
};

class BSShaderProperty;

class BSProceduralLightningController
	: public NiCloneableStreamable<BSProceduralLightningController, NiTimeController> {
public:
	NiBlockRef<NiInterpolator> generationInterpRef;
	NiBlockRef<NiInterpolator> mutationInterpRef;
	NiBlockRef<NiInterpolator> subdivisionInterpRef;
	NiBlockRef<NiInterpolator> numBranchesInterpRef;
	NiBlockRef<NiInterpolator> numBranchesVarInterpRef;
	NiBlockRef<NiInterpolator> lengthInterpRef;
	NiBlockRef<NiInterpolator> lengthVarInterpRef;
	NiBlockRef<NiInterpolator> widthInterpRef;
	NiBlockRef<NiInterpolator> arcOffsetInterpRef;

	uint16_t subdivisions = 0;
	uint16_t numBranches = 0;
	uint16_t numBranchesPerVariation = 0;

	float length = 0.0f;
	float lengthVariation = 0.0f;
	float width = 0.0f;
	float childWidthMult = 0.0f;
	float arcOffset = 0.0f;
	bool fadeMainBolt = 0.0f;
	bool fadeChildBolts = 0.0f;
	bool animateArcOffset = 0.0f;

	NiBlockRef<BSShaderProperty> shaderPropertyRef;

	static constexpr const char* BlockName = "BSProceduralLightningController";
	const char* GetBlockName() override { return BlockName; }

	void Sync(NiStreamReversible& stream);
	void GetChildRefs(std::set<NiRef*>& refs) override;
	void GetChildIndices(std::vector<uint32_t>& indices) override;
};

class NiBoneLODController : public NiCloneableStreamable<NiBoneLODController, NiTimeController> {
public:
	uint32_t lod = 0;
	uint32_t numLODs = 0;
	NiSyncVector<NiBlockPtrArray<NiNode>> boneArrays;

	static constexpr const char* BlockName = "NiBoneLODController";
	const char* GetBlockName() override { return BlockName; }

	void Sync(NiStreamReversible& stream);
	void GetPtrs(std::set<NiPtr*>& ptrs) override;
};

class NiBSBoneLODController : public NiCloneable<NiBSBoneLODController, NiBoneLODController> {
public:
	static constexpr const char* BlockName = "NiBSBoneLODController";
	const char* GetBlockName() override { return BlockName; }
};

struct Morph {
	NiStringRef frameName;
	float legacyWeight = 0.0f;
	std::vector<Vector3> vectors;

	void Sync(NiStreamReversible& stream, uint32_t numVerts) {
		if (stream.GetVersion().File() >= V10_1_0_106)
			frameName.Sync(stream);

		if (stream.GetVersion().File() >= V10_1_0_104 && stream.GetVersion().File() < V20_1_0_3 && stream.GetVersion().Stream() < 10)
			stream.Sync(legacyWeight);

		vectors.resize(numVerts);
		for (uint32_t i = 0; i < numVerts; i++)
			stream.Sync(vectors[i]);
	}

	void GetStringRefs(std::vector<NiStringRef*>& refs) { refs.emplace_back(&frameName); }
};

class NiMorphData : public NiCloneableStreamable<NiMorphData, NiObject> {
private:
	uint32_t numMorphs = 0;
	std::vector<Morph> morphs;

public:
	uint32_t numVertices = 0;
	uint8_t relativeTargets = 1;

	static constexpr const char* BlockName = "NiMorphData";
	const char* GetBlockName() override { return BlockName; }

	void Sync(NiStreamReversible& stream);
	void GetStringRefs(std::vector<NiStringRef*>& refs) override;

	std::vector<Morph> GetMorphs() const;
	void SetMorphs(const uint32_t numVerts, const std::vector<Morph>& m);
};

class NiInterpController : public NiCloneableStreamable<NiInterpController, NiTimeController> {
public:
	bool managerControlled = false;

	void Sync(NiStreamReversible& stream);
};

class MorphWeight {
public:
	NiBlockRef<NiInterpolator> interpRef;
	float weight = 0.0f;

	void Sync(NiStreamReversible& stream) {
		interpRef.Sync(stream);
		stream.Sync(weight);
	}

	void GetChildRefs(std::set<NiRef*>& refs) { refs.insert(&interpRef); }
	void GetChildIndices(std::vector<uint32_t>& indices) { indices.push_back(interpRef.index); }
};

enum GeomMorpherFlags : uint16_t { GM_UPDATE_NORMALS_DISABLED, GM_UPDATE_NORMALS_ENABLED };

class NiGeomMorpherController : public NiCloneableStreamable<NiGeomMorpherController, NiInterpController> {
public:
	GeomMorpherFlags morpherFlags = GM_UPDATE_NORMALS_DISABLED;
	NiBlockRef<NiMorphData> dataRef;
	bool alwaysUpdate = false;
	NiBlockRefArray<NiInterpolator> interpolatorRefs;
	NiSyncVector<MorphWeight> interpWeights;

	NiVector<uint32_t> unknownInts;

	static constexpr const char* BlockName = "NiGeomMorpherController";
	const char* GetBlockName() override { return BlockName; }

	void Sync(NiStreamReversible& stream);
	void GetChildRefs(std::set<NiRef*>& refs) override;
	void GetChildIndices(std::vector<uint32_t>& indices) override;
};

class NiSingleInterpController : public NiCloneableStreamable<NiSingleInterpController, NiInterpController> {
public:
	NiBlockRef<NiInterpController> interpolatorRef;

	void Sync(NiStreamReversible& stream);
	void GetChildRefs(std::set<NiRef*>& refs) override;
	void GetChildIndices(std::vector<uint32_t>& indices) override;
};

class NiRollController : public NiCloneableStreamable<NiRollController, NiSingleInterpController> {
public:
	NiBlockRef<NiFloatData> dataRef;

	static constexpr const char* BlockName = "NiRollController";
	const char* GetBlockName() override { return BlockName; }

	void Sync(NiStreamReversible& stream);
	void GetChildRefs(std::set<NiRef*>& refs) override;
	void GetChildIndices(std::vector<uint32_t>& indices) override;
};

enum TargetColor : uint16_t { TC_AMBIENT, TC_DIFFUSE, TC_SPECULAR, TC_SELF_ILLUM };

class NiPoint3InterpController
	: public NiCloneableStreamable<NiPoint3InterpController, NiSingleInterpController> {
public:
	TargetColor targetColor = TC_AMBIENT;

	void Sync(NiStreamReversible& stream);
};

class NiMaterialColorController : public NiCloneable<NiMaterialColorController, NiPoint3InterpController> {
public:
	static constexpr const char* BlockName = "NiMaterialColorController";
	const char* GetBlockName() override { return BlockName; }
};

class NiLightColorController : public NiCloneable<NiLightColorController, NiPoint3InterpController> {
public:
	static constexpr const char* BlockName = "NiLightColorController";
	const char* GetBlockName() override { return BlockName; }
};

class NiExtraDataController : public NiCloneable<NiExtraDataController, NiSingleInterpController> {};

class NiFloatExtraDataController
	: public NiCloneableStreamable<NiFloatExtraDataController, NiExtraDataController> {
public:
	NiStringRef extraData;

	static constexpr const char* BlockName = "NiFloatExtraDataController";
	const char* GetBlockName() override { return BlockName; }

	void Sync(NiStreamReversible& stream);
	void GetStringRefs(std::vector<NiStringRef*>& refs) override;
};

class NiVisData : public NiCloneableStreamable<NiVisData, NiObject> {
public:
	NiSyncVector<NiAnimationKey<uint8_t>> keys;

	static constexpr const char* BlockName = "NiVisData";
	const char* GetBlockName() override { return BlockName; }

	void Sync(NiStreamReversible& stream);
};

class NiBoolInterpController : public NiSingleInterpController {};

class NiVisController : public NiCloneable<NiVisController, NiBoolInterpController> {
public:
	static constexpr const char* BlockName = "NiVisController";
	const char* GetBlockName() override { return BlockName; }
};

enum TexType : uint32_t {
	BASE_MAP,
	DARK_MAP,
	DETAIL_MAP,
	GLOSS_MAP,
	GLOW_MAP,
	BUMP_MAP,
	NORMAL_MAP,
	PARALLAX_MAP,
	DECAL_0_MAP,
	DECAL_1_MAP,
	DECAL_2_MAP,
	DECAL_3_MAP
};

class NiFloatInterpController : public NiCloneable<NiFloatInterpController, NiSingleInterpController> {};

class BSRefractionFirePeriodController
	: public NiCloneable<BSRefractionFirePeriodController, NiSingleInterpController> {
public:
	static constexpr const char* BlockName = "BSRefractionFirePeriodController";
	const char* GetBlockName() override { return BlockName; }
};

class NiSourceTexture;

class NiFlipController : public NiCloneableStreamable<NiFlipController, NiFloatInterpController> {
public:
	TexType textureSlot = BASE_MAP;
	NiBlockRefArray<NiSourceTexture> sourceRefs;

	static constexpr const char* BlockName = "NiFlipController";
	const char* GetBlockName() override { return BlockName; }

	void Sync(NiStreamReversible& stream);
	void GetChildRefs(std::set<NiRef*>& refs) override;
	void GetChildIndices(std::vector<uint32_t>& indices) override;
};

enum TexTransformType : uint32_t { TT_TRANSLATE_U, TT_TRANSLATE_V, TT_ROTATE, TT_SCALE_U, TT_SCALE_V };

class NiTextureTransformController
	: public NiCloneableStreamable<NiTextureTransformController, NiFloatInterpController> {
public:
	bool shaderMap = false;
	TexType textureSlot = BASE_MAP;
	TexTransformType operation = TT_TRANSLATE_U;

	static constexpr const char* BlockName = "NiTextureTransformController";
	const char* GetBlockName() override { return BlockName; }

	void Sync(NiStreamReversible& stream);
};

class NiLightDimmerController : public NiCloneable<NiLightDimmerController, NiFloatInterpController> {
public:
	static constexpr const char* BlockName = "NiLightDimmerController";
	const char* GetBlockName() override { return BlockName; }
};

class NiLightRadiusController : public NiCloneable<NiLightRadiusController, NiFloatInterpController> {
public:
	static constexpr const char* BlockName = "NiLightRadiusController";
	const char* GetBlockName() override { return BlockName; }
};

class NiAlphaController : public NiCloneable<NiAlphaController, NiFloatInterpController> {
public:
	static constexpr const char* BlockName = "NiAlphaController";
	const char* GetBlockName() override { return BlockName; }
};

class NiPSysUpdateCtlr : public NiCloneable<NiPSysUpdateCtlr, NiTimeController> {
public:
	static constexpr const char* BlockName = "NiPSysUpdateCtlr";
	const char* GetBlockName() override { return BlockName; }
};

class BSNiAlphaPropertyTestRefController
	: public NiCloneable<BSNiAlphaPropertyTestRefController, NiAlphaController> {
public:
	static constexpr const char* BlockName = "BSNiAlphaPropertyTestRefController";
	const char* GetBlockName() override { return BlockName; }
};

class NiKeyframeController : public NiCloneableStreamable<NiKeyframeController, NiSingleInterpController> {
public:
	NiBlockRef<NiKeyframeData> dataRef;

	static constexpr const char* BlockName = "NiKeyframeController";
	const char* GetBlockName() override { return BlockName; }

	void Sync(NiStreamReversible& stream);
	void GetChildRefs(std::set<NiRef*>& refs) override;
	void GetChildIndices(std::vector<uint32_t>& indices) override;
};

class NiTransformController : public NiCloneable<NiTransformController, NiKeyframeController> {
public:
	static constexpr const char* BlockName = "NiTransformController";
	const char* GetBlockName() override { return BlockName; }
};

class BSMaterialEmittanceMultController
	: public NiCloneable<BSMaterialEmittanceMultController, NiFloatInterpController> {
public:
	static constexpr const char* BlockName = "BSMaterialEmittanceMultController";
	const char* GetBlockName() override { return BlockName; }
};

class BSRefractionStrengthController
	: public NiCloneable<BSRefractionStrengthController, NiFloatInterpController> {
public:
	static constexpr const char* BlockName = "BSRefractionStrengthController";
	const char* GetBlockName() override { return BlockName; }
};

class BSLightingShaderPropertyColorController
	: public NiCloneableStreamable<BSLightingShaderPropertyColorController, NiFloatInterpController> {
public:
	uint32_t typeOfControlledColor = 0;

	static constexpr const char* BlockName = "BSLightingShaderPropertyColorController";
	const char* GetBlockName() override { return BlockName; }

	void Sync(NiStreamReversible& stream);
};

class BSLightingShaderPropertyFloatController
	: public NiCloneableStreamable<BSLightingShaderPropertyFloatController, NiFloatInterpController> {
public:
	uint32_t typeOfControlledVariable = 0;

	static constexpr const char* BlockName = "BSLightingShaderPropertyFloatController";
	const char* GetBlockName() override { return BlockName; }

	void Sync(NiStreamReversible& stream);
};

class BSLightingShaderPropertyUShortController
	: public NiCloneableStreamable<BSLightingShaderPropertyUShortController, NiFloatInterpController> {
public:
	uint32_t typeOfControlledVariable = 0;

	static constexpr const char* BlockName = "BSLightingShaderPropertyUShortController";
	const char* GetBlockName() override { return BlockName; }

	void Sync(NiStreamReversible& stream);
};

class BSEffectShaderPropertyColorController
	: public NiCloneableStreamable<BSEffectShaderPropertyColorController, NiFloatInterpController> {
public:
	uint32_t typeOfControlledColor = 0;

	static constexpr const char* BlockName = "BSEffectShaderPropertyColorController";
	const char* GetBlockName() override { return BlockName; }

	void Sync(NiStreamReversible& stream);
};

class BSEffectShaderPropertyFloatController
	: public NiCloneableStreamable<BSEffectShaderPropertyFloatController, NiFloatInterpController> {
public:
	uint32_t typeOfControlledVariable = 0;

	static constexpr const char* BlockName = "BSEffectShaderPropertyFloatController";
	const char* GetBlockName() override { return BlockName; }

	void Sync(NiStreamReversible& stream);
};

class NiAVObject;

class NiMultiTargetTransformController
	: public NiCloneableStreamable<NiMultiTargetTransformController, NiInterpController> {
public:
	NiBlockPtrShortArray<NiAVObject> targetRefs;

	static constexpr const char* BlockName = "NiMultiTargetTransformController";
	const char* GetBlockName() override { return BlockName; }

	void Sync(NiStreamReversible& stream);
	void GetPtrs(std::set<NiPtr*>& ptrs) override;
};

class NiPSysModifierCtlr : public NiCloneableStreamable<NiPSysModifierCtlr, NiSingleInterpController> {
public:
	NiStringRef modifierName;

	void Sync(NiStreamReversible& stream);
	void GetStringRefs(std::vector<NiStringRef*>& refs) override;
};

class NiPSysModifierBoolCtlr : public NiCloneable<NiPSysModifierBoolCtlr, NiPSysModifierCtlr> {};

class NiPSysModifierActiveCtlr : public NiCloneable<NiPSysModifierActiveCtlr, NiPSysModifierBoolCtlr> {
public:
	static constexpr const char* BlockName = "NiPSysModifierActiveCtlr";
	const char* GetBlockName() override { return BlockName; }
};

class NiPSysModifierFloatCtlr : public NiCloneable<NiPSysModifierFloatCtlr, NiPSysModifierCtlr> {};

class NiPSysEmitterLifeSpanCtlr : public NiCloneable<NiPSysEmitterLifeSpanCtlr, NiPSysModifierFloatCtlr> {
public:
	static constexpr const char* BlockName = "NiPSysEmitterLifeSpanCtlr";
	const char* GetBlockName() override { return BlockName; }
};

class NiPSysEmitterSpeedCtlr : public NiCloneable<NiPSysEmitterSpeedCtlr, NiPSysModifierFloatCtlr> {
public:
	static constexpr const char* BlockName = "NiPSysEmitterSpeedCtlr";
	const char* GetBlockName() override { return BlockName; }
};

class NiPSysEmitterInitialRadiusCtlr
	: public NiCloneable<NiPSysEmitterInitialRadiusCtlr, NiPSysModifierFloatCtlr> {
public:
	static constexpr const char* BlockName = "NiPSysEmitterInitialRadiusCtlr";
	const char* GetBlockName() override { return BlockName; }
};

class NiPSysEmitterDeclinationCtlr
	: public NiCloneable<NiPSysEmitterDeclinationCtlr, NiPSysModifierFloatCtlr> {
public:
	static constexpr const char* BlockName = "NiPSysEmitterDeclinationCtlr";
	const char* GetBlockName() override { return BlockName; }
};

class NiPSysGravityStrengthCtlr : public NiCloneable<NiPSysGravityStrengthCtlr, NiPSysModifierFloatCtlr> {
public:
	static constexpr const char* BlockName = "NiPSysGravityStrengthCtlr";
	const char* GetBlockName() override { return BlockName; }
};

class NiPSysEmitterDeclinationVarCtlr
	: public NiCloneable<NiPSysEmitterDeclinationVarCtlr, NiPSysModifierFloatCtlr> {
public:
	static constexpr const char* BlockName = "NiPSysEmitterDeclinationVarCtlr";
	const char* GetBlockName() override { return BlockName; }
};

class NiPSysFieldMagnitudeCtlr : public NiCloneable<NiPSysFieldMagnitudeCtlr, NiPSysModifierFloatCtlr> {
public:
	static constexpr const char* BlockName = "NiPSysFieldMagnitudeCtlr";
	const char* GetBlockName() override { return BlockName; }
};

class NiPSysFieldAttenuationCtlr : public NiCloneable<NiPSysFieldAttenuationCtlr, NiPSysModifierFloatCtlr> {
public:
	static constexpr const char* BlockName = "NiPSysFieldAttenuationCtlr";
	const char* GetBlockName() override { return BlockName; }
};

class NiPSysFieldMaxDistanceCtlr : public NiCloneable<NiPSysFieldMaxDistanceCtlr, NiPSysModifierFloatCtlr> {
public:
	static constexpr const char* BlockName = "NiPSysFieldMaxDistanceCtlr";
	const char* GetBlockName() override { return BlockName; }
};

class NiPSysAirFieldAirFrictionCtlr
	: public NiCloneable<NiPSysAirFieldAirFrictionCtlr, NiPSysModifierFloatCtlr> {
public:
	static constexpr const char* BlockName = "NiPSysAirFieldAirFrictionCtlr";
	const char* GetBlockName() override { return BlockName; }
};

class NiPSysAirFieldInheritVelocityCtlr
	: public NiCloneable<NiPSysAirFieldInheritVelocityCtlr, NiPSysModifierFloatCtlr> {
public:
	static constexpr const char* BlockName = "NiPSysAirFieldInheritVelocityCtlr";
	const char* GetBlockName() override { return BlockName; }
};

class NiPSysAirFieldSpreadCtlr : public NiCloneable<NiPSysAirFieldSpreadCtlr, NiPSysModifierFloatCtlr> {
public:
	static constexpr const char* BlockName = "NiPSysAirFieldSpreadCtlr";
	const char* GetBlockName() override { return BlockName; }
};

class NiPSysInitialRotSpeedCtlr : public NiCloneable<NiPSysInitialRotSpeedCtlr, NiPSysModifierFloatCtlr> {
public:
	static constexpr const char* BlockName = "NiPSysInitialRotSpeedCtlr";
	const char* GetBlockName() override { return BlockName; }
};

class NiPSysInitialRotSpeedVarCtlr
	: public NiCloneable<NiPSysInitialRotSpeedVarCtlr, NiPSysModifierFloatCtlr> {
public:
	static constexpr const char* BlockName = "NiPSysInitialRotSpeedVarCtlr";
	const char* GetBlockName() override { return BlockName; }
};

class NiPSysInitialRotAngleCtlr : public NiCloneable<NiPSysInitialRotAngleCtlr, NiPSysModifierFloatCtlr> {
public:
	static constexpr const char* BlockName = "NiPSysInitialRotAngleCtlr";
	const char* GetBlockName() override { return BlockName; }
};

class NiPSysInitialRotAngleVarCtlr
	: public NiCloneable<NiPSysInitialRotAngleVarCtlr, NiPSysModifierFloatCtlr> {
public:
	static constexpr const char* BlockName = "NiPSysInitialRotAngleVarCtlr";
	const char* GetBlockName() override { return BlockName; }
};

class NiPSysEmitterPlanarAngleCtlr
	: public NiCloneable<NiPSysEmitterPlanarAngleCtlr, NiPSysModifierFloatCtlr> {
public:
	static constexpr const char* BlockName = "NiPSysEmitterPlanarAngleCtlr";
	const char* GetBlockName() override { return BlockName; }
};

class NiPSysEmitterPlanarAngleVarCtlr
	: public NiCloneable<NiPSysEmitterPlanarAngleVarCtlr, NiPSysModifierFloatCtlr> {
public:
	static constexpr const char* BlockName = "NiPSysEmitterPlanarAngleVarCtlr";
	const char* GetBlockName() override { return BlockName; }
};

class NiPSysRotDampeningCtlr
	: public NiCloneable<NiPSysRotDampeningCtlr, NiPSysModifierFloatCtlr> {
public:
	static constexpr const char* BlockName = "NiPSysRotDampeningCtlr";
	const char* GetBlockName() override { return BlockName; }
};

class NiStringPalette : public NiCloneableStreamable<NiStringPalette, NiObject> {
public:
	NiString palette;
	uint32_t length = 0;

	static constexpr const char* BlockName = "NiStringPalette";
	const char* GetBlockName() override { return BlockName; }

	void Sync(NiStreamReversible& stream);
};

class ControllerLink {
public:
	NiString targetName;
	NiBlockRef<NiInterpolator> interpolatorRef;
	NiBlockRef<NiTimeController> controllerRef;

	NiBlockRef<NiBlendInterpolator> blendInterpolatorRef;
	uint16_t blendIndex = 0;

	uint8_t priority = 0;

	NiBlockRef<NiStringPalette> stringPaletteRef;
	uint32_t nodeNameOffset = 0;
	uint32_t propertyTypeOffset = 0;
	uint32_t controllerTypeOffset = 0;
	uint32_t controllerIDOffset = 0;
	uint32_t interpIDOffset = 0;

	NiStringRef nodeName;
	NiStringRef propType;
	NiStringRef ctrlType;
	NiStringRef ctrlID;
	NiStringRef interpID;

	void Sync(NiStreamReversible& stream) {
		if (stream.GetVersion().File() < V10_1_0_104)
			targetName.Sync(stream, 4);

		if (stream.GetVersion().File() >= V10_1_0_106)
			interpolatorRef.Sync(stream);

		if (stream.GetVersion().File() <= V20_5_0_0)
			controllerRef.Sync(stream);

		if (stream.GetVersion().File() >= V10_1_0_104 && stream.GetVersion().File() <= V10_1_0_110) {
			blendInterpolatorRef.Sync(stream);
			stream.Sync(blendIndex);
		}

		if (stream.GetVersion().File() >= V10_1_0_106 && stream.GetVersion().Stream() > 0)
			stream.Sync(priority);

		if ((stream.GetVersion().File() >= V10_1_0_104 && stream.GetVersion().File() < V10_1_0_114) ||
			(stream.GetVersion().File() >= V20_1_0_1)) {
			nodeName.Sync(stream);
			propType.Sync(stream);
			ctrlType.Sync(stream);
			ctrlID.Sync(stream);
			interpID.Sync(stream);
		}

		if (stream.GetVersion().File() >= V10_2_0_0 && stream.GetVersion().File() < V20_1_0_1) {
			stringPaletteRef.Sync(stream);
			stream.Sync(nodeNameOffset);
			stream.Sync(propertyTypeOffset);
			stream.Sync(controllerTypeOffset);
			stream.Sync(controllerIDOffset);
			stream.Sync(interpIDOffset);
		}
	}

	void GetStringRefs(std::vector<NiStringRef*>& refs) {
		refs.emplace_back(&nodeName);
		refs.emplace_back(&propType);
		refs.emplace_back(&ctrlType);
		refs.emplace_back(&ctrlID);
		refs.emplace_back(&interpID);
	}

	void GetChildRefs(std::set<NiRef*>& refs) {
		refs.insert(&interpolatorRef);
		refs.insert(&controllerRef);
		refs.insert(&blendInterpolatorRef);
		refs.insert(&stringPaletteRef);
	}

	void GetChildIndices(std::vector<uint32_t>& indices) {
		indices.push_back(interpolatorRef.index);
		indices.push_back(controllerRef.index);
		indices.push_back(blendInterpolatorRef.index);
		indices.push_back(stringPaletteRef.index);
	}
};

class NiSequence : public NiCloneableStreamable<NiSequence, NiObject> {
public:
	NiStringRef name;
	uint32_t arrayGrowBy = 0;

	NiSyncVector<ControllerLink> controlledBlocks;

	static constexpr const char* BlockName = "NiSequence";
	const char* GetBlockName() override { return BlockName; }

	void Sync(NiStreamReversible& stream);
	void GetStringRefs(std::vector<NiStringRef*>& refs) override;
	void GetChildRefs(std::set<NiRef*>& refs) override;
	void GetChildIndices(std::vector<uint32_t>& indices) override;
};

enum CycleType : uint32_t { CYCLE_LOOP, CYCLE_REVERSE, CYCLE_CLAMP };

class BSAnimNote : public NiCloneableStreamable<BSAnimNote, NiObject> {
public:
	enum AnimNoteType : uint32_t { ANT_INVALID, ANT_GRABIK, ANT_LOOKIK };

	AnimNoteType type = ANT_INVALID;
	float time = 0.0f;
	uint32_t arm = 0;
	float gain = 0.0f;
	uint32_t state = 0;

	static constexpr const char* BlockName = "BSAnimNote";
	const char* GetBlockName() override { return BlockName; }

	void Sync(NiStreamReversible& stream);
};

class BSAnimNotes : public NiCloneableStreamable<BSAnimNotes, NiObject> {
public:
	NiBlockRefShortArray<BSAnimNote> animNoteRefs;

	static constexpr const char* BlockName = "BSAnimNotes";
	const char* GetBlockName() override { return BlockName; }

	void Sync(NiStreamReversible& stream);
	void GetChildRefs(std::set<NiRef*>& refs) override;
	void GetChildIndices(std::vector<uint32_t>& indices) override;
};

class NiControllerManager;

class NiControllerSequence : public NiCloneableStreamable<NiControllerSequence, NiSequence> {
public:
	float weight = 1.0f;
	NiBlockRef<NiTextKeyExtraData> textKeyRef;
	CycleType cycleType = CYCLE_LOOP;
	float frequency = 0.0f;
	float phase = 0.0f;
	float startTime = 0.0f;
	float stopTime = 0.0f;
	bool playBackwards = false;
	NiBlockPtr<NiControllerManager> managerRef;
	NiStringRef accumRootName;

	NiBlockRef<NiStringPalette> stringPaletteRef;

	NiBlockRef<BSAnimNotes> animNotesRef;
	NiBlockRefShortArray<BSAnimNotes> animNotesRefs;

	static constexpr const char* BlockName = "NiControllerSequence";
	const char* GetBlockName() override { return BlockName; }

	void Sync(NiStreamReversible& stream);
	void GetStringRefs(std::vector<NiStringRef*>& refs) override;
	void GetChildRefs(std::set<NiRef*>& refs) override;
	void GetChildIndices(std::vector<uint32_t>& indices) override;
	void GetPtrs(std::set<NiPtr*>& ptrs) override;
};

class NiDefaultAVObjectPalette;

class NiControllerManager : public NiCloneableStreamable<NiControllerManager, NiTimeController> {
public:
	bool cumulative = false;
	NiBlockRefArray<NiControllerSequence> controllerSequenceRefs;
	NiBlockRef<NiDefaultAVObjectPalette> objectPaletteRef;

	static constexpr const char* BlockName = "NiControllerManager";
	const char* GetBlockName() override { return BlockName; }

	void Sync(NiStreamReversible& stream);
	void GetChildRefs(std::set<NiRef*>& refs) override;
	void GetChildIndices(std::vector<uint32_t>& indices) override;
};
} // namespace nifly
