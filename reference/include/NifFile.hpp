/*
nifly
C++ NIF library for the Gamebryo/NetImmerse File Format
See the included GPLv3 LICENSE file
*/

#pragma once

#include "Factory.hpp"
#include "Geometry.hpp"
#include "Nodes.hpp"

#if __has_include(<filesystem>)

#include <filesystem>

#elif __has_include(<experimental/optional>)

#include <experimental/filesystem>
namespace std::filesystem {
	using namespace std::experimental::filesystem;
}

#endif

namespace nifly {
// OptimizeFor function options
struct OptOptions {
	NiVersion targetVersion;	// NiVersion target for the optimization process
	bool headParts = false;		// Use mesh formats required for head parts (use ONLY for head parts!)
	bool removeParallax = true; // Remove parallax shader flags and texture paths
	bool calcBounds = true;		// Recalculate bounding spheres for unskinned meshes
	bool fixBSXFlags = true;	// Fix BSX flag values based on file contents
	bool fixShaderFlags = true;	// Fix shader flag values based on file contents
};

// OptimizeFor function result
struct OptResult {
	bool versionMismatch = false; // Indicates if versions are unsupported for the optimization process
	bool dupesRenamed = false;	  // Indicates if there were duplicate shape names that have been renamed
	std::vector<std::string> shapesVColorsRemoved;	 // Names of shapes that had their vertex colors removed
	std::vector<std::string> shapesNormalsRemoved;	 // Names of shapes that had their normals removed
	std::vector<std::string> shapesPartTriangulated; // Names of shapes that had their partitions triangulated
	std::vector<std::string> shapesTangentsAdded; // Names of shapes that received missing tangents/bitangents
	std::vector<std::string> shapesParallaxRemoved; // Names of shapes that had their parallax settings
};

// Sort function for bone weights with indices
struct BoneWeightsSort {
	bool operator()(const SkinWeight& lhs, const SkinWeight& rhs) { return rhs.weight < lhs.weight; }
};

// NifFile load options
struct NifLoadOptions {
	bool isTerrain = false; // Load as terrain file. Affects texture path cleanup and shape names.
};

// NifFile save options
struct NifSaveOptions {
	bool optimize = true;	// Update bounds and delete unreferenced blocks (see NifFile::Optimize)
	bool sortBlocks = true; // Sorts all blocks in a logical order (see NifFile::PrettySortBlocks)
};

class NifFile {
private:
	NiHeader hdr;
	std::vector<std::unique_ptr<NiObject>> blocks;
	bool isValid = false;
	bool hasUnknown = false;
	bool isTerrain = false;

public:
	NifFile() = default;

	NifFile(const std::filesystem::path& fileName, const NifLoadOptions& options = NifLoadOptions()) {
		Load(fileName, options);
	}

	NifFile(std::istream& file, const NifLoadOptions& options = NifLoadOptions()) { Load(file, options); }

	NifFile(const NifFile& other) { CopyFrom(other); }

	NifFile& operator=(const NifFile& other) {
		CopyFrom(other);
		return *this;
	}

	NiHeader& GetHeader() { return hdr; }
	const NiHeader& GetHeader() const { return hdr; }
	void CopyFrom(const NifFile& other);

	int Load(const std::filesystem::path& fileName, const NifLoadOptions& options = NifLoadOptions());
	int Load(std::istream& file, const NifLoadOptions& options = NifLoadOptions());
	int Save(const std::filesystem::path& fileName, const NifSaveOptions& options = NifSaveOptions());
	int Save(std::ostream& file, const NifSaveOptions& options = NifSaveOptions());

	// Update geometry bounds and delete unreferenced blocks
	void Optimize();

	// Optimizes/converts the file using OptOptions and returns OptResult.
	// For use with LE and SE files only.
	OptResult OptimizeFor(OptOptions& options);

	// Fills string refs, links NiGeometryData pointers, cleans up texture paths and removes invalid triangles.
	// For skinned BSTriShape blocks, copies mesh data from skin partitions to shape.
	// Already automatically called by NifFile::Load.
	void PrepareData();

	// Calculates data sizes required for saving.
	// For skinned BSTriShape blocks, copies mesh data back from shape to skin partitions
	// Already automatically called by NifFile::Save.
	void FinalizeData();

	// Indicates that the file was fully loaded or otherwise initialized
	bool IsValid() const { return isValid; }

	// Indicates if there have been any unknown block types during load
	bool HasUnknown() const { return hasUnknown; }

	// Indicates if the file was loaded as terrain
	bool IsTerrain() const { return isTerrain; }

	// Check if all shapes are compatible with SSE (no strips in geometry or skin partition)
	bool IsSSECompatible() const;

	// Check if the shape is compatible with SSE (no strips in geometry or skin partition)
	bool IsSSECompatible(NiShape* shape) const;

	// Creates a new file with a root NiNode using the specified version.
	void Create(const NiVersion& version);

	// Deletes all blocks, header strings and resets the valid status.
	void Clear();

	// Link NiGeometryData pointer to NiGeometry.
	// Doesn't affect BSTriShape blocks.
	void LinkGeomData();

	// Removes triangles with vertex indices that don't exist
	void RemoveInvalidTris() const;

	// Returns vertex limit depending on the file version
	// All versions: 65535 (uint16_t)
	static size_t GetVertexLimit();

	// Returns triangle limit depending on the file version
	// All versions before FO4: 65535      (uint16_t)
	// FO4 and later:           4294967295 (uint32_t)
	size_t GetTriangleLimit() const;

	NiNode* AddNode(const std::string& nodeName, const MatTransform& xformToParent, NiNode* parent = nullptr);
	void DeleteNode(const std::string& nodeName);
	static bool CanDeleteNode(NiNode* node);
	bool CanDeleteNode(const std::string& nodeName) const;
	std::string GetNodeName(const uint32_t blockID) const;
	void SetNodeName(const uint32_t blockID, const std::string& newName);

	uint32_t AssignExtraData(NiAVObject* target, std::unique_ptr<NiExtraData> extraData);

	// Explicitly sets the order of shapes to a new one.
	void SetShapeOrder(const std::vector<std::string>& order);

	struct SortState {
		std::set<uint32_t> visitedIndices;
		std::set<uint32_t> activeIndices; // collision blocks currently being sorted (cycle guard)
		std::vector<uint32_t> newIndices;
		uint32_t newIndex = 0;
		std::vector<uint32_t> rootShapeOrder;
	};

	void SetSortIndices(const NiRef& ref, SortState& sortState);
	void SetSortIndices(const NiRef* ref, SortState& sortState);
	void SetSortIndices(uint32_t refIndex, SortState& sortState);

	// Sorts NiObjectNET children
	void SortNiObjectNET(NiObjectNET* objnet, SortState& sortState);

	// Sorts NiAVObject children
	void SortAVObject(NiAVObject* avobj, SortState& sortState);

	// Sorts NiTimeController children
	void SortController(NiTimeController* controller, SortState& sortState);

	// Sorts NiCollisionObject children
	void SortCollision(NiObject* parent, uint32_t parentIndex, SortState& sortState);

	// Sorts NiShape children
	void SortShape(NiShape* shape, SortState& sortState);

	// Sorts a scene graph (starting at NiNode parent)
	void SortGraph(NiNode* root, SortState& sortState);

	// Sorts all blocks in a logical order.
	// Order is based on child references, block types and version.
	void PrettySortBlocks();

	// Fixes the flag values in "BSXFlags" blocks based on file contents.
	void FixBSXFlags();

	// Fixes the flag values in shader blocks based on file contents.
	void FixShaderFlags();

	// Deletes all unreferenced (loose) blocks of the given type.
	// Use default template type "NiObject" for all block types.
	// Does nothing when there are unknown block types to prevent data loss.
	// Returns the amount of deleted blocks (or 0).
	template<class T = NiObject>
	uint32_t DeleteUnreferencedBlocks() {
		if (hasUnknown)
			return 0;

		uint32_t deletionCount = 0;
		hdr.DeleteUnreferencedBlocks<T>(GetBlockID(GetRootNode()), &deletionCount);
		return deletionCount;
	}

	// Deletes all unreferenced (loose) NiNode blocks.
	// Does nothing when there are unknown block types to prevent data loss.
	// Counts the amount of deleted blocks in "deletionCount" if passed.
	bool DeleteUnreferencedNodes(int* deletionCount = nullptr);

	// Find a block of the given type by its name.
	// Block type needs a "name" member (like blocks based on NiObjectNET).
	// Returns block in the correct type or nullptr.
	template<class T = NiObject>
	T* FindBlockByName(const std::string& name) const {
		for (auto& block : blocks) {
			auto namedBlock = dynamic_cast<T*>(block.get());
			if (namedBlock && namedBlock->name == name)
				return namedBlock;
		}

		return nullptr;
	}

	// Returns index of a block in the blocks array or NIF_NPOS
	uint32_t GetBlockID(NiObject* block) const;

	// Returns first direct parent NiNode of a block (or nullptr)
	NiNode* GetParentNode(NiObject* block) const;

	// Moves block from its current parent NiNode to a new parent
	void SetParentNode(NiObject* block, NiNode* parent);

	// Returns all NiNode blocks
	std::vector<NiNode*> GetNodes() const;

	// Returns NiShader pointer of the shape (or nullptr).
	// The underlying shader block type can differ.
	NiShader* GetShader(NiShape* shape) const;

	// Returns NiMaterialProperty pointer of the shape (or nullptr).
	// Used by OB/FO3/NV.
	NiMaterialProperty* GetMaterialProperty(NiShape* shape) const;

	// Returns NiStencilProperty pointer of the shape (or nullptr)
	// Used by OB/FO3/NV.
	NiStencilProperty* GetStencilProperty(NiShape* shape) const;

	// Returns NiTexturingProperty pointer of the shape (or nullptr)
	// Used by OB.
	NiTexturingProperty* GetTexturingProperty(NiShape* shape) const;

	// Returns a mutable gometry data structure for manipulating geometry data. If
	// geometry data cannot be found, nullptr is returned
	NiGeometryData* GetGeometryData(NiShape* shape) const;

	// Returns a list of mesh names useful for locating external mesh data eg data/geometry/<meshname>
	std::vector<std::reference_wrapper<std::string>> GetExternalGeometryPathRefs(NiShape* shape) const;

	// Loads external shape data from the provided istream, storing data in the provided shape
	bool LoadExternalShapeData(NiShape* shape, std::istream& stream, uint8_t shapeIndex);
	// Saves external shape data from the provided shape, storing data in the provided ostream
	bool SaveExternalShapeData(NiShape* shape, std::ostream& outfile, uint8_t shapeIndex);

	// Returns references to all texture path strings of the shape
	std::vector<std::reference_wrapper<std::string>> GetTexturePathRefs(NiShape* shape) const;

	// Fills "outTexFile" with the texture path in the specified slot.
	// Returns:
	// 0 if the texture slot was not found
	// 1 if the texture is found in a BSShaderTextureSet block
	// 2 if the texture is found in a BSEffectShaderProperty block
	// 3 if the texture is found in a NiTexturingProperty block
	uint32_t GetTextureSlot(NiShape* shape, std::string& outTexFile, uint32_t texIndex = 0) const;

	// Sets texture path in the specified slot.
	// Will fill path in both BSShaderTextureSet, BSEffectShaderProperty or NiTexturingProperty blocks.
	void SetTextureSlot(NiShape* shape, std::string& inTexFile, uint32_t texIndex = 0);

	// Normalizes all texture paths in BSShaderTextureSet, BSEffectShaderProperty and NiTexturingProperty blocks
	void TrimTexturePaths();

	// Clones all referenced blocks in the specified block.
	// Source block can be located in a different file (see "srcNif" parameter).
	void CloneChildren(NiObject* block, NifFile* srcNif = nullptr);

	// Clones the specified shape with a destination name and returns it.
	// Source block can be located in a different file (see "srcNif" parameter).
	NiShape* CloneShape(NiShape* srcShape, const std::string& destShapeName, NifFile* srcNif = nullptr);

	// Finds and clones the first NiNode with the specified name and returns its index (or NIF_NPOS).
	// Source block can be located in a different file (see "srcNif" parameter).
	uint32_t CloneNamedNode(const std::string& nodeName, NifFile* srcNif = nullptr);

	// Creates a new unskinned shape for the current file version with vertex/triangle data and returns it.
	// Adds default shader and texture set as well.
	// Parameters for texture coordinates (UVs) and normals are optional (pass nullptr).
	NiShape* CreateShapeFromData(const std::string& shapeName,
								 const std::vector<Vector3>* v,
								 const std::vector<Triangle>* t,
								 const std::vector<Vector2>* uv,
								 const std::vector<Vector3>* norms = nullptr);

	// Returns the names of all shape blocks in the file. Includes duplicates and unnamed shapes.
	std::vector<std::string> GetShapeNames() const;

	// Returns all shape blocks in the file.
	std::vector<NiShape*> GetShapes() const;

	// Renames a shape (same as setting the "name" member)
	static bool RenameShape(NiShape* shape, const std::string& newName);

	// Renames shapes with duplicate names by appending a suffix "_<count>"
	bool RenameDuplicateShapes();

	// Converts the shape from a NiTriStrips to a NiTriShape block
	void TriangulateShape(NiShape* shape);

	// Get direct children of a node of the given block type. Use template type "NiObject" for all block types.
	// Optionally, return extra data references as well.
	template<class T>
	std::vector<T*> GetChildren(NiNode* parent = nullptr, bool searchExtraData = false) const;

	// Returns the root NiNode (block at index 0).
	// If block index 0 is not a NiNode, find the first NiNode instead.
	NiNode* GetRootNode() const;

	// Returns a full block tree in a logical order (recursive function)
	void GetTree(std::vector<NiObject*>& result, NiObject* parent = nullptr) const;

	// Gets the transform (to parent) of the node with the specified name.
	// Returns false if no node matching the name was found.
	bool GetNodeTransformToParent(const std::string& nodeName, MatTransform& outTransform) const;

	// GetNodeTransform is deprecated. Use GetNodeTransformToParent instead.
	bool GetNodeTransform(const std::string& nodeName, MatTransform& outTransform) const {
		return GetNodeTransformToParent(nodeName, outTransform);
	}

	// Calculates the transform from the node's coordinate system to the global coordinate system
	// by composing transforms up the node tree to the root node.
	bool GetNodeTransformToGlobal(const std::string& nodeName, MatTransform& outTransform) const;

	// GetAbsoluteNodeTransform is deprecated. Use GetNodeTransformToGlobal instead.
	bool GetAbsoluteNodeTransform(const std::string& nodeName, MatTransform& outTransform) const {
		return GetNodeTransformToGlobal(nodeName, outTransform);
	}

	// Sets the transform (to parent) of the node with the specified name.
	// With "rootChildrenOnly" enabled, only set the transform of nodes that are direct root children.
	bool SetNodeTransformToParent(const std::string& nodeName,
								  const MatTransform& inTransform,
								  const bool rootChildrenOnly = false);

	// SetNodeTransform is deprecated. Use SetNodeTransformToParent instead.
	bool SetNodeTransform(const std::string& nodeName,
						  MatTransform& inTransform,
						  const bool rootChildrenOnly = false) {
		return SetNodeTransformToParent(nodeName, inTransform, rootChildrenOnly);
	}

	// Gets a list of all bone (node) names used by the shape and returns the count.
	uint32_t GetShapeBoneList(NiShape* shape, std::vector<std::string>& outList) const;

	// Gets a list of all bone (node) block indices used by the shape and returns the count.
	uint32_t GetShapeBoneIDList(NiShape* shape, std::vector<int>& outList) const;

	// Sets the bone index list of the shape's skin instance (and BSSkin::BoneData).
	// Resets bone transforms in BSSkin::BoneData if the bone count changed.
	void SetShapeBoneIDList(NiShape* shape, std::vector<int>& inList);

	// Gets a map of vertex indices to bone weights for the specified shape and bone.
	// Data source is either BSTriShape (if existing) or otherwise NiSkinData.
	// Returns the amount of vertices with non-zero weights.
	uint32_t GetShapeBoneWeights(NiShape* shape,
								 const uint32_t boneIndex,
								 std::unordered_map<uint16_t, float>& outWeights) const;

	// Gets the shape's global-to-skin transform if it has one stored (same as GetShapeTransformGlobalToSkin).
	// Otherwise, try to calculate it using skin-to-bone and node-to-global transforms of existing bones.
	// Returns false if no transform was found or calculated.
	bool CalcShapeTransformGlobalToSkin(NiShape* shape, MatTransform& outTransforms) const;

	// Gets the shape's global-to-skin transform if it has one stored.
	// Returns false if no such transform exists in the file, in which case outTransform will not be changed.
	// Note that, even if this function returns false, you can not assume that the global-to-skin
	// transform is the identity; it almost never is.
	bool GetShapeTransformGlobalToSkin(NiShape* shape, MatTransform& outTransform) const;

	// Sets the shape's global-to-skin transform if it has one stored.
	// Does nothing if the shape has no such transform.
	void SetShapeTransformGlobalToSkin(NiShape* shape, const MatTransform& inTransform);

	// Gets the bone transform (skin-to-bone) of a bone with the specified name.
	// Returns false if bone was not found.
	bool GetShapeTransformSkinToBone(NiShape* shape,
									 const std::string& boneName,
									 MatTransform& outTransform) const;

	// Gets the bone transform (skin-to-bone) of a bone with the specified bone index.
	// Returns false if bone was not found.
	bool GetShapeTransformSkinToBone(NiShape* shape,
									 const uint32_t boneIndex,
									 MatTransform& outTransform) const;

	// Sets the bone transform (skin-to-bone) of a bone with the specified bone index.
	void SetShapeTransformSkinToBone(NiShape* shape,
									 const uint32_t boneIndex,
									 const MatTransform& inTransform);

	// GetShapeBoneTransform is deprecated. Use GetShapeTransformGlobalToSkin or GetShapeTransformSkinToBone instead.
	// Empty string for "boneName" returns the overall skin transform for the shape.
	bool GetShapeBoneTransform(NiShape* shape, const std::string& boneName, MatTransform& outTransform) const;

	// GetShapeBoneTransform is deprecated. Use GetShapeTransformGlobalToSkin or GetShapeTransformSkinToBone instead.
	// 0xFFFFFFFF on the bone index returns the overall skin transform for the shape.
	bool GetShapeBoneTransform(NiShape* shape, const uint32_t boneIndex, MatTransform& outTransform) const;

	// SetShapeBoneTransform is deprecated. Use SetShapeTransformGlobalToSkin or SetShapeTransfromSkinToBone instead.
	// 0xFFFFFFFF for the bone index sets the overall skin transform for the shape.
	bool SetShapeBoneTransform(NiShape* shape, const uint32_t boneIndex, MatTransform& inTransform);

	// Sets bounding sphere for the specified bone index on the shape with the name.
	// Returns false if shape or bone was not found.
	bool SetShapeBoneBounds(const std::string& shapeName, const uint32_t boneIndex, BoundingSphere& inBounds);

	// Gets bounding sphere for the specified bone index on the shape.
	// Returns false if shape or bone was not found.
	bool GetShapeBoneBounds(NiShape* shape, const uint32_t boneIndex, BoundingSphere& outBounds) const;

	// Changes a bone index (node reference) from an old to a new index.
	void UpdateShapeBoneID(const std::string& shapeName, const uint32_t oldID, const uint32_t newID);

	// Sets the bone weights on NiSkinData from the specified vertex weight map.
	// Not implemented for BSTriShape, use SetShapeVertWeights instead.
	void SetShapeBoneWeights(const std::string& shapeName,
							 const uint32_t boneIndex,
							 std::unordered_map<uint16_t, float>& inWeights);

	// Sets the bone weights and bone indices for a single vertex on the shape
	// Not implemented for NiTriShape, use SetShapeBoneWeights instead.
	void SetShapeVertWeights(const std::string& shapeName,
							 const uint16_t vertIndex,
							 std::vector<uint8_t>& boneids,
							 std::vector<float>& weights) const;

	// Clears all bone weights and bone indices on the shape. Not implemented for NiTriShape.
	void ClearShapeVertWeights(const std::string& shapeName) const;

	// Gets the segmentation info and a list of the segments each triangle is assigned to.
	// A triangle can only be assigned to one segment at the same time.
	// A segment index of -1 in the list means the triangle is currently not assigned to any segment.
	static bool GetShapeSegments(NiShape* shape, NifSegmentationInfo& inf, std::vector<int>& triParts);

	// Sets the segmentation info and a list of the segments each triangle is assigned to.
	// A triangle can only be assigned to one segment at the same time.
	static void SetShapeSegments(NiShape* shape,
								 const NifSegmentationInfo& inf,
								 const std::vector<int>& triParts);

	// Gets the partition info and a list of the partitions each triangle is assigned to.
	// A triangle can only be assigned to one partition at the same time.
	// A partition index of -1 in the list means the triangle is currently not assigned to any partition.
	bool GetShapePartitions(NiShape* shape,
							NiVector<BSDismemberSkinInstance::PartitionInfo>& partitionInfo,
							std::vector<int>& triParts) const;

	// Sets the partition info and a list of the partitions each triangle is assigned to.
	// A triangle can only be assigned to one partition at the same time.
	// "convertSkinInstance" will convert a NiSkinInstance to a BSDismemberSkinInstance block.
	void SetShapePartitions(NiShape* shape,
							const NiVector<BSDismemberSkinInstance::PartitionInfo>& partitionInfo,
							const std::vector<int>& triParts,
							const bool convertSkinInstance = true);

	// Clears all partitions and assigns all triangles to a default partition slot.
	// Default slot 32 for Skyrim (body) and slot 0 for FO3/NV (torso).
	void SetDefaultPartition(NiShape* shape);

	// Delete partitions with the specified indices. partInds must be in sorted ascending order before calling!
	void DeletePartitions(NiShape* shape, std::vector<uint32_t>& partInds);

	// Reorder triangles of the shape to the order of triangle indices in the list
	static bool ReorderTriangles(NiShape* shape, const std::vector<uint32_t>& triangleIndices);

	// Gets pointer to vertex positions of the shape (can be nullptr or empty)
	const std::vector<Vector3>* GetVertsForShape(NiShape* shape);
	// Gets pointer to vertex normals of the shape (can be nullptr or empty)
	const std::vector<Vector3>* GetNormalsForShape(NiShape* shape);
	// Gets pointer to vertex texture coordinates (UVs) of the shape (can be nullptr or empty)
	const std::vector<Vector2>* GetUvsForShape(NiShape* shape);
	// Gets pointer to vertex colors of the shape (can be nullptr or empty)
	const std::vector<Color4>* GetColorsForShape(const std::string& shapeName);
	const std::vector<Color4>* GetColorsForShape(NiShape* shape);
	// Gets pointer to vertex tangents of the shape (can be nullptr or empty)
	const std::vector<Vector3>* GetTangentsForShape(NiShape* shape);
	// Gets pointer to vertex bitangents of the shape (can be nullptr or empty)
	const std::vector<Vector3>* GetBitangentsForShape(NiShape* shape);
	// Gets pointer to vertex eye data of the shape (can be nullptr or empty)
	const std::vector<float>* GetEyeDataForShape(NiShape* shape);

	// Gets copy of vertex positions of the shape. Returns false if none are found.
	bool GetVertsForShape(NiShape* shape, std::vector<Vector3>& outVerts) const;
	// Gets copy of vertex texture coordinates (UVs) of the shape. Returns false if none are found.
	bool GetUvsForShape(NiShape* shape, std::vector<Vector2>& outUvs) const;
	// Gets copy of vertex colors of the shape. Returns false if none are found.
	bool GetColorsForShape(NiShape* shape, std::vector<Color4>& outColors) const;
	// Gets copy of vertex tangents of the shape. Returns false if none are found.
	bool GetTangentsForShape(NiShape* shape, std::vector<Vector3>& outTang) const;
	// Gets copy of vertex bitangents of the shape. Returns false if none are found.
	bool GetBitangentsForShape(NiShape* shape, std::vector<Vector3>& outBitang) const;
	// Gets copy of vertex eye data of the shape. Returns false if none is found.
	static bool GetEyeDataForShape(NiShape* shape, std::vector<float>& outEyeData);

	// Sets vertex positions of the shape. Use this function to change vertex count.
	// If vertex count is changed, other vertex data (UVs, normals, ...) is dropped.
	void SetVertsForShape(NiShape* shape, const std::vector<Vector3>& verts);
	// Sets vertex texture coordinates (UVs) of the shape. Size needs to match the current vertex count.
	void SetUvsForShape(NiShape* shape, const std::vector<Vector2>& uvs);
	// Sets vertex colors of the shape. Size needs to match the current vertex count.
	void SetColorsForShape(NiShape* shape, const std::vector<Color4>& colors);
	// Sets vertex colors of the shape. Size needs to match the current vertex count.
	void SetColorsForShape(const std::string& shapeName, const std::vector<Color4>& colors);
	// Sets vertex tangents of the shape. Size needs to match the current vertex count.
	void SetTangentsForShape(NiShape* shape, const std::vector<Vector3>& tangents);
	// Sets vertex bitangents of the shape. Size needs to match the current vertex count.
	void SetBitangentsForShape(NiShape* shape, const std::vector<Vector3>& bitangents);
	// Sets vertex eye data of the shape. Size needs to match the current vertex count.
	static void SetEyeDataForShape(NiShape* shape, const std::vector<float>& eyeData);

	// Gets binary extra data that contains tangent and bitangent data (used in OB).
	// Returns nullptr if no matching extra data was found.
	NiBinaryExtraData* GetBinaryTangentData(NiShape* shape,
											std::vector<nifly::Vector3>* outTangents = nullptr,
											std::vector<nifly::Vector3>* outBitangents = nullptr) const;

	// Sets binary extra data that contains tangent and bitangent data (used in OB).
	void SetBinaryTangentData(NiShape* shape,
							  const std::vector<nifly::Vector3>* tangents,
							  const std::vector<nifly::Vector3>* bitangents);

	// Deletes binary extra data that contains tangent and bitangent data (used in OB).
	void DeleteBinaryTangentData(NiShape* shape);

	// Inverts all texture coordinates on the U- and/or V-axis
	void InvertUVsForShape(NiShape* shape, bool invertX, bool invertY);

	// Mirrors the shape on the X-, Y- and/or Z-axis.
	// Updates normals and tangents as well. Flips triangles if needed.
	void MirrorShape(NiShape* shape, bool mirrorX, bool mirrorY, bool mirrorZ);

	// Sets vertex normals of the shape. Size needs to match the current vertex count.
	void SetNormalsForShape(NiShape* shape, const std::vector<Vector3>& norms);

	// Recalculates (or adds) new normals for the shape.
	// "smooth" and "smoothThresh" affect normals smoothing on virtually welded mesh/UV seams.
	// "force" creates normals for Skyrim model space mapped meshes, which are usually not required.
	void CalcNormalsForShape(NiShape* shape,
							 const bool force = false,
							 const bool smooth = true,
							 const float smoothThresh = 60.0f);

	// Recalculates (or adds) new tangents and bitangents for the shape.
	// Requires normals and UVs to be set beforehand.
	void CalcTangentsForShape(NiShape* shape);

	// Apply normals from a different file to a shape with the same name and vertex count.
	int ApplyNormalsFromFile(NifFile& srcNif, const std::string& shapeName);

	// Gets the translation of the root node (or zero vector)
	void GetRootTranslation(Vector3& outVec) const;

	// Moves a single vertex to the specified position
	void MoveVertex(NiShape* shape, const Vector3& pos, const int id);

	// Moves the entire shape by the specified offset. Respects the specified masking map.
	void OffsetShape(NiShape* shape,
					 const Vector3& offset,
					 std::unordered_map<uint16_t, float>* mask = nullptr);

	// Scales the entire shape from the scene root by the specified factors. Respects the specified masking map.
	void ScaleShape(NiShape* shape, const Vector3& scale, std::unordered_map<uint16_t, float>* mask = nullptr);

	// Rotates the entire shape from the scene root by the specified angles in degrees. Respects the specified masking map.
	void RotateShape(NiShape* shape,
					 const Vector3& angle,
					 std::unordered_map<uint16_t, float>* mask = nullptr);

	// Returns alpha property of the shape (or nullptr)
	NiAlphaProperty* GetAlphaProperty(NiShape* shape) const;

	// Assigns a new alpha property block to the shape/shader.
	// Removes any existing ones. Pointer is moved to the file.
	uint32_t AssignAlphaProperty(NiShape* shape, std::unique_ptr<NiAlphaProperty> alphaProp);

	// Removes any existing alpha properties for the shape/shader.
	void RemoveAlphaProperty(NiShape* shape);

	// Deletes a shape and its child blocks
	void DeleteShape(NiShape* shape);

	// Deletes the shader of a shape and its child blocks
	void DeleteShader(NiShape* shape);

	// Deletes all skinning blocks of a shape and disables skinning
	void DeleteSkinning(NiShape* shape);

	// Removes any partitions without triangles assigned
	void RemoveEmptyPartitions(NiShape* shape);

	// Deletes the specified vertex indices from the shape and notifies all blocks.
	// Skinning and partitions/segments are corrected accordingly.
	bool DeleteVertsForShape(NiShape* shape, const std::vector<uint16_t>& indices);

	// Calculates the difference between the shape's vertex positions and the specified target data (with a scale).
	// Vertices that match up are not returned in the diff data map.
	int CalcShapeDiff(NiShape* shape,
					  const std::vector<Vector3>* targetData,
					  std::unordered_map<uint16_t, Vector3>& outDiffData,
					  float scale = 1.0f);

	// Calculates the difference between the shape's texture coordinates and the specified target data (with a scale).
	// Texture coordinates that match up are not returned in the diff data map.
	int CalcUVDiff(NiShape* shape,
				   const std::vector<Vector2>* targetData,
				   std::unordered_map<uint16_t, Vector3>& outDiffData,
				   float scale = 1.0f);

	// Create all blocks and flags required for skinning, if they don't already exist
	// Blocks: BSDismemberSkinInstance, NiSkinData, NiSkinPartition, BSSkin::Instance, BSSkin::BoneData
	void CreateSkinning(NiShape* shape);

	// Makes NiTriShapeData dynamic by setting the consistency flag to mutable.
	void SetShapeDynamic(const std::string& shapeName);

	// Maintains the number of and makeup of skin partitions where possible,
	// but updates the weighting values and vertex/triangle maps.
	// If required by limits, inserts additional partitions with matching slots.
	void UpdateSkinPartitions(NiShape* shape);

	// Update bone set partition flags. Called automatically in some functions that edit partitions.
	void UpdatePartitionFlags(NiShape* shape);
};

template<class T>
std::vector<T*> NifFile::GetChildren(NiNode* parent, bool searchExtraData) const {
	std::vector<T*> result;
	T* n;

	if (parent == nullptr) {
		parent = GetRootNode();
		if (parent == nullptr)
			return result;
	}

	for (auto& child : parent->childRefs) {
		n = hdr.GetBlock<T>(child);
		if (n)
			result.push_back(n);
	}

	if (searchExtraData) {
		for (auto& extraData : parent->extraDataRefs) {
			n = hdr.GetBlock<T>(extraData);
			if (n)
				result.push_back(n);
		}
	}

	return result;
}
} // namespace nifly
