/*
nifly
C++ NIF library for the Gamebryo/NetImmerse File Format
See the included GPLv3 LICENSE file
*/

#include "Objects.hpp"
#include "Geometry.hpp"

using namespace nifly;

void NiObjectNET::Sync(NiStreamReversible& stream) {
	if (bBSLightingShaderProperty && stream.GetVersion().User() >= 12 && stream.GetVersion().Stream() <= 139)
		stream.Sync(bslspShaderType);

	name.Sync(stream);

	extraDataRefs.Sync(stream);
	controllerRef.Sync(stream);
}

void NiObjectNET::GetStringRefs(std::vector<NiStringRef*>& refs) {
	NiObject::GetStringRefs(refs);

	refs.emplace_back(&name);
}

void NiObjectNET::GetChildRefs(std::set<NiRef*>& refs) {
	NiObject::GetChildRefs(refs);

	extraDataRefs.GetIndexPtrs(refs);
	refs.insert(&controllerRef);
}

void NiObjectNET::GetChildIndices(std::vector<uint32_t>& indices) {
	NiObject::GetChildIndices(indices);

	extraDataRefs.GetIndices(indices);
	indices.push_back(controllerRef.index);
}


void NiAVObject::Sync(NiStreamReversible& stream) {
	if (HasType<BSTriShape>()) {
		// The order of definition for BSTriShape deviates slightly from previous versions.
		// NiObjectNET -> NiAVObject (duplicated in BSTriShape) -> BSTriShape
		return;
	}

	if (stream.GetVersion().Stream() <= 26) {
		auto flagsShort = static_cast<uint16_t>(flags);
		stream.Sync(flagsShort);

		if (stream.GetMode() == NiStreamReversible::Mode::Reading)
			flags = flagsShort;
	}
	else
		stream.Sync(flags);

	stream.Sync(transform.translation);
	stream.Sync(transform.rotation);
	stream.Sync(transform.scale);

	if (stream.GetVersion().Stream() <= 34)
		propertyRefs.Sync(stream);

	if (stream.GetVersion().File() >= V10_0_1_0)
		collisionRef.Sync(stream);
}

void NiAVObject::GetChildRefs(std::set<NiRef*>& refs) {
	NiObjectNET::GetChildRefs(refs);

	propertyRefs.GetIndexPtrs(refs);
	refs.insert(&collisionRef);
}

void NiAVObject::GetChildIndices(std::vector<uint32_t>& indices) {
	NiObjectNET::GetChildIndices(indices);

	propertyRefs.GetIndices(indices);
	indices.push_back(collisionRef.index);
}


void NiDefaultAVObjectPalette::Sync(NiStreamReversible& stream) {
	sceneRef.Sync(stream);
	objects.Sync(stream);
}

void NiDefaultAVObjectPalette::GetPtrs(std::set<NiPtr*>& ptrs) {
	NiAVObjectPalette::GetPtrs(ptrs);

	ptrs.insert(&sceneRef);
	objects.GetPtrs(ptrs);
}


void NiCamera::Sync(NiStreamReversible& stream) {
	stream.Sync(obsoleteFlags);
	stream.Sync(frustumLeft);
	stream.Sync(frustumRight);
	stream.Sync(frustumTop);
	stream.Sync(frustomBottom);
	stream.Sync(frustumNear);
	stream.Sync(frustumFar);
	stream.Sync(useOrtho);
	stream.Sync(viewportLeft);
	stream.Sync(viewportRight);
	stream.Sync(viewportTop);
	stream.Sync(viewportBottom);
	stream.Sync(lodAdjust);

	sceneRef.Sync(stream);
	stream.Sync(numScreenPolygons);
	stream.Sync(numScreenTextures);
}

void NiCamera::GetChildRefs(std::set<NiRef*>& refs) {
	NiAVObject::GetChildRefs(refs);

	refs.insert(&sceneRef);
}

void NiCamera::GetChildIndices(std::vector<uint32_t>& indices) {
	NiAVObject::GetChildIndices(indices);

	indices.push_back(sceneRef.index);
}


void NiPalette::Sync(NiStreamReversible& stream) {
	stream.Sync(hasAlpha);

	if (stream.GetMode() == NiStreamReversible::Mode::Writing) {
		// Size can only be 16 or 256
		auto numEntries = palette.size();
		if (numEntries != 16 && numEntries != 256) {
			if (numEntries >= 128)
				palette.resize(256);
			else
				palette.resize(16);
		}
	}

	palette.Sync(stream);
}


void TextureRenderData::Sync(NiStreamReversible& stream) {
	stream.Sync(pixelFormat);
	stream.Sync(bitsPerPixel);
	stream.Sync(rendererHint);
	stream.Sync(extraData);
	stream.Sync(flags);
	stream.Sync(pixelTiling);

	for (auto& channel : channels) {
		stream.Sync(channel.type);
		stream.Sync(channel.convention);
		stream.Sync(channel.bitsPerChannel);
		stream.Sync(channel.isSigned);
	}

	paletteRef.Sync(stream);

	uint32_t sz = mipmaps.SyncSize(stream);
	stream.Sync(bytesPerPixel);

	mipmaps.SyncData(stream, sz);
}

void TextureRenderData::GetChildRefs(std::set<NiRef*>& refs) {
	NiObject::GetChildRefs(refs);

	refs.insert(&paletteRef);
}

void TextureRenderData::GetChildIndices(std::vector<uint32_t>& indices) {
	NiObject::GetChildIndices(indices);

	indices.push_back(paletteRef.index);
}


void NiPersistentSrcTextureRendererData::Sync(NiStreamReversible& stream) {
	stream.Sync(numPixels);
	stream.Sync(padNumPixels);
	stream.Sync(numFaces);
	stream.Sync(platform);

	pixelData.resize(numFaces);
	for (uint32_t f = 0; f < numFaces; f++) {
		pixelData[f].resize(numPixels);
		for (uint32_t p = 0; p < numPixels; p++)
			stream.Sync(pixelData[f][p]);
	}
}


void NiPixelData::Sync(NiStreamReversible& stream) {
	stream.Sync(numPixels);
	stream.Sync(numFaces);

	pixelData.resize(numFaces);
	for (uint32_t f = 0; f < numFaces; f++) {
		pixelData[f].resize(numPixels);
		for (uint32_t p = 0; p < numPixels; p++)
			stream.Sync(pixelData[f][p]);
	}
}


void NiSourceTexture::Sync(NiStreamReversible& stream) {
	const NiFileVersion fileVersion = stream.GetVersion().File();

	stream.Sync(useExternal);

	if (fileVersion <= NiFileVersion::V10_0_1_3)
		if (!useExternal)
			stream.Sync(useInternal);

	if (useExternal || fileVersion >= NiFileVersion::V10_1_0_0)
		fileName.Sync(stream);

	if (useExternal) {
		if (fileVersion >= NiFileVersion::V10_1_0_0)
			dataRef.Sync(stream);
	}
	else if (useInternal) {
		if (fileVersion <= NiFileVersion::V10_0_1_3)
			dataRef.Sync(stream);
	}
	else {
		if (fileVersion > NiFileVersion::V10_0_1_3)
			dataRef.Sync(stream);
	}

	stream.Sync(pixelLayout);
	stream.Sync(mipMapFormat);
	stream.Sync(alphaFormat);

	stream.Sync(isStatic);

	if (fileVersion >= NiVersion::ToFile(10, 1, 0, 103))
		stream.Sync(directRender);
	if (fileVersion >= NiVersion::ToFile(20, 2, 0, 4))
		stream.Sync(persistentRenderData);
}

void NiSourceTexture::GetStringRefs(std::vector<NiStringRef*>& refs) {
	NiTexture::GetStringRefs(refs);

	refs.emplace_back(&fileName);
}

void NiSourceTexture::GetChildRefs(std::set<NiRef*>& refs) {
	NiTexture::GetChildRefs(refs);

	refs.insert(&dataRef);
}

void NiSourceTexture::GetChildIndices(std::vector<uint32_t>& indices) {
	NiTexture::GetChildIndices(indices);

	indices.push_back(dataRef.index);
}


void NiDynamicEffect::Sync(NiStreamReversible& stream) {
	if (stream.GetVersion().Stream() < 130) {
		if (stream.GetVersion().File() > NiFileVersion::V10_1_0_101)
			stream.Sync(switchState);

		if (stream.GetVersion().File() <= NiFileVersion::V4_0_0_2 || stream.GetVersion().File() >= NiFileVersion::V10_1_0_0)
			affectedNodes.Sync(stream);
	}
}

void NiDynamicEffect::GetPtrs(std::set<NiPtr*>& ptrs) {
	NiAVObject::GetPtrs(ptrs);

	affectedNodes.GetIndexPtrs(ptrs);
}


void NiTextureEffect::Sync(NiStreamReversible& stream) {
	stream.Sync(modelProjectionMatrix);
	stream.Sync(modelProjectionTranslation);
	stream.Sync(textureFiltering);
	stream.Sync(textureClamping);
	stream.Sync(textureType);
	stream.Sync(coordinateGenerationType);
	sourceTexture.Sync(stream);
	stream.Sync(clippingPlane);
	stream.Sync(plane);
}

void NiTextureEffect::GetChildRefs(std::set<NiRef*>& refs) {
	NiDynamicEffect::GetChildRefs(refs);

	refs.insert(&sourceTexture);
}

void NiTextureEffect::GetChildIndices(std::vector<uint32_t>& indices) {
	NiDynamicEffect::GetChildIndices(indices);

	indices.push_back(sourceTexture.index);
}


void NiLight::Sync(NiStreamReversible& stream) {
	stream.Sync(dimmer);
	stream.Sync(ambientColor);
	stream.Sync(diffuseColor);
	stream.Sync(specularColor);
}


void NiPointLight::Sync(NiStreamReversible& stream) {
	stream.Sync(constantAttenuation);
	stream.Sync(linearAttenuation);
	stream.Sync(quadraticAttenuation);
}


void NiSpotLight::Sync(NiStreamReversible& stream) {
	stream.Sync(outerSpotAngle);
	stream.Sync(innerSpotAngle);
	stream.Sync(exponent);
}
