/*
nifly
C++ NIF library for the Gamebryo/NetImmerse File Format
See the included GPLv3 LICENSE file
*/

#include "bhk.hpp"

using namespace nifly;

void NiCollisionObject::Sync(NiStreamReversible& stream) {
	targetRef.Sync(stream);
}

void NiCollisionObject::GetPtrs(std::set<NiPtr*>& ptrs) {
	NiObject::GetPtrs(ptrs);

	ptrs.insert(&targetRef);
}


void BoundingVolume::Sync(NiStreamReversible& stream) {
	stream.Sync(collisionType);

	switch (collisionType) {
		case SPHERE_BV: stream.Sync(bvSphere); break;
		case BOX_BV: stream.Sync(bvBox); break;
		case CAPSULE_BV: stream.Sync(bvCapsule); break;
		case UNION_BV: bvUnion->Sync(stream); break;
		case HALFSPACE_BV: stream.Sync(bvHalfSpace); break;
		default: break;
	}
}


void NiCollisionData::Sync(NiStreamReversible& stream) {
	stream.Sync(propagationMode);
	stream.Sync(collisionMode);
	stream.Sync(useABV);

	if (useABV)
		boundingVolume.Sync(stream);
}


void bhkNiCollisionObject::Sync(NiStreamReversible& stream) {
	stream.Sync(flags);
	bodyRef.Sync(stream);
}

void bhkNiCollisionObject::GetChildRefs(std::set<NiRef*>& refs) {
	NiCollisionObject::GetChildRefs(refs);

	refs.insert(&bodyRef);
}

void bhkNiCollisionObject::GetChildIndices(std::vector<uint32_t>& indices) {
	NiCollisionObject::GetChildIndices(indices);

	indices.push_back(bodyRef.index);
}


void bhkNPCollisionObject::Sync(NiStreamReversible& stream) {
	stream.Sync(bodyID);
}


void bhkBlendCollisionObject::Sync(NiStreamReversible& stream) {
	stream.Sync(heirGain);
	stream.Sync(velGain);
}


bhkPhysicsSystem::bhkPhysicsSystem(const uint32_t size) {
	data.resize(size);
}

void bhkPhysicsSystem::Sync(NiStreamReversible& stream) {
	data.SyncByteArray(stream);
}


bhkRagdollSystem::bhkRagdollSystem(const uint32_t size) {
	data.resize(size);
}

void bhkRagdollSystem::Sync(NiStreamReversible& stream) {
	data.SyncByteArray(stream);
}


void bhkBlendController::Sync(NiStreamReversible& stream) {
	stream.Sync(keys);
}


void bhkHeightFieldShape::Sync(NiStreamReversible& stream) {
	stream.Sync(material);
}


void bhkPlaneShape::Sync(NiStreamReversible& stream) {
	stream.Sync(unkVec);
	stream.Sync(plane);
	stream.Sync(halfExtents);
	stream.Sync(center);
}


void bhkSphereRepShape::Sync(NiStreamReversible& stream) {
	stream.Sync(material);
}


void bhkConvexShape::Sync(NiStreamReversible& stream) {
	stream.Sync(radius);
}


void bhkMultiSphereShape::Sync(NiStreamReversible& stream) {
	stream.Sync(shapeProperty);
	spheres.Sync(stream);
}


void bhkConvexListShape::Sync(NiStreamReversible& stream) {
	shapeRefs.Sync(stream);
	stream.Sync(material);
	stream.Sync(radius);
	stream.Sync(unkInt1);
	stream.Sync(unkFloat1);
	stream.Sync(childShapeProp);
	stream.Sync(useCachedAABB);
	stream.Sync(closestPointMinDistance);
}

void bhkConvexListShape::GetChildRefs(std::set<NiRef*>& refs) {
	bhkShape::GetChildRefs(refs);

	shapeRefs.GetIndexPtrs(refs);
}

void bhkConvexListShape::GetChildIndices(std::vector<uint32_t>& indices) {
	bhkShape::GetChildIndices(indices);

	shapeRefs.GetIndices(indices);
}


void bhkConvexVerticesShape::Sync(NiStreamReversible& stream) {
	stream.Sync(vertsProp);
	stream.Sync(normalsProp);
	verts.Sync(stream);
	normals.Sync(stream);
}


void bhkBoxShape::Sync(NiStreamReversible& stream) {
	stream.Sync(padding);
	stream.Sync(dimensions);
	stream.Sync(radius2);
}


void bhkCylinderShape::Sync(NiStreamReversible& stream) {
	stream.Sync(reinterpret_cast<char*>(unused1), 8);
	stream.Sync(vertexA);
	stream.Sync(vertexB);
	stream.Sync(cylinderRadius);
	stream.Sync(reinterpret_cast<char*>(unused2), 12);
}


void bhkTransformShape::Sync(NiStreamReversible& stream) {
	shapeRef.Sync(stream);
	stream.Sync(material);
	stream.Sync(radius);
	stream.Sync(padding);
	stream.Sync(xform);
}

void bhkTransformShape::GetChildRefs(std::set<NiRef*>& refs) {
	bhkShape::GetChildRefs(refs);

	refs.insert(&shapeRef);
}

void bhkTransformShape::GetChildIndices(std::vector<uint32_t>& indices) {
	bhkShape::GetChildIndices(indices);

	indices.push_back(shapeRef.index);
}


void bhkCapsuleShape::Sync(NiStreamReversible& stream) {
	stream.Sync(padding);
	stream.Sync(point1);
	stream.Sync(radius1);
	stream.Sync(point2);
	stream.Sync(radius2);
}


void bhkMoppBvTreeShape::Sync(NiStreamReversible& stream) {
	shapeRef.Sync(stream);
	stream.Sync(userData);
	stream.Sync(shapeCollection);
	stream.Sync(code);
	stream.Sync(scale);
	uint32_t sz = data.SyncSize(stream);
	stream.Sync(offset);

	if (stream.GetVersion().User() >= 12)
		stream.Sync(buildType);

	data.SyncData(stream, sz);
}

void bhkMoppBvTreeShape::GetChildRefs(std::set<NiRef*>& refs) {
	bhkBvTreeShape::GetChildRefs(refs);

	refs.insert(&shapeRef);
}

void bhkMoppBvTreeShape::GetChildIndices(std::vector<uint32_t>& indices) {
	bhkBvTreeShape::GetChildIndices(indices);

	indices.push_back(shapeRef.index);
}


void bhkNiTriStripsShape::Sync(NiStreamReversible& stream) {
	stream.Sync(material);
	stream.Sync(radius);
	stream.Sync(unused1);
	stream.Sync(unused2);
	stream.Sync(unused3);
	stream.Sync(unused4);
	stream.Sync(unused5);
	stream.Sync(growBy);
	stream.Sync(scale);

	partRefs.Sync(stream);
	filters.Sync(stream);
}

void bhkNiTriStripsShape::GetChildRefs(std::set<NiRef*>& refs) {
	bhkShape::GetChildRefs(refs);

	partRefs.GetIndexPtrs(refs);
}

void bhkNiTriStripsShape::GetChildIndices(std::vector<uint32_t>& indices) {
	bhkShape::GetChildIndices(indices);

	partRefs.GetIndices(indices);
}


void bhkListShape::Sync(NiStreamReversible& stream) {
	subShapeRefs.Sync(stream);

	stream.Sync(material);
	stream.Sync(childShapeProp);
	stream.Sync(childFilterProp);

	filters.Sync(stream);
}

void bhkListShape::GetChildRefs(std::set<NiRef*>& refs) {
	bhkShapeCollection::GetChildRefs(refs);

	subShapeRefs.GetIndexPtrs(refs);
}

void bhkListShape::GetChildIndices(std::vector<uint32_t>& indices) {
	bhkShapeCollection::GetChildIndices(indices);

	subShapeRefs.GetIndices(indices);
}


void hkPackedNiTriStripsData::Sync(NiStreamReversible& stream) {
	stream.Sync(keyCount);

	if (stream.GetVersion().Stream() > 11) {
		triData.resize(keyCount);
		for (uint32_t i = 0; i < keyCount; i++)
			stream.Sync(triData[i]);
	}
	else {
		triNormData.resize(keyCount);
		for (uint32_t i = 0; i < keyCount; i++)
			stream.Sync(triNormData[i]);
	}

	stream.Sync(numVerts);

	if (stream.GetVersion().Stream() > 11)
		stream.Sync(compressed);

	compressedVertData.resize(numVerts);
	for (uint32_t i = 0; i < numVerts; i++)
		stream.Sync(compressedVertData[i]);

	if (stream.GetVersion().Stream() > 11)
		subPartData.Sync(stream);
}


void bhkPackedNiTriStripsShape::Sync(NiStreamReversible& stream) {
	if (stream.GetVersion().Stream() <= 11)
		subPartData.Sync(stream);

	stream.Sync(userData);
	stream.Sync(unused1);
	stream.Sync(radius);
	stream.Sync(unused2);
	stream.Sync(scaling);
	stream.Sync(radius2);
	stream.Sync(scaling2);
	dataRef.Sync(stream);
}

void bhkPackedNiTriStripsShape::GetChildRefs(std::set<NiRef*>& refs) {
	bhkShapeCollection::GetChildRefs(refs);

	refs.insert(&dataRef);
}

void bhkPackedNiTriStripsShape::GetChildIndices(std::vector<uint32_t>& indices) {
	bhkShapeCollection::GetChildIndices(indices);

	indices.push_back(dataRef.index);
}


void bhkLiquidAction::Sync(NiStreamReversible& stream) {
	stream.Sync(userData);
	stream.Sync(unkInt1);
	stream.Sync(unkInt2);
	stream.Sync(initialStickForce);
	stream.Sync(stickStrength);
	stream.Sync(neighborDistance);
	stream.Sync(neighborStrength);
}


void bhkOrientHingedBodyAction::Sync(NiStreamReversible& stream) {
	bodyRef.Sync(stream);
	stream.Sync(unkInt1);
	stream.Sync(unkInt2);
	stream.Sync(padding);
	stream.Sync(hingeAxisLS);
	stream.Sync(forwardLS);
	stream.Sync(strength);
	stream.Sync(damping);
	stream.Sync(padding2);
}

void bhkOrientHingedBodyAction::GetPtrs(std::set<NiPtr*>& ptrs) {
	bhkSerializable::GetPtrs(ptrs);

	ptrs.insert(&bodyRef);
}


void bhkWorldObject::Sync(NiStreamReversible& stream) {
	shapeRef.Sync(stream);
	stream.Sync(collisionFilter);
	stream.Sync(unkInt1);
	stream.Sync(broadPhaseType);
	stream.Sync(reinterpret_cast<char*>(unkBytes), 3);
	stream.Sync(prop);
}

void bhkWorldObject::GetChildRefs(std::set<NiRef*>& refs) {
	bhkSerializable::GetChildRefs(refs);

	refs.insert(&shapeRef);
}

void bhkWorldObject::GetChildIndices(std::vector<uint32_t>& indices) {
	bhkSerializable::GetChildIndices(indices);

	indices.push_back(shapeRef.index);
}


void bhkSimpleShapePhantom::Sync(NiStreamReversible& stream) {
	stream.Sync(padding);
	stream.Sync(transform);
}


void bhkAabbPhantom::Sync(NiStreamReversible& stream) {
	stream.Sync(padding);
	stream.Sync(aabbMin);
	stream.Sync(aabbMax);
}


void bhkRigidBody::Sync(NiStreamReversible& stream) {
	stream.Sync(collisionResponse);
	stream.Sync(unusedByte1);
	stream.Sync(processContactCallbackDelay);
	stream.Sync(unkInt1);

	stream.Sync(collisionFilterCopy);
	stream.Sync(reinterpret_cast<char*>(unkShorts2), 12);

	stream.Sync(translation);
	stream.Sync(rotation);
	stream.Sync(linearVelocity);
	stream.Sync(angularVelocity);
	stream.Sync(reinterpret_cast<char*>(inertiaMatrix), 48);
	stream.Sync(center);
	stream.Sync(mass);
	stream.Sync(linearDamping);
	stream.Sync(angularDamping);

	if (stream.GetVersion().Stream() > 34) {
		if (stream.GetVersion().Stream() < 130)
			stream.Sync(timeFactor);

		stream.Sync(gravityFactor);
	}

	stream.Sync(friction);

	if (stream.GetVersion().Stream() > 34)
		stream.Sync(rollingFrictionMult);

	stream.Sync(restitution);
	stream.Sync(maxLinearVelocity);
	stream.Sync(maxAngularVelocity);
	stream.Sync(penetrationDepth);
	stream.Sync(motionSystem);
	stream.Sync(deactivatorType);
	stream.Sync(solverDeactivation);
	stream.Sync(qualityType);

	if (stream.GetVersion().Stream() > 34) {
		stream.Sync(autoRemoveLevel);
		stream.Sync(responseModifierFlag);
		stream.Sync(numShapeKeysInContactPointProps);
		stream.Sync(forceCollideOntoPpu);
	}

	if (stream.GetVersion().IsFO4())
		stream.Sync(reinterpret_cast<char*>(unusedBytes2), 3);
	else
		stream.Sync(reinterpret_cast<char*>(unusedInts1), 12);

	constraintRefs.Sync(stream);

	if (stream.GetVersion().Stream() < 76)
		stream.Sync(bodyFlagsInt);
	else
		stream.Sync(bodyFlags);
}

void bhkRigidBody::GetChildRefs(std::set<NiRef*>& refs) {
	bhkEntity::GetChildRefs(refs);

	constraintRefs.GetIndexPtrs(refs);
}

void bhkRigidBody::GetChildIndices(std::vector<uint32_t>& indices) {
	bhkEntity::GetChildIndices(indices);

	constraintRefs.GetIndices(indices);
}


void bhkConstraint::Sync(NiStreamReversible& stream) {
	entityRefs.SetKeepEmptyRefs();
	entityRefs.SetSize(2);
	entityRefs.Sync(stream);

	// A constraint has exactly two entities, in memory as well and not only in what is written
	if (stream.GetMode() == NiStreamReversible::Mode::Reading)
		entityRefs.SetSize(2);

	stream.Sync(priority);
}

void bhkConstraint::GetPtrs(std::set<NiPtr*>& ptrs) {
	bhkSerializable::GetPtrs(ptrs);

	entityRefs.GetIndexPtrs(ptrs);
}


void bhkHingeConstraint::Sync(NiStreamReversible& stream) {
	hinge.Sync(stream);
}


void bhkLimitedHingeConstraint::Sync(NiStreamReversible& stream) {
	limitedHinge.Sync(stream);
}


void ConstraintData::Sync(NiStreamReversible& stream) {
	stream.Sync(type);

	entityRefs.SetKeepEmptyRefs();
	entityRefs.SetSize(2);
	entityRefs.Sync(stream);

	// A constraint has exactly two entities, in memory as well and not only in what is written
	if (stream.GetMode() == NiStreamReversible::Mode::Reading)
		entityRefs.SetSize(2);

	stream.Sync(priority);

	switch (type) {
		case BallAndSocket: stream.Sync(reinterpret_cast<char*>(&desc1), 32); break;
		case Hinge: desc2.Sync(stream); break;
		case LimitedHinge: desc3.Sync(stream); break;
		case Prismatic: desc4.Sync(stream); break;
		case Ragdoll: desc5.Sync(stream); break;
		case StiffSpring: stream.Sync(reinterpret_cast<char*>(&desc6), 36); break;
	}

	if (stream.GetVersion().File() <= NiFileVersion::V20_0_0_5) {
		stream.Sync(tau);
		stream.Sync(damping);
	}
	else if (stream.GetVersion().File() >= NiFileVersion::V20_2_0_7)
		stream.Sync(strength);
}

void ConstraintData::GetPtrs(std::set<NiPtr*>& ptrs) {
	entityRefs.GetIndexPtrs(ptrs);
}


void bhkBreakableConstraint::Sync(NiStreamReversible& stream) {
	subConstraint.Sync(stream);
	stream.Sync(removeWhenBroken);
}

void bhkBreakableConstraint::GetPtrs(std::set<NiPtr*>& ptrs) {
	bhkConstraint::GetPtrs(ptrs);

	subConstraint.GetPtrs(ptrs);
}


void bhkRagdollConstraint::Sync(NiStreamReversible& stream) {
	if (stream.GetVersion().Stream() <= 16) {
		// OB/FO3
		stream.Sync(ragdoll.pivotA);
		stream.Sync(ragdoll.planeA);
		stream.Sync(ragdoll.twistA);
		stream.Sync(ragdoll.pivotB);
		stream.Sync(ragdoll.planeB);
		stream.Sync(ragdoll.twistB);
	}
	else {
		// FO3 and later
		stream.Sync(ragdoll.twistA);
		stream.Sync(ragdoll.planeA);
		stream.Sync(ragdoll.motorA);
		stream.Sync(ragdoll.pivotA);
		stream.Sync(ragdoll.twistB);
		stream.Sync(ragdoll.planeB);
		stream.Sync(ragdoll.motorB);
		stream.Sync(ragdoll.pivotB);
	}

	stream.Sync(ragdoll.coneMaxAngle);
	stream.Sync(ragdoll.planeMinAngle);
	stream.Sync(ragdoll.planeMaxAngle);
	stream.Sync(ragdoll.twistMinAngle);
	stream.Sync(ragdoll.twistMaxAngle);
	stream.Sync(ragdoll.maxFriction);

	if (stream.GetVersion().Stream() > 16)
		ragdoll.motorDesc.Sync(stream);
}


void bhkStiffSpringConstraint::Sync(NiStreamReversible& stream) {
	stream.Sync(stiffSpring.pivotA);
	stream.Sync(stiffSpring.pivotB);
	stream.Sync(stiffSpring.length);
}


void bhkPrismaticConstraint::Sync(NiStreamReversible& stream) {
	prismatic.Sync(stream);
}


void bhkMalleableConstraint::Sync(NiStreamReversible& stream) {
	subConstraint.Sync(stream);
}

void bhkMalleableConstraint::GetPtrs(std::set<NiPtr*>& ptrs) {
	bhkConstraint::GetPtrs(ptrs);

	subConstraint.GetPtrs(ptrs);
}


void bhkBallAndSocketConstraint::Sync(NiStreamReversible& stream) {
	stream.Sync(ballAndSocket.translationA);
	stream.Sync(ballAndSocket.translationB);
}


void bhkBallSocketConstraintChain::Sync(NiStreamReversible& stream) {
	pivots.Sync(stream);

	stream.Sync(tau);
	stream.Sync(damping);
	stream.Sync(cfm);
	stream.Sync(maxErrorDistance);

	chainedEntityRefs.Sync(stream);

	numEntities = 2;
	stream.Sync(numEntities);
	numEntities = 2;

	entityARef.Sync(stream);
	entityBRef.Sync(stream);
	stream.Sync(priority);
}

void bhkBallSocketConstraintChain::GetPtrs(std::set<NiPtr*>& ptrs) {
	bhkSerializable::GetPtrs(ptrs);

	chainedEntityRefs.GetIndexPtrs(ptrs);
	ptrs.insert(&entityARef);
	ptrs.insert(&entityBRef);
}


void bhkCompressedMeshShapeData::Sync(NiStreamReversible& stream) {
	stream.Sync(bitsPerIndex);
	stream.Sync(bitsPerWIndex);
	stream.Sync(maskWIndex);
	stream.Sync(maskIndex);
	stream.Sync(error);
	stream.Sync(aabbBoundMin);
	stream.Sync(aabbBoundMax);
	stream.Sync(weldingType);
	stream.Sync(materialType);

	mat32.Sync(stream);
	mat16.Sync(stream);
	mat8.Sync(stream);

	materials.Sync(stream);

	stream.Sync(numNamedMat);

	transforms.Sync(stream);
	bigVerts.Sync(stream);

	bigTris.Sync(stream);
	chunks.Sync(stream);

	stream.Sync(numConvexPieceA);
}


void bhkCompressedMeshShape::Sync(NiStreamReversible& stream) {
	targetRef.Sync(stream);
	stream.Sync(userData);
	stream.Sync(radius);
	stream.Sync(unkFloat);
	stream.Sync(scaling);
	stream.Sync(radius2);
	stream.Sync(scaling2);
	dataRef.Sync(stream);
}

void bhkCompressedMeshShape::GetChildRefs(std::set<NiRef*>& refs) {
	bhkShape::GetChildRefs(refs);

	refs.insert(&dataRef);
}

void bhkCompressedMeshShape::GetChildIndices(std::vector<uint32_t>& indices) {
	bhkShape::GetChildIndices(indices);

	indices.push_back(dataRef.index);
}

void bhkCompressedMeshShape::GetPtrs(std::set<NiPtr*>& ptrs) {
	bhkShape::GetPtrs(ptrs);

	ptrs.insert(&targetRef);
}


void bhkPoseArray::Sync(NiStreamReversible& stream) {
	bones.Sync(stream);
	poses.Sync(stream);
}

void bhkPoseArray::GetStringRefs(std::vector<NiStringRef*>& refs) {
	NiObject::GetStringRefs(refs);

	for (auto& b : bones)
		refs.emplace_back(&b);
}


void bhkRagdollTemplate::Sync(NiStreamReversible& stream) {
	boneRefs.Sync(stream);
}

void bhkRagdollTemplate::GetChildRefs(std::set<NiRef*>& refs) {
	NiExtraData::GetChildRefs(refs);

	boneRefs.GetIndexPtrs(refs);
}

void bhkRagdollTemplate::GetChildIndices(std::vector<uint32_t>& indices) {
	NiExtraData::GetChildIndices(indices);

	boneRefs.GetIndices(indices);
}


void bhkRagdollTemplateData::Sync(NiStreamReversible& stream) {
	name.Sync(stream);
	stream.Sync(mass);
	stream.Sync(restitution);
	stream.Sync(friction);
	stream.Sync(radius);
	stream.Sync(material);
	constraints.Sync(stream);
}

void bhkRagdollTemplateData::GetStringRefs(std::vector<NiStringRef*>& refs) {
	NiObject::GetStringRefs(refs);

	refs.emplace_back(&name);
}

void bhkRagdollTemplateData::GetPtrs(std::set<NiPtr*>& ptrs) {
	NiObject::GetPtrs(ptrs);

	constraints.GetPtrs(ptrs);
}
