#include "Object3d.hpp"
#include <Miniball.hpp>
#include <cmath>

namespace nifly {
float CalcMedianOfFloats(std::vector<float>& data) {
	size_t n = data.size();
	if (n <= 0)
		return 0;

	if (n & 1) { // n is odd
		std::nth_element(data.begin(), data.begin() + n / 2, data.end());
		return data[n / 2];
	}
	// n is even
	std::nth_element(data.begin(), data.begin() + n / 2, data.end());
	std::nth_element(data.begin(), data.begin() + n / 2 - 1, data.begin() + n / 2);
	return (data[n / 2] + data[n / 2 - 1]) / 2;
}

Matrix3 RotVecToMat(const Vector3& v) {
	double angle = std::sqrt(v.x * v.x + v.y * v.y + v.z * v.z);
	double cosang = std::cos(angle);
	double sinang = std::sin(angle);
	double onemcosang = NAN; // One minus cosang
	// Avoid loss of precision from cancellation in calculating onemcosang
	if (cosang > .5)
		onemcosang = sinang * sinang / (1 + cosang);
	else
		onemcosang = 1 - cosang;

	Vector3 n = angle != 0.0 ? v / static_cast<float>(angle) : Vector3(1.0f, 0.0f, 0.0f);
	Matrix3 m;
	m[0][0] = n.x * n.x * static_cast<float>(onemcosang) + static_cast<float>(cosang);
	m[1][1] = n.y * n.y * static_cast<float>(onemcosang) + static_cast<float>(cosang);
	m[2][2] = n.z * n.z * static_cast<float>(onemcosang) + static_cast<float>(cosang);
	m[0][1] = n.x * n.y * static_cast<float>(onemcosang) + n.z * static_cast<float>(sinang);
	m[1][0] = n.x * n.y * static_cast<float>(onemcosang) - n.z * static_cast<float>(sinang);
	m[1][2] = n.y * n.z * static_cast<float>(onemcosang) + n.x * static_cast<float>(sinang);
	m[2][1] = n.y * n.z * static_cast<float>(onemcosang) - n.x * static_cast<float>(sinang);
	m[2][0] = n.z * n.x * static_cast<float>(onemcosang) + n.y * static_cast<float>(sinang);
	m[0][2] = n.z * n.x * static_cast<float>(onemcosang) - n.y * static_cast<float>(sinang);
	return m;
}

Vector3 RotMatToVec(const Matrix3& m) {
	double cosang = (m[0][0] + m[1][1] + m[2][2] - 1) * 0.5;
	if (cosang > 0.5) {
		Vector3 v(m[1][2] - m[2][1], m[2][0] - m[0][2], m[0][1] - m[1][0]);
		double sin2ang = v.length();
		if (sin2ang == 0.0)
			return Vector3();

		return v * static_cast<float>(std::asin(sin2ang * 0.5) / sin2ang);
	}
	// Antisymmetric part: 2 * sin(angle) * axis
	Vector3 asym(m[1][2] - m[2][1], m[2][0] - m[0][2], m[0][1] - m[1][0]);
	double sin2ang = asym.length();
	if (cosang > -1 && sin2ang > 1e-3) {
		asym.Normalize();
		return asym * static_cast<float>(std::acos(cosang));
	}

	// (Nearly) a half turn: the antisymmetric part vanishes, so take the axis from the
	// symmetric part instead. The squared components are on the diagonal...
	if (cosang < -1)
		cosang = -1;

	double x = (m[0][0] - cosang) * 0.5;
	double y = (m[1][1] - cosang) * 0.5;
	double z = (m[2][2] - cosang) * 0.5;

	// Solve precision issues that would cause NaN
	if (x < 0.0)
		x = 0.0;
	if (y < 0.0)
		y = 0.0;
	if (z < 0.0)
		z = 0.0;

	Vector3 v(static_cast<float>(std::sqrt(x)),
			  static_cast<float>(std::sqrt(y)),
			  static_cast<float>(std::sqrt(z)));
	v.Normalize();

	// ...the signs relative to the largest component in the off-diagonal sums...
	int k = (v.x >= v.y && v.x >= v.z) ? 0 : (v.y >= v.z ? 1 : 2);
	for (int i = 0; i < 3; i++)
		if (i != k && m[k][i] + m[i][k] < 0)
			v[i] = -v[i];

	// ...and the overall direction in what is left of the antisymmetric part.
	if (asym.dot(v) < 0)
		v = Vector3(-v.x, -v.y, -v.z);

	return v * static_cast<float>(std::atan2(sin2ang * 0.5, cosang));
}

Matrix3 CalcAverageRotation(const std::vector<Matrix3>& rots) {
	auto n = static_cast<uint32_t>(rots.size());
	if (n == 0)
		return Matrix3();

	// First, calculate an approximate average as a base point in
	// the manifold of rotations.
	Vector3 sum1;
	for (const Matrix3& r : rots)
		sum1 += RotMatToVec(r);

	sum1.x /= n;
	sum1.y /= n;
	sum1.z /= n;

	// Now, rebase each rotation to the base point and average them
	// there.
	Matrix3 base = RotVecToMat(sum1);
	Matrix3 baseinv = base.Transpose();
	Vector3 sum2;
	for (const Matrix3& r : rots)
		sum2 += RotMatToVec(baseinv * r);

	sum2.x /= n;
	sum2.y /= n;
	sum2.z /= n;

	// The result is the new average offset from the base.
	return base * RotVecToMat(sum2);
}

MatTransform CalcAverageMatTransform(const std::vector<MatTransform>& ts) {
	auto n = static_cast<uint32_t>(ts.size());
	if (n == 0)
		return MatTransform();

	std::vector<Matrix3> rots(n);
	Vector3 sumtrans;
	float sumscale = 0.0f;
	for (uint32_t i = 0; i < n; ++i) {
		rots[i] = ts[i].rotation;
		sumtrans += ts[i].translation;
		sumscale += ts[i].scale;
	}

	MatTransform res;
	res.rotation = CalcAverageRotation(rots);
	res.translation.x = sumtrans.x / n;
	res.translation.y = sumtrans.y / n;
	res.translation.z = sumtrans.z / n;
	res.scale = sumscale / n;
	return res;
}

Vector3 CalcMedianOfVector3(const std::vector<Vector3>& data) {
	size_t n = data.size();
	if (n <= 0)
		return Vector3();

	Vector3 res;
	std::vector<float> nums(n);

	for (uint32_t i = 0; i < n; ++i)
		nums[i] = data[i].x;
	res.x = CalcMedianOfFloats(nums);

	for (uint32_t i = 0; i < n; ++i)
		nums[i] = data[i].y;
	res.y = CalcMedianOfFloats(nums);

	for (uint32_t i = 0; i < n; ++i)
		nums[i] = data[i].z;
	res.z = CalcMedianOfFloats(nums);

	return res;
}

Matrix3 CalcMedianRotation(const std::vector<Matrix3>& rots) {
	auto n = static_cast<uint32_t>(rots.size());
	if (n == 0)
		return Matrix3();

	// First, calculate an approximate average as a base point in
	// the manifold of rotations.
	Vector3 sum1;
	for (const Matrix3& r : rots)
		sum1 += RotMatToVec(r);

	sum1.x /= n;
	sum1.y /= n;
	sum1.z /= n;

	// Now, rebase each rotation to the base point.
	std::vector<Vector3> vecs(n);
	Matrix3 base = RotVecToMat(sum1);
	Matrix3 baseinv = base.Transpose();
	for (uint32_t i = 0; i < n; ++i)
		vecs[i] = RotMatToVec(baseinv * rots[i]);

	// Calculate median of the rebased rotation vectors.
	Vector3 mvec = CalcMedianOfVector3(vecs);

	// The result is the median rebased rotation offset from the base.
	return base * RotVecToMat(mvec);
}

MatTransform CalcMedianMatTransform(const std::vector<MatTransform>& ts) {
	size_t n = ts.size();
	if (n <= 0)
		return MatTransform();

	std::vector<Matrix3> rots(n);
	std::vector<Vector3> trans(n);
	std::vector<float> scales(n);
	for (uint32_t i = 0; i < n; ++i) {
		rots[i] = ts[i].rotation;
		trans[i] = ts[i].translation;
		scales[i] = ts[i].scale;
	}

	MatTransform res;
	res.rotation = CalcMedianRotation(rots);
	res.translation = CalcMedianOfVector3(trans);
	res.scale = CalcMedianOfFloats(scales);
	return res;
}
} // namespace nifly


using namespace nifly;

BoundingSphere::BoundingSphere(const std::vector<Vector3>& vertices) {
	if (vertices.empty())
		return;

	// Convert vertices to list of coordinates
	std::list<std::vector<float>> lp;
	for (auto vertice : vertices) {
		lp.push_back({vertice.x, vertice.y, vertice.z});
	}

	Miniball::Miniball<Miniball::CoordAccessor<std::list<std::vector<float>>::const_iterator,
											   std::vector<float>::const_iterator>>
		mb(3, lp.begin(), lp.end());

	const float* pCenter = mb.center();
	center.x = pCenter[0];
	center.y = pCenter[1];
	center.z = pCenter[2];

	radius = std::sqrt(mb.squared_radius());

	// The pivot iteration of the miniball can stop early with float coordinates. Make sure
	// that the sphere contains every vertex and is not larger than the sphere around the
	// bounding box (results that already are within float tolerance stay untouched).
	Vector3 boxMin = vertices.front();
	Vector3 boxMax = vertices.front();
	float maxDist = 0.0f;
	for (auto& vertice : vertices) {
		maxDist = std::max(maxDist, center.DistanceTo(vertice));
		boxMin = Vector3(std::min(boxMin.x, vertice.x), std::min(boxMin.y, vertice.y), std::min(boxMin.z, vertice.z));
		boxMax = Vector3(std::max(boxMax.x, vertice.x), std::max(boxMax.y, vertice.y), std::max(boxMax.z, vertice.z));
	}

	if (maxDist > radius * 1.00001f)
		radius = maxDist;

	Vector3 boxCenter = (boxMin + boxMax) * 0.5f;
	float boxRadius = 0.0f;
	for (auto& vertice : vertices)
		boxRadius = std::max(boxRadius, boxCenter.DistanceTo(vertice));

	if (radius > boxRadius * 1.00001f) {
		center = boxCenter;
		radius = boxRadius;
	}
}

float Matrix3::Determinant() const {
	return rows[0][0] * (rows[1][1] * rows[2][2] - rows[1][2] * rows[2][1])
		   + rows[0][1] * (rows[1][2] * rows[2][0] - rows[1][0] * rows[2][2])
		   + rows[0][2] * (rows[1][0] * rows[2][1] - rows[1][1] * rows[2][0]);
}

bool Matrix3::Invert(Matrix3* inverse) const {
	float det = Determinant();
	if (det == 0.0f)
		return false;
	float idet = 1 / det;
	Matrix3& im = *inverse;
	im[0][0] = (rows[1][1] * rows[2][2] - rows[1][2] * rows[2][1]) * idet;
	im[1][0] = (rows[1][2] * rows[2][0] - rows[1][0] * rows[2][2]) * idet;
	im[2][0] = (rows[1][0] * rows[2][1] - rows[1][1] * rows[2][0]) * idet;
	im[0][1] = (rows[2][1] * rows[0][2] - rows[2][2] * rows[0][1]) * idet;
	im[1][1] = (rows[2][2] * rows[0][0] - rows[2][0] * rows[0][2]) * idet;
	im[2][1] = (rows[2][0] * rows[0][1] - rows[2][1] * rows[0][0]) * idet;
	im[0][2] = (rows[0][1] * rows[1][2] - rows[0][2] * rows[1][1]) * idet;
	im[1][2] = (rows[0][2] * rows[1][0] - rows[0][0] * rows[1][2]) * idet;
	im[2][2] = (rows[0][0] * rows[1][1] - rows[0][1] * rows[1][0]) * idet;
	return true;
}

Matrix3 Matrix3::Inverse() const {
	Matrix3 inv;
	Invert(&inv);
	return inv;
}

Matrix3 Matrix3::MakeRotation(const float yaw, const float pitch, const float roll) {
	float ch = std::cos(yaw);
	float sh = std::sin(yaw);
	float cp = std::cos(pitch);
	float sp = std::sin(pitch);
	float cb = std::cos(roll);
	float sb = std::sin(roll);

	Matrix3 rot;
	rot[0].x = ch * cb + sh * sp * sb;
	rot[0].y = sb * cp;
	rot[0].z = -sh * cb + ch * sp * sb;

	rot[1].x = -ch * sb + sh * sp * cb;
	rot[1].y = cb * cp;
	rot[1].z = sb * sh + ch * sp * cb;

	rot[2].x = sh * cp;
	rot[2].y = -sp;
	rot[2].z = ch * cp;

	return rot;
}

bool Matrix3::ToEulerAngles(float& y, float& p, float& r) const {
	bool canRot = false;

	if (rows[0].z < 1.0f) {
		if (rows[0].z > -1.0f) {
			y = std::atan2(-rows[1].z, rows[2].z);
			p = std::asin(rows[0].z);
			r = std::atan2(-rows[0].y, rows[0].x);
			canRot = true;
		}
		else {
			y = -std::atan2(-rows[1].x, rows[1].y);
			p = -PI / 2.0f;
			r = 0.0f;
		}
	}
	else {
		y = std::atan2(rows[1].x, rows[1].y);
		p = PI / 2.0f;
		r = 0.0f;
	}
	return canRot;
}

MatTransform MatTransform::InverseTransform() const {
	MatTransform inv;
	inv.rotation = rotation.Inverse();
	inv.scale = 1 / scale;
	inv.translation = -inv.scale * (inv.rotation * translation);
	return inv;
}

MatTransform MatTransform::ComposeTransforms(const MatTransform& other) const {
	MatTransform comp;
	comp.rotation = rotation * other.rotation;
	comp.scale = scale * other.scale;
	comp.translation = translation + rotation * (scale * other.translation);
	return comp;
}
