// C14 — cloning a shape yields a self-contained copy and leaves the source untouched.
//
// Domain: every shape of sample files and generated models x destination in {same model, fresh
// model of the same version, another model of that version (a second generated model / a copy of a
// sample)} x 1-3 repeated clonings.
// Oracle: source bytes unchanged; the clone's geometry, shader parameters, texture slots, alpha and
// skin equal the source's; every child reference reachable from the clone resolves inside the
// destination to a block of the same type whose content (reference fields masked, strings by
// text) equals the source counterpart's; the bone list names the same bones and each names a node
// of the destination; a default save + reload keeps the clone.
#include "battery.hpp"
#include "cases.hpp"
#include "graph.hpp"
#include "observe.hpp"

using namespace nifly;
using namespace vf;

namespace {

std::string bytesOf(const NifFile& m) {
	NifFile tmp(m);
	std::string b;
	saveBytes(tmp, b, rawOpts());
	return b;
}

// content record of a shape without names / ids / parents
std::string shapeContent(NifFile& nif, NiShape* s, bool withNormals) {
	std::string o;
	o += std::string(s->GetBlockName()) + " nv=" + std::to_string(s->GetNumVertices()) + " nt=" + std::to_string(s->GetNumTriangles());
	std::vector<Vector3> verts;
	nif.GetVertsForShape(s, verts);
	bat::hv(o, "verts", verts);
	std::vector<Triangle> tris;
	s->GetTriangles(tris);
	bat::hv(o, "tris", tris);
	std::vector<Vector2> uvs;
	if (nif.GetUvsForShape(s, uvs))
		bat::hv(o, "uvs", uvs);
	if (withNormals) {
		if (auto n = nif.GetNormalsForShape(s))
			bat::hv(o, "normals", *n);
		std::vector<Vector3> tn;
		if (nif.GetTangentsForShape(s, tn))
			bat::hv(o, "tangents", tn);
	}
	std::vector<Color4> cols;
	if (nif.GetColorsForShape(s, cols))
		bat::hv(o, "colors", cols);
	o += " xf=";
	bat::xf(o, s->GetTransformToParent());
	if (auto sh = nif.GetShader(s)) {
		o += std::string(" shader=") + sh->GetBlockName() + " type=" + std::to_string(sh->GetShaderType());
		bat::f(o, sh->GetGlossiness());
		bat::f(o, sh->GetSpecularStrength());
		bat::f(o, sh->GetAlpha());
		if (auto bsp = dynamic_cast<BSShaderProperty*>(sh))
			o += " f1=" + std::to_string(bsp->shaderFlags1) + " f2=" + std::to_string(bsp->shaderFlags2);
	}
	for (uint32_t slot = 0; slot < 13; slot++) {
		std::string tex;
		if (nif.GetTextureSlot(s, tex, slot))
			o += " tex" + std::to_string(slot) + "=" + tex;
	}
	if (auto ap = nif.GetAlphaProperty(s))
		o += " alpha=" + std::to_string(ap->flags) + "/" + std::to_string(ap->threshold);
	std::vector<std::string> bones;
	nif.GetShapeBoneList(s, bones);
	o += " bones:";
	for (auto& b : bones)
		o += b + ",";
	for (uint32_t bi = 0; bi < bones.size() && bi < 200; bi++) {
		std::unordered_map<uint16_t, float> w;
		nif.GetShapeBoneWeights(s, bi, w);
		std::vector<std::pair<uint16_t, float>> sorted(w.begin(), w.end());
		std::sort(sorted.begin(), sorted.end());
		uint64_t hh = 1469598103934665603ull;
		for (auto& p : sorted) {
			hh = hash_mix(hh, p.first);
			hh = hash_mix(hh, p.second);
		}
		char buf[40];
		snprintf(buf, sizeof buf, " w%u#%llx", bi, static_cast<unsigned long long>(hh));
		o += buf;
		MatTransform tx;
		if (nif.GetShapeTransformSkinToBone(s, bi, tx))
			bat::xf(o, tx);
	}
	return o;
}

// parallel walk over child references: same type, same canonical content
bool gModelSpaceClone = false; // set per case

// pairs: source block -> its clone, for every block met on the walk (used for the pointer check)
std::string compareSubgraph(NifFile& srcNif, NiObject* a, NifFile& dstNif, NiObject* b, int depth, std::set<NiObject*>& seen, bool isTop,
							std::map<NiObject*, NiObject*>* pairs = nullptr) {
	if (!seen.insert(b).second || depth > 12)
		return "";
	if (pairs)
		(*pairs)[a] = b;
	if (std::string(a->GetBlockName()) != b->GetBlockName())
		return std::string("type differs: ") + a->GetBlockName() + " vs " + b->GetBlockName();
	auto& sh = srcNif.GetHeader();
	auto& dh = dstNif.GetHeader();
	PutObs pa = observedPutClone(*a, sh), pb = observedPutClone(*b, dh);
	CanonOpts co;
	co.maskRefs = true;
	co.stringsByText = true;
	if (!isTop) {
		std::string ca = canonPayload(pa, co), cb = canonPayload(pb, co);
		// skin instances: the bone pointer list is rebuilt from names (checked separately)
		// geometry data of a model-space shape: the clone drops normals and tangents by design (its
		// geometry is compared through the accessors instead)
		if (ca != cb && !a->HasType<NiBoneContainer>() && !(gModelSpaceClone && a->HasType<NiGeometryData>()))
			return std::string(a->GetBlockName()) + ": content of the cloned block differs from the source's";
	}
	// child references in enumeration order
	std::vector<uint32_t> ia, ib;
	a->GetChildIndices(ia);
	b->GetChildIndices(ib);
	std::vector<uint32_t> fa, fb;
	for (auto v : ia)
		if (sh.GetBlock<NiObject>(v))
			fa.push_back(v);
	for (auto v : ib)
		if (v != NIF_NPOS)
			fb.push_back(v);
	if (fa.size() != fb.size())
		return std::string(a->GetBlockName()) + ": the clone has " + std::to_string(fb.size()) + " child references, the source " + std::to_string(fa.size());
	for (size_t i = 0; i < fa.size(); i++) {
		auto ca = sh.GetBlock<NiObject>(fa[i]);
		auto cb = dh.GetBlock<NiObject>(fb[i]);
		if (!cb)
			return std::string(a->GetBlockName()) + ": a child reference of the clone (" + std::to_string(fb[i]) + ") does not resolve inside the destination";
		if (&srcNif == &dstNif && ca == cb)
			return std::string(a->GetBlockName()) + ": the clone shares child block " + std::to_string(fb[i]) + " (" + cb->GetBlockName() + ") with the source";
		std::string e = compareSubgraph(srcNif, ca, dstNif, cb, depth + 1, seen, false, pairs);
		if (!e.empty())
			return e;
	}
	return "";
}

// Back pointers (controller targets, ...): a pointer of a cloned block whose source counterpart points at
// a block inside the cloned sub-graph must point at that block's clone; any other pointer must be empty
// or resolve inside the destination.
std::string comparePointers(NifFile& srcNif, NifFile& dstNif, const std::map<NiObject*, NiObject*>& pairs) {
	auto& sh = srcNif.GetHeader();
	auto& dh = dstNif.GetHeader();
	for (auto& kv : pairs) {
		// bone pointers of skin instances are rebuilt from names (checked separately)
		if (kv.first->HasType<NiBoneContainer>())
			continue;
		std::set<NiRef*> unorderedA, unorderedB;
		kv.first->GetPtrs(unorderedA);
		kv.second->GetPtrs(unorderedB);
		if (unorderedA.size() != unorderedB.size())
			continue;
		// GetPtrs gives a set ordered by address: member order inside equal-typed objects is the same on both sides
		std::vector<NiRef*> pa(unorderedA.begin(), unorderedA.end()), pb(unorderedB.begin(), unorderedB.end());
		auto rel = [](std::vector<NiRef*>& v, NiObject* base) {
			std::sort(v.begin(), v.end(), [base](NiRef* x, NiRef* y) {
				return reinterpret_cast<char*>(x) - reinterpret_cast<char*>(base) < reinterpret_cast<char*>(y) - reinterpret_cast<char*>(base);
			});
		};
		rel(pa, kv.first);
		rel(pb, kv.second);
		// only pointers stored inside the object itself can be matched by offset
		for (size_t i = 0; i < pa.size(); i++) {
			ptrdiff_t oa = reinterpret_cast<char*>(pa[i]) - reinterpret_cast<char*>(kv.first);
			ptrdiff_t ob = reinterpret_cast<char*>(pb[i]) - reinterpret_cast<char*>(kv.second);
			if (oa != ob || oa < 0 || oa > 4096)
				continue;
			NiObject* ta = pa[i]->IsEmpty() ? nullptr : sh.GetBlock<NiObject>(pa[i]->index);
			NiObject* tb = pb[i]->IsEmpty() ? nullptr : dh.GetBlock<NiObject>(pb[i]->index);
			if (!pb[i]->IsEmpty() && !tb)
				return std::string(kv.second->GetBlockName()) + ": a pointer of the clone (" + std::to_string(pb[i]->index) + ") does not resolve inside the destination";
			auto it = ta ? pairs.find(ta) : pairs.end();
			if (it != pairs.end() && tb != it->second)
				return std::string(kv.second->GetBlockName()) + ": a back pointer that targets " + ta->GetBlockName() + " inside the cloned sub-graph targets "
					   + (tb ? std::string(tb->GetBlockName()) + " (block " + std::to_string(pb[i]->index) + ")" : std::string("nothing")) + " in the clone instead of that block's clone";
		}
	}
	return "";
}

// 1-3 chained float controllers on the shape's shader (each targets the shader and has its own
// interpolator + data), the way animated glow / alpha fades are stored
uint32_t attachShaderControllers(NifFile& nif, NiShape* shape, uint32_t n) {
	auto& hdr = nif.GetHeader();
	auto shader = nif.GetShader(shape);
	if (!shader || !shader->controllerRef.IsEmpty())
		return 0;
	const bool lighting = shader->HasType<BSLightingShaderProperty>();
	if (!lighting && !shader->HasType<BSEffectShaderProperty>())
		return 0;
	const uint32_t shaderId = nif.GetBlockID(shader);
	uint32_t prev = NIF_NPOS, first = NIF_NPOS;
	for (uint32_t i = 0; i < n; i++) {
		auto data = std::make_unique<NiFloatData>();
		auto interp = std::make_unique<NiFloatInterpolator>();
		interp->floatValue = 0.25f * static_cast<float>(i + 1);
		interp->dataRef.index = hdr.AddBlock(std::move(data));
		uint32_t interpId = hdr.AddBlock(std::move(interp));
		uint32_t id;
		if (lighting) {
			auto c = std::make_unique<BSLightingShaderPropertyFloatController>();
			c->typeOfControlledVariable = i;
			c->targetRef.index = shaderId;
			c->interpolatorRef.index = interpId;
			c->stopTime = 1.0f + static_cast<float>(i);
			id = hdr.AddBlock(std::move(c));
		}
		else {
			auto c = std::make_unique<BSEffectShaderPropertyFloatController>();
			c->typeOfControlledVariable = i;
			c->targetRef.index = shaderId;
			c->interpolatorRef.index = interpId;
			c->stopTime = 1.0f + static_cast<float>(i);
			id = hdr.AddBlock(std::move(c));
		}
		if (prev == NIF_NPOS)
			first = id;
		else
			hdr.GetBlock<NiTimeController>(prev)->nextControllerRef.index = id;
		prev = id;
	}
	nif.GetShader(shape)->controllerRef.index = first;
	return n;
}

Verdict prop(Tape& t, Run& run) {
	auto srcNif = std::make_unique<NifFile>();
	std::string desc, version;
	size_t vi = 0;
	uint8_t from = t.u8() % 3;
	bool fromFile = false;
	std::string fileBytes;
	if (from == 0) {
		auto& cp = corpus(run.args.corpus);
		if (cp.empty())
			return OK;
		auto& f = cp[t.u8() % cp.size()];
		if (loadBytes(*srcNif, f.bytes) != 0)
			return OK;
		desc = "sample:" + f.name;
		version = versionName(srcNif->GetHeader().GetVersion());
		fromFile = true;
		fileBytes = f.bytes;
	}
	else {
		static const size_t vers[] = {4, 5, 6, 7, 8, 11};
		vi = vers[t.u8() % 6];
		// block order is left as built: with a permuted order block 0 may be another node, which this
		// library then takes for the root
		GraphInfo gi = buildGraph(*srcNif, t, vi, false);
		desc = "graph: " + gi.str();
		version = versions()[vi].name;
	}
	auto shapes = srcNif->GetShapes();
	if (shapes.empty()) {
		run.exclude("model without shapes");
		return OK;
	}
	NiShape* srcShape = shapes[t.u8() % shapes.size()];
	const std::string srcName = srcShape->name.get();
	{
		// sometimes an animated shader: a chain of controllers that all point back at the shader
		uint8_t c = t.u8();
		if ((c & 12) == 12) {
			// Skyrim model-space normal maps: the clone drops its normals and tangents by design - its own
			if (auto l = dynamic_cast<BSLightingShaderProperty*>(srcNif->GetShader(srcShape))) {
				auto& v = srcNif->GetHeader().GetVersion();
				if (v.IsSK() || v.IsSSE()) {
					l->shaderFlags1 |= (1 << 12);
					desc += " +model-space-shader";
					run.cls("source-with-model-space-shader");
					if (fromFile) {
						fileBytes.clear();
						saveBytes(*srcNif, fileBytes, rawOpts());
					}
				}
			}
		}
		if ((c & 3) == 3) {
			uint32_t n = attachShaderControllers(*srcNif, srcShape, 1 + (c >> 2) % 3);
			if (n) {
				desc += " +shader-controllers(" + std::to_string(n) + ")";
				run.cls("shader-controller-chain:" + std::to_string(n));
				if (fromFile) {
					// the file the "other model" is loaded from is this edited model
					fileBytes.clear();
					saveBytes(*srcNif, fileBytes, rawOpts());
				}
			}
		}
	}

	// destination
	const uint8_t destKind = t.u8() % 3;
	std::unique_ptr<NifFile> other;
	NifFile* dst = srcNif.get();
	std::string destName = "same-model";
	if (destKind == 1) {
		other = std::make_unique<NifFile>();
		other->Create(srcNif->GetHeader().GetVersion());
		dst = other.get();
		destName = "fresh-model";
	}
	else if (destKind == 2) {
		other = std::make_unique<NifFile>();
		if (fromFile)
			loadBytes(*other, fileBytes);
		else {
			// a second, different generated model of the same version (tape continues)
			buildGraph(*other, t, vi, false);
		}
		dst = other.get();
		destName = "other-model";
	}
	const uint32_t reps = 1 + t.u8() % 3;
	const std::string shapeDesc = std::string(srcShape->GetBlockName()) + ":" + srcName;
	auto detail = [&](const std::string& what) {
		return J().s("model", desc).s("version", version).s("shape", shapeDesc).s("destination", destName).u("repetitions", reps).s("what", what).str();
	};
	run.cls("dest:" + destName);
	run.cls(fromFile ? "source:sample" : "source:graph");

	srcNif->FinalizeData();
	const std::string srcBytes0 = dst == srcNif.get() ? std::string() : bytesOf(*srcNif);
	auto shaderOf = srcNif->GetShader(srcShape);
	const bool modelSpace = shaderOf && shaderOf->IsModelSpace() && (srcNif->GetHeader().GetVersion().IsSK() || srcNif->GetHeader().GetVersion().IsSSE());
	const std::string want = shapeContent(*srcNif, srcShape, !modelSpace);
	gModelSpaceClone = modelSpace;
	const std::string srcFull0 = shapeContent(*srcNif, srcShape, true); // the source itself, normals and tangents included
	const bool rich = shaderOf && (srcShape->IsSkinned() || srcShape->extraDataRefs.GetSize() > 0);

	for (uint32_t r = 0; r < reps; r++) {
		const std::string cloneName = srcName + "_clone" + std::to_string(r);
		NiShape* clone = dst->CloneShape(srcShape, cloneName, srcNif.get());
		if (!clone)
			return run.fail("C14:null", detail("CloneShape returned null"));
		if (clone->name.get() != cloneName)
			return run.fail("C14:name", detail("clone does not carry the requested name"));
		// (source untouched)
		if (dst != srcNif.get()) {
			std::string b = bytesOf(*srcNif);
			if (b != srcBytes0)
				return run.fail("C14:source-modified:" + destName, detail("cloning into another model changed the source model: " + firstDiff(srcBytes0, b)));
		}
		else if (shapeContent(*srcNif, srcShape, true) != srcFull0)
			return run.fail("C14:source-modified:same-model", detail("cloning changed the source shape: " + batteryDiff(srcFull0, shapeContent(*srcNif, srcShape, true))));
		// (content)
		std::string got = shapeContent(*dst, clone, !modelSpace);
		if (got != want)
			return run.fail("C14:content:" + destName, detail("clone differs from the source: " + batteryDiff(want, got)));
		// (references resolve inside the destination to equal content)
		std::set<NiObject*> seen;
		std::map<NiObject*, NiObject*> pairs;
		std::string e = compareSubgraph(*srcNif, srcShape, *dst, clone, 0, seen, true, &pairs);
		if (!e.empty())
			return run.fail("C14:subgraph:" + destName, detail(e));
		e = comparePointers(*srcNif, *dst, pairs);
		if (!e.empty())
			return run.fail("C14:back-pointer:" + destName, detail(e));
		// (bones exist in the destination)
		std::vector<std::string> bones;
		dst->GetShapeBoneList(clone, bones);
		for (auto& bn : bones)
			if (!dst->FindBlockByName<NiNode>(bn))
				return run.fail("C14:bone-missing:" + destName, detail("bone '" + bn + "' of the clone is not a node of the destination"));
		std::vector<std::string> srcBones;
		srcNif->GetShapeBoneList(srcShape, srcBones);
		if (bones != srcBones)
			return run.fail("C14:bone-list:" + destName, detail("bone list of the clone differs from the source's"));
	}
	if (rich)
		run.nontriv(fnv1a(std::string(reinterpret_cast<const char*>(run.curTape), run.curTapeLen)));
	// destination saves and reloads with the clone intact (a default save may prune a loose source
	// shape, so everything needed from the source is captured first)
	const uint16_t srcNv = srcShape->GetNumVertices();
	const uint32_t srcNt = srcShape->GetNumTriangles();
	std::vector<std::string> srcBoneNames;
	srcNif->GetShapeBoneList(srcShape, srcBoneNames);
	const std::string sampleJson = detail("sample");
	if (run.wantSample())
		run.sample(sampleJson);
	std::string out;
	if (saveBytes(*dst, out, defOpts()) != 0)
		return run.fail("C14:save", detail("destination cannot be saved"));
	NifFile re;
	int rc = loadBytes(re, out);
	if (rc != 0)
		return run.fail("C14:reload", detail("saved destination rejected, rc=" + std::to_string(rc)));
	for (uint32_t r = 0; r < reps; r++) {
		auto rs = re.FindBlockByName<NiShape>(srcName + "_clone" + std::to_string(r));
		if (!rs)
			return run.fail("C14:reload-missing:" + destName, detail("clone " + std::to_string(r) + " is gone after save and reload"));
		if (rs->GetNumVertices() != srcNv || rs->GetNumTriangles() != srcNt)
			return run.fail("C14:reload-geometry:" + destName, detail("clone geometry counts changed after save and reload"));
		std::vector<std::string> b1;
		re.GetShapeBoneList(rs, b1);
		if (b1 != srcBoneNames)
			return run.fail("C14:reload-bones:" + destName, detail("bone list of the clone changed after save and reload"));
	}
	return OK;
}

void deterministic(Run& run, const std::function<void(const std::vector<uint8_t>&)>& feed) {
	// every shape of every sample x every destination kind
	auto& cp = corpus(run.args.corpus);
	for (size_t i = 0; i < cp.size(); i++) {
		NifFile f;
		if (loadBytes(f, cp[i].bytes) != 0)
			continue;
		size_t ns = f.GetShapes().size();
		for (size_t s = 0; s < ns && s < 40; s++)
			for (uint8_t d = 0; d < 3; d++)
				feed({0, static_cast<uint8_t>(i), static_cast<uint8_t>(s), d, static_cast<uint8_t>(d == 0 ? 1 : 0)});
	}
}

} // namespace

int main(int argc, char** argv) {
	Harness h{};
	h.id = "C14";
	h.prop = prop;
	h.deterministic = deterministic;
	h.maxTape = 6000;
	h.quickCases = 4000;
	h.thoroughCases = 80000;
	h.rule = "case = (source model: sample or generated scene graph; one of its shapes; destination: same model / fresh model of "
			 "the same version / another model of that version; 1-3 clonings). Enumerated: every shape of every sample x every "
			 "destination. Non-trivial = the shape has a shader and a skin or extra data; distinct = hash(tape).";
	return harnessMain(argc, argv, h);
}
