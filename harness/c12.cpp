// C12 — LE<->SE conversion preserves geometry and skinning and yields a valid file.
//
// Domain: Skyrim LE / SE sample files and generated LE and SE models (NiTriShape, NiTriStrips,
// BSSegmentedTriShape / BSTriShape, BSDynamicTriShape, BSSubIndexTriShape; lighting shaders incl.
// model-space normals; vertex colours incl. all-white; skins with triangles or strips in
// partitions; NiOptimizeKeep; sibling name clashes) x option combinations (headParts only when every
// shape is dynamic-compatible).
// Oracle per shape (matched by position among the shapes): positions bit-exact; triangle multiset
// equal up to rotation; UVs within half precision; colours within 1/255; bone name list equal;
// per-vertex weights equal within half precision after normalisation; shader block kept; node
// hierarchy unchanged; sibling shape names pairwise distinct; default save + reload in the target
// version succeeds; partitions cover the triangles; converting back returns equivalent geometry.
#include "gen.hpp"
#include "harness.hpp"
#include "observe.hpp"
#include "diff.hpp"

using namespace nifly;
using namespace vf;

namespace {

struct ShapeFacts {
	std::string name, parent, shaderType;
	std::vector<Vector3> verts;
	std::multiset<uint64_t> tris;
	std::vector<Vector2> uvs;
	bool hasUvs = false;
	std::vector<Color4> colors;
	bool hasColors = false;
	std::vector<std::string> bones;
	std::vector<std::map<std::string, double>> weights; // per vertex, normalised
	bool skinned = false;
	bool anyWeight = false;
	// "the shader": its values apart from the two flag words and the parallax type (which the conversion
	// documents to change), its textures, and the alpha property
	std::string shaderValues, alphaValues;
	std::vector<std::string> textures;
	bool wasParallax = false;
};

// Shader block rendered without the flag words (the conversion clears documented bits in them) and with
// the parallax shader type mapped to the default one; references masked, strings by text
std::string shaderValuesOf(NifFile& nif, NiShader* sh, bool& wasParallax) {
	auto c = sh->Clone();
	if (auto l = dynamic_cast<BSLightingShaderProperty*>(c.get())) {
		wasParallax = l->GetShaderType() == BSLSP_PARALLAX;
		if (wasParallax)
			l->SetShaderType(BSLSP_DEFAULT);
		l->shaderFlags1 = 0;
		l->shaderFlags2 = 0;
	}
	else if (auto e = dynamic_cast<BSEffectShaderProperty*>(c.get())) {
		e->shaderFlags1 = 0;
		e->shaderFlags2 = 0;
	}
	PutObs o = observedPutLive(*c, nif.GetHeader());
	CanonOpts co;
	co.maskRefs = true;
	co.stringsByText = true;
	return canonPayload(o, co);
}

std::vector<ShapeFacts> factsOf(NifFile& nif) {
	std::vector<ShapeFacts> out;
	for (auto s : nif.GetShapes()) {
		ShapeFacts f;
		f.name = s->name.get();
		auto p = nif.GetParentNode(s);
		f.parent = p ? p->name.get() : "<none>";
		nif.GetVertsForShape(s, f.verts);
		std::vector<Triangle> t;
		s->GetTriangles(t);
		for (auto& tr : t)
			f.tris.insert(triKey(tr));
		f.hasUvs = nif.GetUvsForShape(s, f.uvs);
		f.hasColors = nif.GetColorsForShape(s, f.colors);
		if (auto sh = nif.GetShader(s)) {
			f.shaderType = sh->GetBlockName();
			f.shaderValues = shaderValuesOf(nif, sh, f.wasParallax);
			for (uint32_t slot = 0; slot < 10; slot++) {
				std::string tex;
				if (nif.GetTextureSlot(s, tex, slot) == 0)
					break;
				f.textures.push_back(tex);
			}
		}
		if (auto ap = nif.GetAlphaProperty(s)) {
			PutObs o = observedPutClone(*ap, nif.GetHeader());
			CanonOpts co;
			co.maskRefs = true;
			co.stringsByText = true;
			f.alphaValues = canonPayload(o, co);
		}
		f.skinned = s->IsSkinned();
		nif.GetShapeBoneList(s, f.bones);
		f.weights.resize(f.verts.size());
		for (uint32_t b = 0; b < f.bones.size(); b++) {
			std::unordered_map<uint16_t, float> w;
			nif.GetShapeBoneWeights(s, b, w);
			for (auto& kv : w)
				if (kv.first < f.weights.size() && kv.second > 0) {
					f.weights[kv.first][f.bones[b]] += kv.second;
					f.anyWeight = true;
				}
		}
		if (!f.anyWeight && s->HasType<NiGeometry>()) {
			// LE layout with the weights only in the skin partitions (no weights in NiSkinData)
			auto& hdr = nif.GetHeader();
			auto si = hdr.GetBlock<NiSkinInstance>(s->SkinInstanceRef());
			auto sp = si ? hdr.GetBlock(si->skinPartitionRef) : nullptr;
			if (sp)
				for (auto& p : sp->partitions) {
					if (!p.hasVertexWeights || !p.hasBoneIndices)
						continue;
					for (size_t k = 0; k < p.vertexMap.size() && k < p.vertexWeights.size() && k < p.boneIndices.size(); k++) {
						uint16_t v = p.vertexMap[k];
						if (v >= f.weights.size() || !f.weights[v].empty())
							continue;
						const float* w = &p.vertexWeights[k].w1;
						const uint8_t* bi = &p.boneIndices[k].i1;
						for (int c = 0; c < 4; c++)
							if (w[c] > 0 && bi[c] < p.bones.size() && p.bones[bi[c]] < f.bones.size()) {
								f.weights[v][f.bones[p.bones[bi[c]]]] += w[c];
								f.anyWeight = true;
							}
					}
				}
		}
		for (auto& vw : f.weights) {
			double sum = 0;
			for (auto& kv : vw)
				sum += kv.second;
			if (sum > 0)
				for (auto& kv : vw)
					kv.second /= sum;
		}
		out.push_back(f);
	}
	return out;
}

std::vector<std::string> nodeFacts(NifFile& nif) {
	std::vector<std::string> out;
	for (auto n : nif.GetNodes()) {
		auto p = nif.GetParentNode(n);
		out.push_back(n->name.get() + "<" + (p ? p->name.get() : "") + ">");
	}
	std::sort(out.begin(), out.end());
	return out;
}

double halfTol(double x) {
	return std::ldexp(std::fabs(x), -11) + std::ldexp(1.0, -24);
}

// compare facts before/after one conversion; direction-specific tolerances
std::string compareFacts(const std::vector<ShapeFacts>& a, const std::vector<ShapeFacts>& b, bool toSE, std::string& clause, bool colorsMayVanish, bool usedVertsOnly) {
	clause = "shape-count";
	if (a.size() != b.size())
		return "shape count " + std::to_string(a.size()) + " -> " + std::to_string(b.size());
	// The conversion may rename duplicates and reorder blocks: shapes are matched by geometry
	// (bit-identical positions and the same triangle set), first by equal index, then any unmatched one.
	std::vector<int> match(a.size(), -1);
	std::vector<bool> used(b.size(), false);
	auto sameGeom = [](const ShapeFacts& x, const ShapeFacts& y) {
		return x.verts.size() == y.verts.size() && (x.verts.empty() || memcmp(x.verts.data(), y.verts.data(), x.verts.size() * sizeof(Vector3)) == 0) && x.tris == y.tris;
	};
	for (size_t i = 0; i < a.size(); i++)
		if (sameGeom(a[i], b[i]) && a[i].parent == b[i].parent) {
			match[i] = static_cast<int>(i);
			used[i] = true;
		}
	for (size_t i = 0; i < a.size(); i++)
		if (match[i] < 0)
			for (size_t j = 0; j < b.size(); j++)
				if (!used[j] && sameGeom(a[i], b[j])) {
					match[i] = static_cast<int>(j);
					used[j] = true;
					break;
				}
	for (size_t i = 0; i < a.size(); i++) {
		if (match[i] < 0) {
			clause = "positions";
			return "shape " + std::to_string(i) + " (" + a[i].name + ", " + std::to_string(a[i].verts.size()) + " vertices, " + std::to_string(a[i].tris.size()) + " triangles): no shape with bit-identical positions and the same triangle set exists after the conversion";
		}
		const ShapeFacts &x = a[i], &y = b[static_cast<size_t>(match[i])];
		std::string S = "shape " + std::to_string(i) + " (" + x.name + "): ";
		clause = "positions";
		if (x.verts.size() != y.verts.size() || (!x.verts.empty() && memcmp(x.verts.data(), y.verts.data(), x.verts.size() * sizeof(Vector3)) != 0))
			return S + "vertex positions are not bit-identical (" + std::to_string(x.verts.size()) + " -> " + std::to_string(y.verts.size()) + ")";
		clause = "triangles";
		if (x.tris != y.tris)
			return S + "triangle set changed (" + std::to_string(x.tris.size()) + " -> " + std::to_string(y.tris.size()) + ")";
		clause = "uvs";
		if (x.hasUvs) {
			if (!y.hasUvs || y.uvs.size() != x.uvs.size())
				return S + "UVs lost";
			for (size_t k = 0; k < x.uvs.size(); k++)
				if (std::fabs(double(x.uvs[k].u) - y.uvs[k].u) > halfTol(x.uvs[k].u) || std::fabs(double(x.uvs[k].v) - y.uvs[k].v) > halfTol(x.uvs[k].v))
					return S + "UV of vertex " + std::to_string(k) + " differs beyond half precision";
		}
		clause = "colors";
		// colours may only be dropped (and only when the library reports it) if every source colour is
		// opaque white, i.e. 0xFFFFFFFF: decided here from the source values, not from the report
		bool allWhite = true;
		for (auto& c : x.colors)
			if (c.r < 1.0f || c.g < 1.0f || c.b < 1.0f || c.a < 1.0f)
				allWhite = false;
		if (x.hasColors && !(colorsMayVanish && allWhite && !y.hasColors)) {
			if (!y.hasColors || y.colors.size() != x.colors.size())
				return S + "vertex colours lost";
			for (size_t k = 0; k < x.colors.size(); k++) {
				const float* p = &x.colors[k].r;
				const float* q = &y.colors[k].r;
				for (int c = 0; c < 4; c++)
					if (std::fabs(double(std::min(1.0f, std::max(0.0f, p[c]))) - q[c]) > 1.0 / 255 + 1e-6)
						return S + "colour of vertex " + std::to_string(k) + " differs by more than 1/255";
			}
		}
		clause = "shader";
		if (x.shaderType != y.shaderType)
			return S + "shader block type changed " + x.shaderType + " -> " + y.shaderType;
		if (x.shaderValues != y.shaderValues)
			return S + "values of the shader block changed (flag words and parallax type excluded): " + firstDiff(x.shaderValues, y.shaderValues);
		if (x.alphaValues != y.alphaValues)
			return S + "alpha property changed or lost";
		if (x.textures.size() != y.textures.size())
			return S + "number of texture slots changed " + std::to_string(x.textures.size()) + " -> " + std::to_string(y.textures.size());
		for (size_t k = 0; k < x.textures.size(); k++)
			if (x.textures[k] != y.textures[k] && !(k == 3 && x.wasParallax && y.textures[k].empty()))
				return S + "texture slot " + std::to_string(k) + " changed '" + x.textures[k] + "' -> '" + y.textures[k] + "'";
		clause = "parent";
		if (x.parent != y.parent)
			return S + "parent node changed";
		clause = "bones";
		if (x.bones != y.bones)
			return S + "bone list changed";
		clause = "weights";
		if (x.anyWeight) {
			for (size_t k = 0; k < x.weights.size() && k < y.weights.size(); k++) {
				if (usedVertsOnly) {
					// see known finding: vertices that no triangle uses are in no partition
				}
				std::set<std::string> names;
				for (auto& kv : x.weights[k])
					names.insert(kv.first);
				for (auto& kv : y.weights[k])
					names.insert(kv.first);
				for (auto& n : names) {
					double wa = x.weights[k].count(n) ? x.weights[k].at(n) : 0.0;
					double wb = y.weights[k].count(n) ? y.weights[k].at(n) : 0.0;
					if (std::fabs(wa - wb) > 2e-3)
						return S + "weight of vertex " + std::to_string(k) + " for bone " + n + " changed " + std::to_string(wa) + " -> " + std::to_string(wb);
				}
			}
		}
	}
	(void) toSE;
	return "";
}

std::string partitionCoverage(NifFile& nif) {
	auto& hdr = nif.GetHeader();
	for (auto s : nif.GetShapes()) {
		auto si = hdr.GetBlock<NiSkinInstance>(s->SkinInstanceRef());
		auto sp = si ? hdr.GetBlock(si->skinPartitionRef) : nullptr;
		if (!sp)
			continue;
		std::vector<Triangle> tris;
		s->GetTriangles(tris);
		std::multiset<uint64_t> want, got;
		for (auto& t : tris)
			want.insert(triKey(t));
		std::multiset<uint64_t> gotStored;
		for (auto& p : sp->partitions) {
			// the stored list (what is written to the file) ...
			for (auto& t : p.triangles) {
				if (sp->bMappedIndices) {
					if (t.p1 >= p.vertexMap.size() || t.p2 >= p.vertexMap.size() || t.p3 >= p.vertexMap.size())
						return "mapped partition triangle indexes past the vertex map (" + s->name.get() + ")";
					gotStored.insert(triKey(Triangle(p.vertexMap[t.p1], p.vertexMap[t.p2], p.vertexMap[t.p3])));
				}
				else
					gotStored.insert(triKey(t));
			}
			// ... and the cached true triangles, where present
			if (!p.trueTriangles.empty())
				for (auto& t : p.trueTriangles)
					got.insert(triKey(t));
		}
		bool anyStored = !gotStored.empty(), anyTrue = !got.empty();
		if (anyStored && gotStored != want)
			return "stored partition triangles of shape " + s->name.get() + " (mapped=" + std::to_string(sp->bMappedIndices) + ") do not cover its triangles exactly once (" + std::to_string(gotStored.size()) + " vs " + std::to_string(want.size()) + ")";
		if (!anyTrue)
			got = gotStored;
		if (want != got)
			return "partitions of shape " + s->name.get() + " do not cover its triangles exactly once (" + std::to_string(got.size()) + " vs " + std::to_string(want.size()) + ")";
	}
	return "";
}

Verdict prop(Tape& t, Run& run) {
	NifFile nif;
	std::string desc;
	uint8_t from = t.u8() % 4;
	bool le;
	bool unusedVerts = false;
	if (from == 0) {
		static const char* names[] = {"Optimize_LE_to_SE", "Optimize_Dynamic_LE_to_SE", "Optimize_SE_to_LE", "Optimize_Dynamic_SE_to_LE", "Animated_LE", "Skinned_SE", "Skinned_Dynamic_SE", "Static_SE", "Furniture_Col_SE", "DeepGraph_SE", "MultiBound_SE", "OrderedNode_SE", "LooseBlocks_SE", "Skinned_NoNiSkinDataWeights"};
		std::string want = names[t.u8() % 14];
		bool found = false;
		for (auto& f : corpus(run.args.corpus))
			if (f.name == want) {
				loadBytes(nif, f.bytes);
				found = true;
			}
		if (!found)
			return OK;
		desc = "sample:" + want;
		le = nif.GetHeader().GetVersion().IsSK();
	}
	else {
		le = t.coin();
		size_t vi = le ? 6 : 7;
		nif.Create(versions()[vi].ni());
		uint32_t ns = 1 + t.u8() % 3;
		std::vector<NiShape*> dupShapes;
		GenShapeOpts o;
		o.mesh.maxVerts = 60;
		o.mesh.maxTris = 120;
		o.mesh.minTris = 1;
		o.mesh.duplicateTriangleSometimes = true; // an exact duplicate is one more triangle of the set to keep
		o.mesh.allowUnusedVerts = t.chance(48);
		o.stripVariants = true; // strips that begin with a degenerate triangle / stitched strips
		o.allowLockedNorm = false;
		o.maxBones = 6;
		o.everyVertexWeighted = !t.chance(40); // sometimes skins with unweighted vertices / no weights at all
		o.maxWeightsPerVert = 4;
		for (uint32_t i = 0; i < ns; i++) {
			// name-based API calls need unique names while the model is built; duplicates are assigned afterwards
			const bool dup = t.chance(64);
			GenShape g = buildGenShape(nif, t, vi, "S" + std::to_string(i), o);
			if (!g.shape)
				continue;
			if (dup)
				dupShapes.push_back(g.shape);
			desc += g.kind + " ";
			if (g.mesh.hasUnusedVerts && g.skinned)
				unusedVerts = true;
			// model-space normals / all-white colours / NiOptimizeKeep
			auto sh = dynamic_cast<BSLightingShaderProperty*>(nif.GetShader(g.shape));
			if (sh && t.chance(40)) {
				sh->shaderFlags1 |= (1 << 12); // model space normals
				desc += "+modelspace ";
			}
			if (sh && t.chance(96)) {
				// shader variety: type (incl. parallax with its flag and height map), numeric values, textures
				static const uint32_t kinds[] = {BSLSP_DEFAULT, BSLSP_ENVMAP, BSLSP_GLOWMAP, BSLSP_PARALLAX, BSLSP_SKINTINT, BSLSP_HAIRTINT, BSLSP_EYE, BSLSP_MULTILAYERPARALLAX};
				uint32_t kind = kinds[t.u8() % 8];
				sh->SetShaderType(kind);
				if (kind == BSLSP_PARALLAX)
					sh->shaderFlags1 |= (1 << 11);
				sh->glossiness = 10.0f + t.u8();
				sh->specularStrength = t.u8() / 32.0f;
				sh->emissiveMultiple = t.u8() / 16.0f;
				sh->alpha = 1.0f - t.u8() / 512.0f;
				sh->environmentMapScale = t.u8() / 64.0f;
				sh->skinTintColor = Vector3(t.u8() / 255.0f, 0.5f, 0.25f);
				sh->hairTintColor = Vector3(0.1f, t.u8() / 255.0f, 0.3f);
				sh->maxPasses = 1.0f + t.u8() % 8;
				sh->scale = t.u8() / 128.0f;
				uint32_t nt = t.u8() % 9;
				for (uint32_t slot = 0; slot < nt; slot++) {
					std::string tex = "textures\\gen\\s" + std::to_string(i) + "_" + std::to_string(slot) + ".dds";
					nif.SetTextureSlot(g.shape, tex, slot);
				}
				if (t.chance(96)) {
					auto ap = std::make_unique<NiAlphaProperty>();
					ap->flags = 4844 + t.u8() % 3;
					ap->threshold = t.u8();
					nif.AssignAlphaProperty(g.shape, std::move(ap));
					desc += "+alpha ";
				}
				desc += "+shader-kind" + std::to_string(kind) + " ";
				run.cls("shader-kind:" + std::to_string(kind));
			}
			if (t.chance(40)) {
				std::vector<Color4> white(g.shape->GetNumVertices(), Color4(1, 1, 1, 1));
				// all white; white with a per-vertex alpha fade (hair, foliage); white except one component
				uint8_t cls = t.u8() % 4;
				if (cls == 1)
					for (size_t k = 0; k < white.size(); k++)
						white[k].a = ((k * 37 + 11) % 256) / 255.0f;
				else if (cls == 2 && !white.empty())
					white[t.u16() % white.size()].a = 254.0f / 255.0f;
				else if (cls == 3 && !white.empty())
					(&white[t.u16() % white.size()].r)[t.u8() % 3] = 254.0f / 255.0f;
				nif.SetColorsForShape(g.shape, white);
				desc += cls == 0 ? "+white-colours " : cls == 1 ? "+white-with-alpha-fade " : cls == 2 ? "+white-one-alpha-254 " : "+white-one-component-254 ";
				run.cls(cls == 0 ? "colours:all-white" : cls == 1 ? "colours:white-alpha-fade" : "colours:white-but-one");
			}
			// NiOptimizeKeep marks static particle-emitter meshes; on a skinned shape the converted SSE block
			// stores particle arrays that its own reader cannot size (observation in DESIGN.md section 4)
			if (t.chance(32) && !g.skinned) {
				auto ed = std::make_unique<NiStringExtraData>();
				ed->name.get() = "Keep";
				ed->stringData.get() = "NiOptimizeKeep";
				nif.AssignExtraData(g.shape, std::move(ed));
				desc += "+optimizekeep ";
			}
		}
		if (dupShapes.size() >= 2) {
			for (auto sh : dupShapes)
				sh->name.get() = "Dup";
			desc += "+duplicate-names ";
		}
		desc = std::string(le ? "LE: " : "SE: ") + desc;
	}
	if (nif.GetShapes().empty()) {
		run.exclude("model without shapes");
		return OK;
	}
	OptOptions oo;
	oo.targetVersion = le ? NiVersion::getSSE() : NiVersion::getSK();
	bool allDynamicOk = true;
	for (auto s : nif.GetShapes())
		if (s->HasType<BSSegmentedTriShape>() || s->HasType<BSSubIndexTriShape>() || s->HasType<BSMeshLODTriShape>())
			allDynamicOk = false;
	oo.headParts = allDynamicOk && t.chance(64);
	oo.removeParallax = t.coin();
	oo.calcBounds = t.coin();
	oo.fixBSXFlags = t.coin();
	oo.fixShaderFlags = t.coin();
	const std::string dir = le ? "LE->SE" : "SE->LE";
	auto detail = [&](const std::string& what) {
		return J().s("model", desc).s("direction", dir).b("headParts", oo.headParts).b("removeParallax", oo.removeParallax).b("calcBounds", oo.calcBounds).s("what", what).str();
	};
	run.cls("direction:" + dir);
	run.cls(from == 0 ? "source:sample" : "source:generated");
	if (oo.headParts)
		run.cls("headParts");

	if (run.replaying) {
		printf("CASE %s\n", detail("replay").c_str());
		fflush(stdout);
	}
	// sometimes the positions were edited in memory (same vertex count) and the model is converted without a
	// save in between: what the conversion reads must be the live positions, not a copy kept for writing.
	// (Decided last, after every other tape byte of the model.)
	if (t.chance(72)) {
		for (auto s : nif.GetShapes()) {
			std::vector<Vector3> v;
			nif.GetVertsForShape(s, v);
			if (v.empty())
				continue;
			for (size_t i = 0; i < v.size(); i++) {
				v[i].x += 0.5f;
				v[i].y -= 0.25f + 0.125f * static_cast<float>(i % 3);
				v[i].z += 1.0f;
			}
			nif.SetVertsForShape(s, v);
		}
		desc += " +positions-edited-in-memory";
		run.cls("positions-edited-before-conversion");
	}
	std::vector<ShapeFacts> f0 = factsOf(nif);
	// strip shapes: the source's triangle set is what the strip format defines (position parity, degenerate
	// triangles skipped), decoded here independently of the library, so a conversion that triangulates strips
	// differently cannot hide behind the same routine answering the "before" query
	{
		auto shapes = nif.GetShapes();
		for (size_t i = 0; i < shapes.size() && i < f0.size(); i++) {
			auto sd = dynamic_cast<NiTriStripsData*>(shapes[i]->GetGeomData());
			if (!sd)
				continue;
			std::multiset<uint64_t> want;
			for (auto& tr : refTrianglesOfStrips(sd->stripsInfo.points))
				want.insert(triKey(tr));
			bool oddRun = false;
			for (auto& st : sd->stripsInfo.points)
				if (st.size() == 4 && (st[0] == st[1] || st[0] == st[2]))
					oddRun = true;
			run.cls(oddRun ? "strips:leading-degenerate-triangle" : "strips:reference-decoded");
			if (want != f0[i].tris) {
				f0[i].tris = want;
				run.cls("strips:library-answer-differs-from-reference");
			}
		}
	}
	std::vector<std::string> n0 = nodeFacts(nif);
	bool skinned = false;
	for (auto& f : f0)
		if (f.skinned)
			skinned = true;
	if (skinned || f0.size() >= 2)
		run.nontriv(fnv1a(std::string(reinterpret_cast<const char*>(run.curTape), run.curTapeLen)));
	if (run.wantSample())
		run.sample(detail("sample"));
	if (unusedVerts)
		run.cls("skinned-with-unused-vertices");

	// SE models whose NiSkinData carries no weights (they live only in the vertex data)
	bool noSkinDataWeights = false;
	if (!le)
		for (auto s : nif.GetShapes()) {
			auto si = nif.GetHeader().GetBlock<NiSkinInstance>(s->SkinInstanceRef());
			auto sd = si ? nif.GetHeader().GetBlock(si->dataRef) : nullptr;
			if (sd && s->IsSkinned()) {
				bool any = false;
				for (auto& b : sd->bones)
					if (!b.vertexWeights.empty())
						any = true;
				if (!any)
					noSkinDataWeights = true;
			}
		}
	OptResult res = nif.OptimizeFor(oo);
	if (res.versionMismatch)
		return run.fail("C12:version-mismatch", detail("OptimizeFor reports a version mismatch for a Skyrim model"));
	std::vector<ShapeFacts> f1 = factsOf(nif);
	std::string clause;
	// vertex colours may be removed when all are white and removeParallax is on (documented in OptResult)
	std::string err = compareFacts(f0, f1, le, clause, !res.shapesVColorsRemoved.empty(), false);
	if (!err.empty()) {
		std::string sig = "C12:" + dir + ":" + clause;
		if (clause == "weights" && unusedVerts)
			sig = "C12:" + dir + ":weights-of-unused-vertices";
		if (clause == "weights" && noSkinDataWeights)
			sig = "C12:SE->LE:weights-without-skindata-weights";
		return run.fail(sig, detail(err));
	}
	if (nodeFacts(nif) != n0)
		return run.fail("C12:" + dir + ":node-hierarchy", detail("node hierarchy changed"));
	// sibling shape names distinct
	for (auto n : nif.GetNodes()) {
		std::set<std::string> names;
		for (auto s : nif.GetChildren<NiShape>(n))
			if (!s->name.get().empty() && !names.insert(s->name.get()).second)
				return run.fail("C12:" + dir + ":sibling-names", detail("two sibling shapes are both named '" + s->name.get() + "'"));
	}
	err = partitionCoverage(nif);
	if (!err.empty())
		return run.fail("C12:" + dir + ":partitions", detail(err));

	// save + reload in the target version
	std::string bytes;
	if (saveBytes(nif, bytes, defOpts()) != 0)
		return run.fail("C12:" + dir + ":save", detail("converted model cannot be saved"));
	NifFile re;
	int rc = loadBytes(re, bytes);
	if (rc != 0)
		return run.fail("C12:" + dir + ":reload", detail("converted file rejected, rc=" + std::to_string(rc)));
	auto& rv = re.GetHeader().GetVersion();
	if (le ? !rv.IsSSE() : !rv.IsSK())
		return run.fail("C12:" + dir + ":target-version", detail("reloaded file is not in the target version"));
	std::vector<ShapeFacts> fr = factsOf(re);
	// a default save may reorder shapes: match by name
	auto byName = [](std::vector<ShapeFacts> v) {
		std::stable_sort(v.begin(), v.end(), [](const ShapeFacts& a, const ShapeFacts& b) { return a.name < b.name; });
		return v;
	};
	err = compareFacts(f1, fr, le, clause, false, false);
	if (!err.empty())
		return run.fail("C12:" + dir + ":after-reload:" + clause, detail("after save and reload: " + err));
	err = partitionCoverage(re);
	if (!err.empty())
		return run.fail("C12:" + dir + ":partitions-after-reload", detail(err));

	// there and back
	OptOptions back = oo;
	back.targetVersion = le ? NiVersion::getSK() : NiVersion::getSSE();
	back.headParts = oo.headParts;
	OptResult res2 = nif.OptimizeFor(back);
	if (res2.versionMismatch)
		return run.fail("C12:back:version-mismatch", detail("converting back reports a version mismatch"));
	std::vector<ShapeFacts> f2 = factsOf(nif);
	err = compareFacts(f1, f2, !le, clause, !res2.shapesVColorsRemoved.empty(), false);
	if (!err.empty())
		return run.fail(clause == "weights" && unusedVerts ? "C12:" + std::string(le ? "SE->LE" : "LE->SE") + ":weights-of-unused-vertices" : "C12:back:" + clause, detail("there and back: " + err));
	return OK;
}

void deterministic(Run& run, const std::function<void(const std::vector<uint8_t>&)>& feed) {
	for (uint8_t i = 0; i < 14; i++)
		for (uint8_t opts = 0; opts < 4; opts++)
			feed({0, i, static_cast<uint8_t>(opts & 1 ? 0xFF : 0), static_cast<uint8_t>(opts & 2 ? 1 : 0), 1, 1, 1});
}

} // namespace

int main(int argc, char** argv) {
	Harness h{};
	h.id = "C12";
	h.prop = prop;
	h.deterministic = deterministic;
	h.maxTape = 5000;
	h.quickCases = 6000;
	h.thoroughCases = 120000;
	h.rule = "case = (Skyrim LE or SE model: sample or generated with 1-3 shapes of every kind, optional skin (<=6 bones, every "
			 "vertex weighted), model-space shader, all-white colours, NiOptimizeKeep, duplicate sibling names, unused vertices; "
			 "option combination). Non-trivial = >=1 skinned shape or >=2 shapes; distinct = hash(tape).";
	return harnessMain(argc, argv, h);
}
