// C13 — geometry written through the API is what is read back, in every version.
//
// Domain: versions OB/FO3/SK/SSE/FO4/FO76 x generated meshes (1..65535 vertices incl. the
// limits and over-long inputs that must clamp) x one setter/getter pair.
// Oracle: immediately after CreateShapeFromData: vertices bit-exact, triangles in order,
// UVs exact. After a setter: its getter returns the value within the storage
// quantisation, the vertex count and every other per-vertex array are unchanged.
// After default save + reload: exact where the format stores floats, within half
// precision where it stores halves (FO4/FO76 positions, BSTriShape UVs), byte
// quantisation for BSTriShape normals/tangents (1/127) and colours (1/255).
#include "gen.hpp"
#include "harness.hpp"

using namespace nifly;
using namespace vf;

namespace {

struct Snap {
	uint16_t nv = 0;
	uint32_t nt = 0; // what GetNumTriangles() reports
	std::vector<Vector3> verts, normals, tangents, bitangents;
	std::vector<Vector2> uvs;
	std::vector<Color4> colors;
	std::vector<float> eye;
	std::vector<Triangle> tris;
	bool hasUvs = false, hasNormals = false, hasTangents = false, hasColors = false, hasEye = false;
};

Snap snap(NifFile& nif, NiShape* s) {
	Snap q;
	q.nv = s->GetNumVertices();
	q.nt = s->GetNumTriangles();
	nif.GetVertsForShape(s, q.verts);
	q.hasUvs = nif.GetUvsForShape(s, q.uvs);
	if (auto n = nif.GetNormalsForShape(s)) {
		q.normals = *n;
		q.hasNormals = true;
	}
	q.hasTangents = nif.GetTangentsForShape(s, q.tangents);
	nif.GetBitangentsForShape(s, q.bitangents);
	q.hasColors = nif.GetColorsForShape(s, q.colors);
	q.hasEye = NifFile::GetEyeDataForShape(s, q.eye);
	s->GetTriangles(q.tris);
	return q;
}

double halfTol(double x) {
	return std::ldexp(std::fabs(x), -11) + std::ldexp(1.0, -24);
}

template<typename V>
bool bitEqual(const std::vector<V>& a, const std::vector<V>& b) {
	return a.size() == b.size() && (a.empty() || memcmp(a.data(), b.data(), a.size() * sizeof(V)) == 0);
}

// max abs component difference
double maxDiff3(const std::vector<Vector3>& a, const std::vector<Vector3>& b) {
	double m = 0;
	for (size_t i = 0; i < a.size() && i < b.size(); i++) {
		m = std::max(m, std::fabs(double(a[i].x) - b[i].x));
		m = std::max(m, std::fabs(double(a[i].y) - b[i].y));
		m = std::max(m, std::fabs(double(a[i].z) - b[i].z));
	}
	return m;
}

const char* setters[] = {"none", "positions", "uvs", "normals", "tangents", "bitangents", "colors", "eyedata", "triangles", "bounds", "drop-uvs", "drop-normals"};

Verdict prop(Tape& t, Run& run) {
	const size_t vi = apiVersionIndices()[t.u8() % apiVersionIndices().size()];
	const VersionCfg& ver = versions()[vi];
	MeshOpts mo;
	mo.allowDegenerate = true; // a triangle with a repeated index is accepted by the API and has to come back like any other
	mo.allowLimits = true;
	mo.alwaysUvs = !t.chance(32);
	if (ver.stream >= 130)
		mo.coordRange = 64.0f;
	Mesh m = genMesh(t, mo);
	// large meshes: triangle counts at and (where the format has a 32-bit count: FO4, FO76) beyond the
	// 16-bit limit; the tape byte is read for large meshes only
	if (m.verts.size() >= 30000) {
		uint8_t tc = t.u8() % 4;
		size_t T = tc == 1 ? 65535 : tc == 2 ? 65536 : tc == 3 ? 70001 : 0;
		if (ver.stream < 130 && T > 65535)
			T = 65535;
		if (T) {
			const size_t nv = std::min<size_t>(m.verts.size(), 65535);
			m.tris.clear();
			m.tris.reserve(T);
			for (size_t i = 0; i < T; i++)
				m.tris.push_back(Triangle(static_cast<uint16_t>(i % nv), static_cast<uint16_t>((i + 1) % nv), static_cast<uint16_t>((i + 2 + i / nv) % nv)));
			run.cls(T > 65535 ? "triangles:beyond-16-bit" : "triangles:65535");
		}
	}
	const bool overlong = m.verts.size() >= 65534 && t.chance(64);
	if (overlong)
		m.verts.resize(65535 + 1 + t.u8() % 50, Vector3(1, 2, 3));
	if (overlong && !m.uvs.empty())
		m.uvs.resize(m.verts.size());
	if (overlong && !m.norms.empty())
		m.norms.resize(m.verts.size(), Vector3(0, 0, 1));
	const uint8_t setter = t.u8() % 12;

	NifFile nif;
	nif.Create(ver.ni());
	// no UVs: either no list at all or (odd vertex counts) an empty list - the second switches the
	// UV channel of a BSTriShape off, so that a later SetUvsForShape has to switch it on again
	const bool emptyUvList = m.uvs.empty() && (m.verts.size() & 1);
	if (emptyUvList)
		run.cls("created-with-an-empty-uv-list");
	NiShape* shape = nif.CreateShapeFromData("Shape", &m.verts, &m.tris, m.uvs.empty() ? (emptyUvList ? &m.uvs : nullptr) : &m.uvs, m.norms.empty() ? nullptr : &m.norms);
	const std::string kind = shape ? shape->GetBlockName() : "null";
	const std::string sigBase = std::string("C13:") + kind + "@" + ver.name;
	auto detail = [&](const std::string& what) {
		return J().s("version", ver.name).s("shape", kind).u("vertices_in", m.verts.size()).u("triangles_in", m.tris.size()).b("uvs", !m.uvs.empty()).b("normals", !m.norms.empty()).s("setter", setters[setter]).s("what", what).str();
	};
	if (!shape)
		return run.fail(sigBase + ":create", detail("CreateShapeFromData returned null"));
	run.cls(std::string("version:") + ver.name);
	run.cls(std::string("setter:") + setters[setter]);
	run.cls(m.verts.size() >= 65534 ? "verts:limit" : m.verts.size() <= 3 ? "verts:1-3" : "verts:normal");
	if (overlong)
		run.cls("verts:overlong-input");

	const size_t expectNv = std::min<size_t>(m.verts.size(), 65535);
	const bool uvsApplied = !m.uvs.empty() && m.uvs.size() == expectNv;
	const bool normsApplied = !m.norms.empty() && m.norms.size() == expectNv;
	const bool isBs = shape->HasType<BSTriShape>();

	// ---- immediately after creation
	Snap s0 = snap(nif, shape);
	if (s0.nv != expectNv)
		return run.fail(sigBase + ":vertex-count", detail("vertex count " + std::to_string(s0.nv) + ", expected " + std::to_string(expectNv)));
	{
		std::vector<Vector3> expectV(m.verts.begin(), m.verts.begin() + expectNv);
		if (!bitEqual(s0.verts, expectV))
			return run.fail(sigBase + ":vertices-immediate", detail("vertices read back differ from the input right after creation"));
	}
	if (!bitEqual(s0.tris, m.tris) && !(expectNv == 0 && s0.tris.empty()))
		return run.fail(sigBase + ":triangles-immediate", detail("triangles read back differ from the input right after creation (" + std::to_string(s0.tris.size()) + " vs " + std::to_string(m.tris.size()) + ")"));
	if (s0.nt != s0.tris.size())
		return run.fail(sigBase + ":triangle-counter", detail("GetNumTriangles() reports " + std::to_string(s0.nt) + " for " + std::to_string(s0.tris.size()) + " triangles right after creation"));
	if (uvsApplied) {
		if (!s0.hasUvs || !bitEqual(s0.uvs, m.uvs))
			return run.fail(sigBase + ":uvs-immediate", detail("UVs read back differ from the input right after creation"));
	}
	if (normsApplied && s0.hasNormals) {
		double d = maxDiff3(s0.normals, m.norms);
		run.maxi("normal-quantisation-immediate", d);
		if (s0.normals.size() != expectNv || d > (isBs ? 1.0 / 127 + 1e-6 : 0.0))
			return run.fail(sigBase + ":normals-immediate", detail("normals read back differ from the input beyond quantisation: " + std::to_string(d)));
	}

	// ---- one setter / getter pair
	Snap before = snap(nif, shape);
	std::vector<Vector3> newV3(expectNv);
	for (size_t i = 0; i < expectNv; i++) {
		float a = static_cast<float>(static_cast<int8_t>((i * 37 + 11) & 255)) / 127.0f;
		float b = static_cast<float>(static_cast<int8_t>((i * 91 + 5) & 255)) / 127.0f;
		float c = static_cast<float>(static_cast<int8_t>((i * 53 + 200) & 255)) / 127.0f;
		// components of tangent-space vectors and colours live in [-1, 1]
		newV3[i] = Vector3(std::max(-1.0f, a), std::max(-1.0f, b), std::max(-1.0f, c));
	}
	bool setterApplies = true;
	double tolByte = isBs ? 1.0 / 127 + 1e-6 : 0.0;
	switch (setter) {
		case 1: { // positions
			std::vector<Vector3> nv(expectNv);
			for (size_t i = 0; i < expectNv; i++)
				nv[i] = Vector3(newV3[i].x * 30.0f, newV3[i].y * 30.0f, newV3[i].z * 30.0f);
			nif.SetVertsForShape(shape, nv);
			Snap a = snap(nif, shape);
			if (!bitEqual(a.verts, nv))
				return run.fail(sigBase + ":set-positions", detail("SetVertsForShape/GetVertsForShape: values differ"));
			before.verts = nv;
			break;
		}
		case 2: { // uvs
			std::vector<Vector2> nu(expectNv);
			for (size_t i = 0; i < expectNv; i++)
				nu[i] = Vector2(newV3[i].x, newV3[i].y);
			nif.SetUvsForShape(shape, nu);
			Snap a = snap(nif, shape);
			if (!a.hasUvs || !bitEqual(a.uvs, nu))
				return run.fail(sigBase + ":set-uvs", detail("SetUvsForShape/GetUvsForShape: values differ"));
			before.uvs = nu;
			before.hasUvs = true;
			break;
		}
		case 3: { // normals
			std::vector<Vector3> nn(expectNv);
			for (size_t i = 0; i < expectNv; i++) {
				Vector3 v = newV3[i];
				float l = std::sqrt(v.x * v.x + v.y * v.y + v.z * v.z);
				nn[i] = l > 1e-3f ? Vector3(v.x / l, v.y / l, v.z / l) : Vector3(0, 0, 1);
			}
			nif.SetNormalsForShape(shape, nn);
			Snap a = snap(nif, shape);
			double d = maxDiff3(a.normals, nn);
			run.maxi("set-normals-error", d);
			if (!a.hasNormals || a.normals.size() != expectNv || d > tolByte)
				return run.fail(sigBase + ":set-normals", detail("SetNormalsForShape/GetNormalsForShape: error " + std::to_string(d)));
			before.normals = a.normals;
			before.hasNormals = true;
			// tangents may legitimately be recomputed / enabled by the normal setter on BSTriShape
			before.tangents = a.tangents;
			before.bitangents = a.bitangents;
			before.hasTangents = a.hasTangents;
			break;
		}
		case 4:
		case 5: { // tangents / bitangents
			if (isBs && !(before.hasNormals)) {
				// BSTriShape stores tangents only together with normals
				setterApplies = false;
				break;
			}
			if (setter == 4)
				nif.SetTangentsForShape(shape, newV3);
			else
				nif.SetBitangentsForShape(shape, newV3);
			Snap a = snap(nif, shape);
			auto& got = setter == 4 ? a.tangents : a.bitangents;
			if (!a.hasTangents && isBs) {
				setterApplies = false; // tangent flag needs UVs+normals on BSTriShape; not a data error
				break;
			}
			double d = maxDiff3(got, newV3);
			run.maxi("set-tangent-error", d);
			if (got.size() != expectNv || d > tolByte)
				return run.fail(sigBase + (setter == 4 ? ":set-tangents" : ":set-bitangents"), detail("tangent-space setter/getter: error " + std::to_string(d) + ", size " + std::to_string(got.size())));
			before.tangents = a.tangents;
			before.bitangents = a.bitangents;
			before.hasTangents = a.hasTangents;
			break;
		}
		case 6: { // colours
			std::vector<Color4> nc(expectNv);
			for (size_t i = 0; i < expectNv; i++)
				nc[i] = Color4(((i * 7) % 256) / 255.0f, ((i * 13) % 256) / 255.0f, ((i * 29) % 256) / 255.0f, ((i * 3) % 256) / 255.0f);
			nif.SetColorsForShape(shape, nc);
			Snap a = snap(nif, shape);
			double d = 0;
			for (size_t i = 0; i < expectNv && i < a.colors.size(); i++) {
				d = std::max(d, std::fabs(double(a.colors[i].r) - nc[i].r));
				d = std::max(d, std::fabs(double(a.colors[i].g) - nc[i].g));
				d = std::max(d, std::fabs(double(a.colors[i].b) - nc[i].b));
				d = std::max(d, std::fabs(double(a.colors[i].a) - nc[i].a));
			}
			run.maxi("set-colour-error", d);
			if (!a.hasColors || a.colors.size() != expectNv || d > (isBs ? 1.0 / 255 + 1e-6 : 0.0))
				return run.fail(sigBase + ":set-colors", detail("SetColorsForShape/GetColorsForShape: error " + std::to_string(d)));
			before.colors = a.colors;
			before.hasColors = true;
			break;
		}
		case 7: { // eye data (BSTriShape only)
			if (!isBs) {
				setterApplies = false;
				break;
			}
			std::vector<float> ne(expectNv);
			for (size_t i = 0; i < expectNv; i++)
				ne[i] = newV3[i].x;
			NifFile::SetEyeDataForShape(shape, ne);
			Snap a = snap(nif, shape);
			if (!a.hasEye || !bitEqual(a.eye, ne))
				return run.fail(sigBase + ":set-eyedata", detail("SetEyeDataForShape/GetEyeDataForShape: values differ"));
			before.eye = ne;
			before.hasEye = true;
			break;
		}
		case 8: { // triangles
			std::vector<Triangle> nt = before.tris;
			std::reverse(nt.begin(), nt.end());
			for (auto& tr : nt)
				std::swap(tr.p1, tr.p3);
			shape->SetTriangles(nt);
			Snap a = snap(nif, shape);
			if (!bitEqual(a.tris, nt))
				return run.fail(sigBase + ":set-triangles", detail("SetTriangles/GetTriangles: values differ"));
			before.tris = nt;
			break;
		}
		case 9: { // bounds
			BoundingSphere b;
			b.center = Vector3(1.5f, -2.25f, 3.0f);
			b.radius = 42.0f;
			shape->SetBounds(b);
			BoundingSphere g = shape->GetBounds();
			if (memcmp(&g.center, &b.center, sizeof(Vector3)) != 0 || g.radius != b.radius)
				return run.fail(sigBase + ":set-bounds", detail("SetBounds/GetBounds: values differ"));
			break;
		}
		case 10:
		case 11: { // switch an optional per-vertex channel off (BSTriShape vertex layout changes)
			if (!isBs) {
				setterApplies = false;
				break;
			}
			auto bs = static_cast<BSTriShape*>(shape);
			if (setter == 10)
				bs->SetUVs(false);
			else
				bs->SetNormals(false);
			Snap a = snap(nif, shape);
			if (setter == 10 ? a.hasUvs : a.hasNormals)
				return run.fail(sigBase + ":drop-channel", detail("channel still reported after it was switched off"));
			// the switched-off channel (and what depends on it) is gone; everything else must be as before
			before.uvs = a.uvs;
			before.hasUvs = a.hasUvs;
			before.normals = a.normals;
			before.hasNormals = a.hasNormals;
			before.tangents = a.tangents;
			before.bitangents = a.bitangents;
			before.hasTangents = a.hasTangents;
			break;
		}
		default: break;
	}
	if (!setterApplies)
		run.cls("setter-not-applicable-to-shape-kind");
	// nothing else was resized or changed
	Snap after = snap(nif, shape);
	if (after.nt != after.tris.size())
		return run.fail(sigBase + ":triangle-counter", detail("GetNumTriangles() reports " + std::to_string(after.nt) + " for " + std::to_string(after.tris.size()) + " triangles after the setter"));
	if (after.nv != expectNv)
		return run.fail(sigBase + ":setter-changed-vertex-count", detail("vertex count changed to " + std::to_string(after.nv)));
	auto sizeOk = [&](size_t n, bool has) { return !has || n == expectNv; };
	if (after.verts.size() != expectNv || !sizeOk(after.uvs.size(), after.hasUvs) || !sizeOk(after.normals.size(), after.hasNormals)
		|| !sizeOk(after.tangents.size(), after.hasTangents) || !sizeOk(after.colors.size(), after.hasColors))
		return run.fail(sigBase + ":array-size", detail("a per-vertex array does not have the vertex count after setter"));
	if (!bitEqual(after.verts, before.verts) || !bitEqual(after.uvs, before.uvs) || !bitEqual(after.tris, before.tris) || !bitEqual(after.colors, before.colors)
		|| !bitEqual(after.normals, before.normals) || !bitEqual(after.eye, before.eye))
		return run.fail(sigBase + ":setter-side-effect", detail("a setter changed another array"));

	// ---- save + reload
	std::string bytes;
	if (saveBytes(nif, bytes, defOpts()) != 0)
		return run.fail(sigBase + ":save", detail("default save failed"));
	NifFile re;
	int rc = loadBytes(re, bytes);
	if (rc != 0)
		return run.fail(sigBase + ":reload", detail("saved file rejected, rc=" + std::to_string(rc)));
	auto shapes = re.GetShapes();
	if (shapes.size() != 1)
		return run.fail(sigBase + ":reload-shape-count", detail("reloaded file has " + std::to_string(shapes.size()) + " shapes"));
	Snap r = snap(re, shapes[0]);
	if (expectNv >= 3 && !after.tris.empty()) {
		uint64_t h = meshHash(m);
		h = hash_mix(h, vi);
		run.nontriv(hash_mix(h, setter));
	}
	if (run.wantSample())
		run.sample(detail("sample"));
	if (r.nv != expectNv)
		return run.fail(sigBase + ":reload-vertex-count", detail("vertex count after reload " + std::to_string(r.nv)));
	const bool halfPos = isBs && ver.stream >= 130 && !static_cast<BSTriShape*>(shape)->IsFullPrecision();
	if (!halfPos) {
		if (!bitEqual(r.verts, after.verts))
			return run.fail(sigBase + ":reload-vertices", detail("vertices differ after save and reload (format stores floats)"));
	}
	else {
		run.cls("half-precision-positions");
		for (size_t i = 0; i < expectNv; i++) {
			const float* a = &after.verts[i].x;
			const float* b = &r.verts[i].x;
			for (int k = 0; k < 3; k++) {
				double d = std::fabs(double(a[k]) - b[k]);
				run.maxi("half-position-relative-error", a[k] != 0 ? d / std::fabs(a[k]) : 0);
				if (d > halfTol(a[k]))
					return run.fail(sigBase + ":reload-vertices-half", detail("position differs beyond half precision: " + std::to_string(a[k]) + " -> " + std::to_string(b[k])));
			}
		}
	}
	if (!bitEqual(r.tris, after.tris))
		return run.fail(sigBase + ":reload-triangles", detail("triangles differ after save and reload"));
	if (r.nt != r.tris.size())
		return run.fail(sigBase + ":reload-triangle-counter", detail("after reload GetNumTriangles() reports " + std::to_string(r.nt) + " for " + std::to_string(r.tris.size()) + " triangles"));
	if (after.hasUvs) {
		if (!r.hasUvs || r.uvs.size() != expectNv)
			return run.fail(sigBase + ":reload-uvs", detail("UVs missing after reload"));
		for (size_t i = 0; i < expectNv; i++) {
			double du = std::fabs(double(r.uvs[i].u) - after.uvs[i].u), dv = std::fabs(double(r.uvs[i].v) - after.uvs[i].v);
			double tu = isBs ? halfTol(after.uvs[i].u) : 0.0, tv = isBs ? halfTol(after.uvs[i].v) : 0.0;
			if (du > tu || dv > tv)
				return run.fail(sigBase + ":reload-uvs", detail("UV differs after reload beyond storage precision at vertex " + std::to_string(i)));
		}
	}
	if (after.hasNormals) {
		double d = maxDiff3(r.normals, after.normals);
		if (!r.hasNormals || r.normals.size() != expectNv || d > (isBs ? 1.0 / 127 + 1e-6 : 0.0))
			return run.fail(sigBase + ":reload-normals", detail("normals differ after reload: " + std::to_string(d)));
	}
	if (after.hasTangents && !after.hasNormals)
		run.cls("tangents-without-normals (the formats store tangent space only inside the normals section)");
	if (after.hasTangents && after.hasNormals) {
		// tangent-space arrays survive the reload (Oblivion keeps them in a binary extra-data block,
		// FO3+ inside the geometry data, BSTriShape byte-quantised in the vertex records)
		double dt = maxDiff3(r.tangents, after.tangents), db = maxDiff3(r.bitangents, after.bitangents);
		run.maxi("reload-tangent-error", std::max(dt, db));
		run.cls("reload-compared:tangents");
		if (!r.hasTangents || r.tangents.size() != expectNv || r.bitangents.size() != expectNv)
			return run.fail(sigBase + ":reload-tangents", detail("tangents/bitangents missing or of the wrong size after reload: " + std::to_string(r.tangents.size()) + "/" + std::to_string(r.bitangents.size())));
		if (dt > (isBs ? 1.0 / 127 + 1e-6 : 0.0) || db > (isBs ? 1.0 / 127 + 1e-6 : 0.0))
			return run.fail(sigBase + ":reload-tangents", detail("tangents/bitangents differ after reload: " + std::to_string(dt) + " / " + std::to_string(db)));
	}
	if (after.hasEye) {
		run.cls("reload-compared:eyedata");
		if (!r.hasEye || !bitEqual(r.eye, after.eye))
			return run.fail(sigBase + ":reload-eyedata", detail("eye data missing or different after reload"));
	}
	if (setter == 9) {
		BoundingSphere g = shapes[0]->GetBounds(), b = shape->GetBounds();
		run.cls("reload-compared:bounds");
		if (memcmp(&g.center, &b.center, sizeof(Vector3)) != 0 || g.radius != b.radius)
			return run.fail(sigBase + ":reload-bounds", detail("bounds differ after reload"));
	}
	if (after.hasColors && setter == 6) {
		double d = 0;
		for (size_t i = 0; i < expectNv && i < r.colors.size(); i++)
			d = std::max(d, std::fabs(double(r.colors[i].r) - after.colors[i].r));
		if (!r.hasColors || r.colors.size() != expectNv || d > 1.0 / 255 + 1e-6)
			return run.fail(sigBase + ":reload-colors", detail("colours differ after reload: " + std::to_string(d)));
	}
	return OK;
}

void deterministic(Run& run, const std::function<void(const std::vector<uint8_t>&)>& feed) {
	// every version x every setter x a few structured meshes (tiny, small, limit sizes)
	for (uint8_t v = 0; v < 6; v++)
		for (uint8_t setter = 0; setter < 12; setter++)
			for (uint8_t cls : {0x00, 0x01, 0x02, 0x40, 0xC0}) {
				std::vector<uint8_t> tape = {v, 0x80 /*uvs*/, cls};
				tape.resize(200, static_cast<uint8_t>(0x35 + setter * 7 + v));
				tape.push_back(setter);
				feed(tape);
			}
	for (uint8_t v = 0; v < 6; v++)
		for (uint8_t cls : {0xF8, 0xF9}) // 65534 / 65535 vertices
			for (uint8_t fill : {0x20, 0x21, 0x22, 0x23}) { // few / 65535 / 65536 / 70001 triangles
				std::vector<uint8_t> tape = {v, 0x80, cls};
				tape.resize(400, fill);
				feed(tape);
			}
}

} // namespace

int main(int argc, char** argv) {
	Harness h{};
	h.id = "C13";
	h.prop = prop;
	h.deterministic = deterministic;
	h.maxTape = 4000;
	h.quickCases = 30000;
	h.thoroughCases = 300000;
	h.rule = "case = (version in OB/FO3/SK/SSE/FO4/FO76, generated mesh: 1..65535 vertices incl. limits and over-long "
			 "inputs, valid distinct triangles, optional UVs/normals, one setter/getter pair); checked immediately, after "
			 "the setter and after default save + reload with the format's quantisation as tolerance. Non-trivial = >=3 "
			 "vertices, >=1 triangle and the save/reload was compared; distinct = hash(mesh, version, setter).";
	return harnessMain(argc, argv, h);
}
