// C19 — texture path clean-up is canonical and idempotent.
//
// Statement: after loading, and after every explicit clean-up, each texture path of
// every shape is in canonical form (no surrounding whitespace, single backslashes
// only, nothing before the textures folder, a "textures\" prefix on relative paths
// for the games that need it and the "Data\" prefix for terrain, blank -> empty);
// cleaning an already clean path changes nothing; the clean-up never throws or loops
// for any path of realistic length (a few KB of arbitrary bytes).
//
// Domain: path string x version class {OB, FO3, SK+ = SK/SSE/FO4} x terrain flag x
// slot kind {texture-set entry i, NiSourceTexture behind NiTexturingProperty slot j
// (OB, FO3), one of the five BSEffectShaderProperty paths (SK+)} x entry point
// {explicit TrimTexturePaths(), implicit via save -> Load()}.
//
// Oracles (none of them uses std::regex or any nifly code):
//  (1) canonical-form predicate on every path GetTexturePathRefs reports, clause by clause;
//  (2) idempotence: a second clean-up (explicit, or another save -> Load) changes nothing;
//      and an input that already satisfies (1) is left unchanged by the first clean-up;
//  (3) differential against spec(): a hand-written, regex-free implementation of the
//      pipeline documented by the comments in TrimTexturePaths (trim; every run of
//      '/' and '\' -> one '\'; unless the path starts with "textures\" drop everything
//      up to and including the first "\textures\"; drop leading '\'; add "textures\"
//      (not OB) and "Data\" (terrain) to relative paths);
//      applied where that pipeline itself yields a canonical fixed point;
//  (4) no exception escapes; a single case running > 60 s is reported as a hang.
// A failing case is given a root-cause signature (so that the runner, which suppresses a
// signature once reported, can get past one cause to the next) only when the library's output
// is exactly what the documented pipeline plus its two known quirks would produce and the
// failing clause matches that cause: C19:double-backslash, C19:blank-exposed,
// C19:terrain-not-idempotent, C19:effect-shader-not-cleaned, C19:newline-blocks-strip,
// C19:ob-nested-textures. Everything else keeps the generic C19:predicate:<clause> /
// C19:idempotence / C19:clean-input-changed / C19:diff / C19:exception signature.
#include "harness.hpp"
#include "nifx.hpp"

#include <csignal>
#include <filesystem>

using namespace nifly;
using namespace vf;

namespace {

// ------------------------------------------------------------------ case description

enum VClass { V_OB = 0, V_FO3 = 1, V_SKP = 2 };
enum Kind { K_TEXSET = 0, K_SOURCE = 1, K_EFFECT = 2 };
enum Entry { E_EXPLICIT = 0, E_LOAD = 1 };

const char* const kTokens[] = {"\\", "/", " ", "\t", ".", "a", "textures", "Textures", "data", "C:", "\n"};
constexpr unsigned kNumTokens = 11;
constexpr size_t kMaxPath = 4096;
constexpr uint8_t kEnumMarker = 0xFE;

struct Case {
	int vclass = V_OB;
	int sub = 0; // SK+ only: 0 SK, 1 SSE, 2 FO4
	bool terrain = false;
	int entry = E_EXPLICIT;
	bool secondReload = false; // load entry: second pass through another save -> Load instead of TrimTexturePaths()
	int kind = K_TEXSET;
	int idx = 0;
	std::string path;
	const char* gen = "tokens";
};

const char* versionNameOf(const Case& c) {
	if (c.vclass == V_OB)
		return "OB";
	if (c.vclass == V_FO3)
		return "FO3";
	return c.sub == 0 ? "SK" : c.sub == 1 ? "SSE" : "FO4";
}

const VersionCfg& versionOf(const Case& c) {
	const char* n = versionNameOf(c);
	for (auto& v : versions())
		if (std::string(v.name) == n)
			return v;
	return versions()[0];
}

const char* kindName(int k) {
	return k == K_TEXSET ? "texset" : k == K_SOURCE ? "source-texture" : "effect-shader";
}

// ------------------------------------------------------------------ independent string helpers

bool isWs(char ch) {
	return ch == ' ' || ch == '\t' || ch == '\n' || ch == '\v' || ch == '\f' || ch == '\r';
}
char lowerAscii(char ch) {
	return (ch >= 'A' && ch <= 'Z') ? static_cast<char>(ch - 'A' + 'a') : ch;
}
// case-insensitive (ASCII) "s has lit at position at"
bool hasAtI(const std::string& s, size_t at, const char* lit) {
	size_t n = strlen(lit);
	if (at > s.size() || s.size() - at < n)
		return false;
	for (size_t i = 0; i < n; i++)
		if (lowerAscii(s[at + i]) != lowerAscii(lit[i]))
			return false;
	return true;
}
size_t findI(const std::string& s, const char* lit, size_t from = 0) {
	size_t n = strlen(lit);
	for (size_t i = from; i + n <= s.size(); i++)
		if (hasAtI(s, i, lit))
			return i;
	return std::string::npos;
}
std::string trimmed(const std::string& s) {
	size_t i = 0, j = s.size();
	while (i < j && isWs(s[i]))
		i++;
	while (j > i && isWs(s[j - 1]))
		j--;
	return s.substr(i, j - i);
}
bool isSep(char ch) {
	return ch == '/' || ch == '\\';
}
std::string collapseSeparators(const std::string& s) {
	std::string o;
	size_t i = 0;
	while (i < s.size()) {
		if (isSep(s[i])) {
			o.push_back('\\');
			while (i < s.size() && isSep(s[i]))
				i++;
		}
		else
			o.push_back(s[i++]);
	}
	return o;
}
// "relative" = the platform's notion (statement; see is_relative_path in NifUtil.hpp)
bool relativePath(const std::string& s) {
	try {
		return std::filesystem::path(s).is_relative();
	}
	catch (...) {
		return false;
	}
}

// Each maximal run of '/' and each maximal run of '\' becomes one backslash, runs taken
// separately: what the rule `/+|\\+` does to a mixed run such as "\/" (two backslashes).
std::string collapseHomogeneousRuns(const std::string& s) {
	std::string o;
	size_t i = 0;
	while (i < s.size()) {
		if (isSep(s[i])) {
			char k = s[i];
			o.push_back('\\');
			while (i < s.size() && s[i] == k)
				i++;
		}
		else
			o.push_back(s[i++]);
	}
	return o;
}

// The documented pipeline, one application. Regex-free.
// quirks == false: the statement's reading (any run of separators -> one backslash; anything may
//   precede "\textures\" and is dropped). This is the expected value of the differential oracle.
// quirks == true: additionally reproduces the two known deviations of the implementation (mixed
//   separator runs, '.' not matching line terminators). Used ONLY to name the root cause of a
//   failure that has already been established against the statement, never to excuse one.
std::string spec(const std::string& in, bool isOB, bool terrain, bool quirks = false) {
	if (in.empty())
		return in;
	std::string p = trimmed(in);
	if (p.empty())
		return p;
	p = quirks ? collapseHomogeneousRuns(p) : collapseSeparators(p);
	if (!hasAtI(p, 0, "textures\\")) {
		size_t k = findI(p, "\\textures\\");
		if (k != std::string::npos) {
			bool blocked = false;
			if (quirks)
				for (size_t i = 0; i < k; i++)
					if (p[i] == '\n' || p[i] == '\r')
						blocked = true;
			if (!blocked)
				p = p.substr(k + 10);
		}
	}
	size_t b = 0;
	while (b < p.size() && p[b] == '\\')
		b++;
	p = p.substr(b);
	if (!isOB && relativePath(p) && !hasAtI(p, 0, "textures\\"))
		p = "textures\\" + p;
	if (terrain && relativePath(p) && !hasAtI(p, 0, "Data\\"))
		p = "Data\\" + p;
	return p;
}

// Canonical-form predicate; returns the name of the first violated clause or nullptr.
const char* violatedClause(const std::string& out, bool isOB, bool terrain) {
	if (out.empty())
		return nullptr;
	if (isWs(out.front()))
		return "leading-whitespace";
	if (isWs(out.back()))
		return "trailing-whitespace";
	if (out.find('/') != std::string::npos)
		return "forward-slash";
	if (out.find("\\\\") != std::string::npos)
		return "double-backslash";
	if (out.front() == '\\')
		return "leading-backslash";
	const bool rel = relativePath(out);
	std::string q = out;
	if (terrain) {
		if (rel && !hasAtI(out, 0, "Data\\"))
			return "data-prefix-missing";
		if (hasAtI(out, 0, "Data\\"))
			q = out.substr(5);
	}
	if (!isOB && rel && !hasAtI(q, 0, "textures\\"))
		return "textures-prefix-missing";
	if (!hasAtI(q, 0, "textures\\") && findI(q, "\\textures\\") != std::string::npos)
		return "prefix-before-textures";
	return nullptr;
}

// ------------------------------------------------------------------ model construction

TexDesc* texDescOf(NiTexturingProperty* tp, int idx, bool** has) {
	switch (idx % 10) {
		case 0: *has = &tp->hasBaseTex; return &tp->baseTex;
		case 1: *has = &tp->hasDarkTex; return &tp->darkTex;
		case 2: *has = &tp->hasDetailTex; return &tp->detailTex;
		case 3: *has = &tp->hasGlossTex; return &tp->glossTex;
		case 4: *has = &tp->hasGlowTex; return &tp->glowTex;
		case 5: *has = &tp->hasBumpTex; return &tp->bumpTex;
		case 6: *has = &tp->hasDecalTex0; return &tp->decalTex0;
		case 7: *has = &tp->hasDecalTex1; return &tp->decalTex1;
		case 8: *has = &tp->hasDecalTex2; return &tp->decalTex2;
		default: *has = &tp->hasDecalTex3; return &tp->decalTex3;
	}
}
const char* const kSourceSlotNames[] = {"base", "dark", "detail", "gloss", "glow", "bump", "decal0", "decal1", "decal2", "decal3"};
const char* const kEffectSlotNames[] = {"sourceTexture", "normalTexture", "greyscaleTexture", "envMapTexture", "envMaskTexture"};

// Effect-shader fields that are part of the file format of the version (others exist in memory only)
bool effectFieldSerialised(const Case& c) {
	int f = c.idx % 5;
	if (f == 0 || f == 2)
		return true;
	return c.sub == 2; // stream >= 130
}

bool buildModel(NifFile& nif, const Case& c) {
	nif.Create(versionOf(c).ni());
	std::vector<Vector3> verts = {Vector3(0.0f, 0.0f, 0.0f), Vector3(1.0f, 0.0f, 0.0f), Vector3(0.0f, 1.0f, 0.0f)};
	std::vector<Triangle> tris = {Triangle(0, 1, 2)};
	std::vector<Vector2> uvs = {Vector2(0.0f, 0.0f), Vector2(1.0f, 0.0f), Vector2(0.0f, 1.0f)};
	NiShape* shape = nif.CreateShapeFromData("s", &verts, &tris, &uvs, nullptr);
	if (!shape)
		return false;
	auto& hdr = nif.GetHeader();
	if (c.kind == K_EFFECT) {
		nif.DeleteShader(shape);
		auto eff = std::make_unique<BSEffectShaderProperty>();
		shape->ShaderPropertyRef()->index = hdr.AddBlock(std::move(eff));
	}
	else if (c.kind == K_SOURCE) {
		// what real OB (and some FO3) files look like: NiTexturingProperty -> NiSourceTexture, no BS shader
		nif.DeleteShader(shape);
		auto src = std::make_unique<NiSourceTexture>();
		uint32_t srcId = hdr.AddBlock(std::move(src));
		auto tp = std::make_unique<NiTexturingProperty>();
		tp->textureCount = 12; // every has* flag is part of the file
		bool* has = nullptr;
		TexDesc* d = texDescOf(tp.get(), c.idx, &has);
		*has = true;
		d->sourceRef.index = srcId;
		uint32_t tpId = hdr.AddBlock(std::move(tp));
		shape->propertyRefs.AddBlockRef(tpId);
	}
	return true;
}

// The string the case is about, found again in any (re)loaded copy of the model
std::string* locateSlot(NifFile& nif, const Case& c, NiShape** shapeOut) {
	auto shapes = nif.GetShapes();
	if (shapes.empty())
		return nullptr;
	NiShape* shape = shapes.front();
	*shapeOut = shape;
	auto& hdr = nif.GetHeader();
	if (c.kind == K_TEXSET) {
		NiShader* shader = nif.GetShader(shape);
		if (!shader)
			return nullptr;
		auto ts = hdr.GetBlock(shader->TextureSetRef());
		if (!ts || ts->textures.size() == 0)
			return nullptr;
		return &ts->textures[static_cast<uint32_t>(c.idx) % ts->textures.size()].get();
	}
	if (c.kind == K_EFFECT) {
		auto eff = dynamic_cast<BSEffectShaderProperty*>(nif.GetShader(shape));
		if (!eff)
			return nullptr;
		switch (c.idx % 5) {
			case 0: return &eff->sourceTexture.get();
			case 1: return &eff->normalTexture.get();
			case 2: return &eff->greyscaleTexture.get();
			case 3: return &eff->envMapTexture.get();
			default: return &eff->envMaskTexture.get();
		}
	}
	NiTexturingProperty* tp = nif.GetTexturingProperty(shape);
	if (!tp)
		return nullptr;
	bool* has = nullptr;
	TexDesc* d = texDescOf(tp, c.idx, &has);
	if (!*has)
		return nullptr;
	auto src = hdr.GetBlock(d->sourceRef);
	return src ? &src->fileName.get() : nullptr;
}

// ------------------------------------------------------------------ path generation

const char* const kWs[] = {" ", "\t", "\n", "\r", "\v", "\f", "  ", "\r\n"};
const char* const kPrefixes[] = {"", "C:\\", "c:/", "\\\\server\\share\\", "//server/share/", "/", "\\", "..\\", "./", "Data\\", "data/",
								 "D:", "C:\\Games\\Skyrim\\Data\\", "/home/u/Data/"};
const char* const kComponents[] = {"textures", "Textures", "TEXTURES", "data", "Data", "meshes", "a", "b.dds", "landscape", " ", ".", "..",
								   "tex tures", "textures ", " textures", "white.dds", "\xe4\xf6\xfc", "x\ny", "x\ry", "texture", "textures2", "\xff\xfe"};
const char* const kSeps[] = {"\\", "/", "\\\\", "//", "\\/", "/\\", "\\ \\", "", "\\\\\\", "/\\/"};
template<size_t N>
const char* pickOf(Tape& t, const char* const (&arr)[N]) {
	return arr[t.range(0, static_cast<uint32_t>(N - 1))];
}

void appendToken(Tape& t, std::string& p) {
	unsigned sel = t.u8();
	if (sel < 120)
		p += kTokens[sel % kNumTokens];
	else if (sel < 170)
		p += pickOf(t, kComponents);
	else if (sel < 200)
		p += pickOf(t, kSeps);
	else if (sel < 220)
		p += pickOf(t, kWs);
	else if (sel < 235)
		p += pickOf(t, kPrefixes);
	else {
		unsigned n = t.range(1, 16);
		for (unsigned i = 0; i < n; i++) {
			uint8_t b = t.u8();
			p.push_back(b ? static_cast<char>(b) : '\\'); // NUL-free: NiString truncates at NUL on reload
		}
	}
}

void generatePath(Tape& t, Case& c) {
	std::string& p = c.path;
	unsigned mode = t.u8() % 5;
	switch (mode) {
		case 0: { // the small alphabet of the exhaustive part, up to 8 tokens
			c.gen = "tokens";
			unsigned n = t.range(0, 8);
			for (unsigned i = 0; i < n; i++)
				p += kTokens[t.range(0, kNumTokens - 1)];
			break;
		}
		case 1: { // path-shaped: whitespace, drive/UNC prefix, components, (mixed) separator runs
			c.gen = "structured";
			unsigned lw = t.count(3);
			for (unsigned i = 0; i < lw && i < 3; i++)
				p += pickOf(t, kWs);
			p += pickOf(t, kPrefixes);
			unsigned n = t.range(0, 6);
			for (unsigned i = 0; i < n; i++) {
				p += pickOf(t, kComponents);
				if (i + 1 < n || t.coin())
					p += pickOf(t, kSeps);
			}
			unsigned tw = t.count(3);
			for (unsigned i = 0; i < tw && i < 3; i++)
				p += pickOf(t, kWs);
			break;
		}
		case 2: { // arbitrary bytes (non-UTF-8 included), as many as the tape still holds, at most 4096
			c.gen = "bytes";
			size_t want = t.range(0, kMaxPath);
			size_t have = t.size() > t.pos() ? t.size() - t.pos() : 0;
			size_t n = want < have ? want : have;
			for (size_t i = 0; i < n; i++) {
				uint8_t b = t.u8();
				p.push_back(b ? static_cast<char>(b) : '\\');
			}
			break;
		}
		case 3: { // tokens, dictionary words and byte runs spliced together
			c.gen = "spliced";
			unsigned n = t.range(0, 12);
			for (unsigned i = 0; i < n; i++)
				appendToken(t, p);
			break;
		}
		default: { // long and repetitive: stresses the recursive regex executor (<= 4 KB)
			c.gen = "long";
			std::string unit;
			unsigned un = t.range(1, 3);
			for (unsigned i = 0; i < un; i++)
				appendToken(t, unit);
			if (unit.empty())
				unit = "a";
			size_t target = t.range(0, kMaxPath);
			unsigned where = t.u8() % 4; // 0: no marker, 1: front, 2: middle, 3: end
			std::string marker = std::string(pickOf(t, kSeps)) + pickOf(t, kComponents) + pickOf(t, kSeps) + "a";
			std::string body;
			while (body.size() + unit.size() <= target)
				body += unit;
			if (where == 1)
				p = marker + body;
			else if (where == 2)
				p = body.substr(0, body.size() / 2) + marker + body.substr(body.size() / 2);
			else if (where == 3)
				p = body + marker;
			else
				p = body;
			break;
		}
	}
	if (p.size() > kMaxPath)
		p.resize(kMaxPath);
}

Case decodeCase(Tape& t) {
	Case c;
	uint8_t b0 = t.u8();
	if (b0 == kEnumMarker) {
		// enumerated: config byte, kind/index byte, length, token indices
		uint8_t cfg = t.u8();
		c.vclass = (cfg & 3) % 3;
		c.terrain = (cfg >> 2) & 1;
		c.entry = (cfg >> 3) & 1;
		c.secondReload = (cfg >> 4) & 1;
		c.sub = ((cfg >> 5) & 3) % 3;
		uint8_t ki = t.u8();
		c.kind = (ki >> 6) % 3;
		c.idx = ki & 63;
		unsigned n = t.u8();
		for (unsigned i = 0; i < n && i < 16; i++)
			c.path += kTokens[t.u8() % kNumTokens];
		c.gen = "enumerated";
	}
	else {
		c.vclass = b0 % 3;
		c.sub = (b0 / 3) % 3;
		uint8_t f = t.u8();
		c.terrain = f & 1;
		c.entry = (f >> 1) & 1;
		c.secondReload = (f >> 2) & 1;
		uint8_t ki = t.u8();
		c.kind = (ki & 1) ? K_SOURCE : K_TEXSET; // "the other kind" is fixed up below
		c.idx = ki >> 1;
		generatePath(t, c);
	}
	// legal combinations only
	if (c.vclass == V_SKP && c.kind == K_SOURCE)
		c.kind = K_EFFECT;
	if (c.vclass != V_SKP && c.kind == K_EFFECT)
		c.kind = K_SOURCE;
	if (c.kind == K_EFFECT) {
		c.idx %= 5;
		// a field that the version does not store cannot go through a file: use FO4, which stores all five
		if (c.entry == E_LOAD && !effectFieldSerialised(c))
			c.sub = 2;
	}
	if (c.kind == K_SOURCE)
		c.idx %= 10;
	// Inline strings (file version < 20.1.0.3) are read through a 2 KB buffer: longer
	// NiSourceTexture names cannot come out of an OB file, so such a path can only be
	// given to the explicit entry point.
	if (c.kind == K_SOURCE && c.vclass == V_OB && c.path.size() > 2000) {
		c.entry = E_EXPLICIT;
		c.secondReload = false;
	}
	if (c.entry == E_EXPLICIT)
		c.secondReload = false;
	return c;
}

// ------------------------------------------------------------------ the property

volatile sig_atomic_t gWatchdogArmed = 0;
void onAlarm(int) {
	static const char msg[] = "\nSUMMARY: C19: hang TrimTexturePaths did not finish one case within 60 s\n";
	ssize_t w = write(2, msg, sizeof msg - 1);
	(void) w;
	_exit(88);
}

struct Outcome {
	std::string out1, out2;
	std::string error; // non-empty: machinery/exception problem, see errSig
	std::string errSig;
	const char* badClauseOther = nullptr; // predicate violated on a path other than the slot
	std::string badOther;
	double cleanMs = 0;
};

// every path the library reports for every shape must be canonical, the slot must be among them
void scanAllPaths(NifFile& nif, const Case& c, const std::string* slot, Outcome& o) {
	bool isOB = c.vclass == V_OB;
	bool found = false;
	for (auto shape : nif.GetShapes())
		for (auto& ref : nif.GetTexturePathRefs(shape)) {
			std::string& s = ref.get();
			if (&s == slot) {
				found = true;
				continue;
			}
			const char* cl = violatedClause(s, isOB, c.terrain);
			if (cl && !o.badClauseOther) {
				o.badClauseOther = cl;
				o.badOther = s;
			}
		}
	if (!found && o.error.empty()) {
		o.error = "slot is not among GetTexturePathRefs()";
		o.errSig = "C19:slot-not-enumerated";
	}
}

double msSince(std::chrono::steady_clock::time_point t0) {
	return std::chrono::duration<double, std::milli>(std::chrono::steady_clock::now() - t0).count();
}

Outcome execute(const Case& c) {
	Outcome o;
	auto fail = [&](const char* sig, const std::string& what) {
		if (o.error.empty()) {
			o.errSig = sig;
			o.error = what;
		}
	};
	try {
		NifFile nif;
		NiShape* shape = nullptr;
		if (c.entry == E_EXPLICIT && !c.terrain) {
			if (!buildModel(nif, c)) {
				fail("C19:harness:model", "CreateShapeFromData returned null");
				return o;
			}
			std::string* slot = locateSlot(nif, c, &shape);
			if (!slot) {
				fail("C19:harness:model", "slot not found in the created model");
				return o;
			}
			*slot = c.path;
			auto t0 = std::chrono::steady_clock::now();
			nif.TrimTexturePaths();
			o.cleanMs = msSince(t0);
			o.out1 = *slot;
			scanAllPaths(nif, c, slot, o);
			nif.TrimTexturePaths();
			o.out2 = *slot;
			return o;
		}

		// everything else goes through a file: the terrain flag can only be set by Load
		if (!buildModel(nif, c)) {
			fail("C19:harness:model", "CreateShapeFromData returned null");
			return o;
		}
		std::string* slot0 = locateSlot(nif, c, &shape);
		if (!slot0) {
			fail("C19:harness:model", "slot not found in the created model");
			return o;
		}
		if (c.entry == E_LOAD)
			*slot0 = c.path;
		std::string bytes;
		if (saveBytes(nif, bytes, rawOpts()) != 0) {
			fail("C19:harness:save", "raw save of the model failed");
			return o;
		}
		NifFile nif2;
		auto t0 = std::chrono::steady_clock::now();
		int rc = loadBytes(nif2, bytes, c.terrain);
		double loadMs = msSince(t0);
		if (rc != 0) {
			fail("C19:harness:load", "Load of the saved model returned " + std::to_string(rc));
			return o;
		}
		std::string* slot = locateSlot(nif2, c, &shape);
		if (!slot) {
			fail("C19:harness:load", "slot not found after reload");
			return o;
		}
		if (c.entry == E_EXPLICIT) {
			// terrain + explicit: Load cleaned the (empty) paths, now the caller assigns one and cleans up
			*slot = c.path;
			auto t1 = std::chrono::steady_clock::now();
			nif2.TrimTexturePaths();
			o.cleanMs = msSince(t1);
			o.out1 = *slot;
			scanAllPaths(nif2, c, slot, o);
			nif2.TrimTexturePaths();
			o.out2 = *slot;
			return o;
		}
		o.cleanMs = loadMs;
		o.out1 = *slot;
		scanAllPaths(nif2, c, slot, o);
		if (!c.secondReload) {
			nif2.TrimTexturePaths();
			o.out2 = *slot;
			return o;
		}
		std::string bytes2;
		if (saveBytes(nif2, bytes2, rawOpts()) != 0) {
			fail("C19:harness:save", "raw save of the reloaded model failed");
			return o;
		}
		NifFile nif3;
		rc = loadBytes(nif3, bytes2, c.terrain);
		if (rc != 0) {
			fail("C19:harness:load", "second Load returned " + std::to_string(rc));
			return o;
		}
		std::string* slot3 = locateSlot(nif3, c, &shape);
		if (!slot3) {
			fail("C19:harness:load", "slot not found after second reload");
			return o;
		}
		o.out2 = *slot3;
		return o;
	}
	catch (const std::exception& e) {
		o.errSig = "C19:exception";
		o.error = std::string("exception escaped: ") + e.what();
	}
	catch (...) {
		o.errSig = "C19:exception";
		o.error = "non-standard exception escaped";
	}
	return o;
}

bool hasMixedSeparatorRun(const std::string& s) {
	return s.find("\\/") != std::string::npos || s.find("/\\") != std::string::npos;
}
// line terminator in front of the first "\textures\" of a path that does not start with "textures\"
bool lineTerminatorBeforeTextures(const std::string& s) {
	if (hasAtI(s, 0, "textures\\"))
		return false;
	size_t k = findI(s, "\\textures\\");
	if (k == std::string::npos)
		return false;
	for (size_t i = 0; i < k; i++)
		if (s[i] == '\n' || s[i] == '\r')
			return true;
	return false;
}

// Root-cause name of a failed check. `what` = violated clause, or "idempotence",
// "clean-input-changed", "diff". A named root cause is given only when the library's output
// is exactly what the documented pipeline plus the two known quirks produce (first pass, and
// second pass where it matters); every other failure keeps the generic signature
// C19:predicate:<clause> / C19:idempotence / C19:clean-input-changed / C19:diff.
std::string classify(const Case& c, const std::string& what, const Outcome& o, const std::string& expected) {
	const std::string& in = c.path;
	const bool isOB = c.vclass == V_OB;
	const bool relational = (what == "idempotence" || what == "clean-input-changed" || what == "diff");
	const std::string genericSig = relational ? "C19:" + what : "C19:predicate:" + what;
	// (d) the five effect-shader paths are never visited by the clean-up
	if (c.kind == K_EFFECT && o.out1 == in && o.out2 == in && expected != in)
		return "C19:effect-shader-not-cleaned";
	const std::string mirror1 = spec(in, isOB, c.terrain, true);
	if (o.out1 != mirror1)
		return genericSig;
	if (what == "idempotence" && o.out2 != spec(o.out1, isOB, c.terrain, true))
		return genericSig;
	const std::string n = trimmed(in);
	// (a) separator rule `/+|\\+` turns a mixed run into several backslashes
	if ((what == "double-backslash" || relational) && o.out1.find("\\\\") != std::string::npos && hasMixedSeparatorRun(n))
		return "C19:double-backslash";
	// (b) whitespace is trimmed before prefixes/backslashes are stripped, never after: the
	//     pipeline itself (out1 == mirror1) leaves whitespace in front
	if ((what == "leading-whitespace" || relational) && !o.out1.empty() && isWs(o.out1.front()))
		return "C19:blank-exposed";
	// (e) '.' of the ECMAScript grammar does not match line terminators: the prefix survives
	if ((what == "prefix-before-textures" || what == "diff") && lineTerminatorBeforeTextures(collapseSeparators(n)))
		return "C19:newline-blocks-strip";
	// (f) no prefix is added for OB, so what follows the first "\textures\" may contain another one
	if ((what == "prefix-before-textures" || what == "idempotence") && isOB && o.out1 == expected) {
		std::string q = (c.terrain && hasAtI(o.out1, 0, "Data\\")) ? o.out1.substr(5) : o.out1;
		if (!hasAtI(q, 0, "textures\\") && findI(q, "\\textures\\") != std::string::npos)
			return "C19:ob-nested-textures";
	}
	// (c) with the terrain flag "Data\" precedes "textures\": every pass strips and re-adds
	if ((what == "idempotence" || what == "clean-input-changed") && c.terrain && o.out1 == expected)
		return "C19:terrain-not-idempotent";
	return genericSig;
}

std::string lenClass(size_t n) {
	if (n == 0)
		return "len:0";
	if (n <= 16)
		return "len:1-16";
	if (n <= 256)
		return "len:17-256";
	if (n <= 2048)
		return "len:257-2048";
	return "len:2049-4096";
}

// Process history: TrimTexturePaths is called many times in one process, and what an earlier call left
// behind (function-local statics, caches) must not change a later one. Every shard therefore starts
// with one clean-up in a configuration chosen by its number (version class x terrain), recorded in
// front of the tape of every failure it reports: [0xFD, w, case...]. A replay performs the same
// warm-up first, in a fresh process, so a failure that depends on the first call reproduces.
constexpr uint8_t kWarmMarker = 0xFD;
void warmUp(uint8_t w) {
	Case c;
	c.vclass = w % 3;
	c.terrain = (w / 3) & 1;
	c.sub = 0;
	c.entry = c.terrain ? E_LOAD : E_EXPLICIT;
	c.kind = K_TEXSET;
	c.idx = 0;
	c.path = "C:\\game\\Data\\textures\\warm\\up.dds";
	c.gen = "warm-up";
	execute(c);
}
void initShard(Run& run) {
	uint8_t w = static_cast<uint8_t>(run.args.shard % 6);
	warmUp(w);
	run.tapePrefix = {kWarmMarker, w};
	run.cls(std::string("process-warm-up:") + (w % 3 == 0 ? "OB" : w % 3 == 1 ? "FO3" : "SK") + (w >= 3 ? "+terrain" : ""));
}

Verdict prop(Tape& t, Run& run) {
	if (t.peek() == kWarmMarker) {
		t.u8();
		uint8_t w = t.u8() % 6;
		// (test switch for the driver's shard re-run path: pretend the warm-up was not recorded)
		if (!(run.replaying && getenv("VF_TEST_IGNORE_WARMUP_IN_REPLAY")))
			warmUp(w);
	}
	Case c = decodeCase(t);
	const bool isOB = c.vclass == V_OB;
	const std::string& in = c.path;

	run.cls(std::string("version:") + versionNameOf(c));
	run.cls(c.terrain ? "terrain:on" : "terrain:off");
	run.cls(std::string("slot:") + kindName(c.kind));
	run.cls(c.entry == E_LOAD ? (c.secondReload ? "entry:load,second-pass:load" : "entry:load,second-pass:explicit")
							  : "entry:explicit");
	run.cls(std::string("gen:") + c.gen);
	run.cls(lenClass(in.size()));
	run.maxi("path_len_max", static_cast<double>(in.size()));

	alarm(60);
	Outcome o = execute(c);
	alarm(0);
	run.maxi("first_cleanup_ms_max", o.cleanMs);

	const std::string expected = spec(in, isOB, c.terrain);
	auto detail = [&](const std::string& what) {
		std::string slotName = c.kind == K_TEXSET ? "textures[" + std::to_string(c.idx) + "]"
							   : c.kind == K_SOURCE ? std::string(kSourceSlotNames[c.idx % 10])
													: std::string(kEffectSlotNames[c.idx % 5]);
		J j;
		j.s("check", what)
			.s("version", versionNameOf(c))
			.b("terrain", c.terrain)
			.s("slot_kind", kindName(c.kind))
			.s("slot", slotName)
			.s("entry_point", c.entry == E_LOAD ? "Load" : "TrimTexturePaths")
			.s("second_pass", c.secondReload ? "save+Load" : "TrimTexturePaths")
			.s("generator", c.gen)
			.u("input_len", in.size())
			.s("input", in.size() <= 300 ? in : in.substr(0, 300))
			.s("input_hex", to_hex(in.size() <= 300 ? in : in.substr(0, 300)))
			.s("after_first_cleanup", o.out1.size() <= 300 ? o.out1 : o.out1.substr(0, 300))
			.s("after_second_cleanup", o.out2.size() <= 300 ? o.out2 : o.out2.substr(0, 300))
			.s("documented_pipeline_result", expected.size() <= 300 ? expected : expected.substr(0, 300));
		if (!o.error.empty())
			j.s("error", o.error);
		return j.str();
	};

	if (!o.error.empty()) {
		if (o.errSig.rfind("C19:harness:", 0) == 0) {
			// the model could not be pushed through a file: not a statement about path clean-up
			run.exclude(o.errSig + " " + o.error);
			return DISCARD;
		}
		return run.fail(o.errSig, detail(o.errSig));
	}

	const bool changed = o.out1 != in;
	if (changed) {
		uint64_t h = fnv1a(in);
		h = hash_mix(h, c.vclass);
		h = hash_mix(h, c.terrain);
		run.nontriv(h);
		run.cls("first-cleanup-changed-path");
	}
	if (run.wantSample())
		run.sample(J().s("version", versionNameOf(c))
					   .b("terrain", c.terrain)
					   .s("slot_kind", kindName(c.kind))
					   .n("slot_index", c.idx)
					   .s("entry_point", c.entry == E_LOAD ? "Load" : "TrimTexturePaths")
					   .s("generator", c.gen)
					   .u("input_len", in.size())
					   .s("input", in.substr(0, 120))
					   .s("cleaned", o.out1.substr(0, 120))
					   .str());

	// A suppressed / known signature returns OK: keep checking the remaining clauses of this case.
#define C19_REPORT(what)                                                         \
	do {                                                                         \
		if (run.fail(classify(c, what, o, expected), detail(what)) == FAIL)      \
			return FAIL;                                                         \
	} while (0)

	// (1) canonical form of the slot, and of every other path the file has
	if (trimmed(in).empty() && !o.out1.empty())
		C19_REPORT("blank-not-empty");
	if (const char* cl = violatedClause(o.out1, isOB, c.terrain))
		C19_REPORT(cl);
	if (o.badClauseOther)
		if (run.fail(std::string("C19:other-path:") + o.badClauseOther, detail(std::string("other-path ") + o.badOther)) == FAIL)
			return FAIL;
	// (2) idempotence
	if (o.out2 != o.out1)
		C19_REPORT("idempotence");
	if (changed && violatedClause(in, isOB, c.terrain) == nullptr && !in.empty())
		C19_REPORT("clean-input-changed");
	// (3) the documented pipeline, independently implemented. Precondition: on this input the
	//     documented pipeline itself ends in a canonical fixed point, and does not alter a path
	//     that is already canonical once trimmed and separator-normalised (otherwise the statement
	//     and the documentation disagree and there is no single expected value: checks (1) and
	//     (2) decide those inputs alone).
	const std::string normalised = collapseSeparators(trimmed(in));
	const bool specContradictsStatement = violatedClause(normalised, isOB, c.terrain) == nullptr && expected != normalised;
	if (violatedClause(expected, isOB, c.terrain) == nullptr && spec(expected, isOB, c.terrain) == expected
		&& !specContradictsStatement) {
		run.cls("differential:applied");
		if (o.out1 != expected)
			C19_REPORT("diff");
	}
	else
		run.cls("differential:not-applicable(documented pipeline not canonical/idempotent on this input)");
#undef C19_REPORT
	return OK;
}

// ------------------------------------------------------------------ enumerated part

void deterministic(Run& run, const std::function<void(const std::vector<uint8_t>&)>& feed) {
	const unsigned maxLen = run.args.tier == "thorough" ? 5 : 4;
	auto tapeFor = [](int vclass, int sub, bool terrain, int entry, bool secondReload, int kind, int idx,
					  const std::vector<uint8_t>& seq) {
		std::vector<uint8_t> tape;
		tape.push_back(kEnumMarker);
		tape.push_back(static_cast<uint8_t>(vclass | (terrain ? 4 : 0) | (entry ? 8 : 0) | (secondReload ? 16 : 0) | (sub << 5)));
		tape.push_back(static_cast<uint8_t>((kind << 6) | (idx & 63)));
		tape.push_back(static_cast<uint8_t>(seq.size()));
		tape.insert(tape.end(), seq.begin(), seq.end());
		return tape;
	};
	auto forAllSequences = [](unsigned len, const std::vector<uint8_t>& alphabet,
							  const std::function<void(const std::vector<uint8_t>&, uint64_t)>& fn) {
		std::vector<size_t> digit(len, 0);
		std::vector<uint8_t> seq(len, alphabet[0]);
		uint64_t ordinal = 0;
		for (;;) {
			fn(seq, ordinal++);
			size_t i = len;
			while (i > 0) {
				if (++digit[i - 1] < alphabet.size()) {
					seq[i - 1] = alphabet[digit[i - 1]];
					break;
				}
				digit[i - 1] = 0;
				seq[i - 1] = alphabet[0];
				i--;
			}
			if (i == 0)
				break;
		}
	};
	std::vector<uint8_t> full;
	for (unsigned i = 0; i < kNumTokens; i++)
		full.push_back(static_cast<uint8_t>(i));

	// A: every token sequence up to maxLen x {OB, FO3, SK+} x terrain x entry point, shortest first,
	//    in texture-set entry 0 (SK+ alternates SK / SSE / FO4; load entry alternates its second pass)
	for (unsigned len = 0; len <= maxLen; len++)
		forAllSequences(len, full, [&](const std::vector<uint8_t>& seq, uint64_t ord) {
			// the 12 configurations are visited in an order rotated by the ordinal, so that the
			// runner's index-modulo sharding gives every shard every configuration
			for (unsigned k = 0; k < 12; k++) {
				unsigned combo = static_cast<unsigned>((k + ord) % 12);
				int vclass = static_cast<int>(combo / 4), terrain = (combo >> 1) & 1, entry = combo & 1;
				feed(tapeFor(vclass, static_cast<int>(ord % 3), terrain != 0, entry, entry && (ord & 1), K_TEXSET, 0, seq));
			}
		});

	// B: every slot of every slot kind x version x terrain x entry point, token sequences up to length 2
	struct SlotCfg {
		int vclass, sub, kind, count;
	};
	static const SlotCfg slots[] = {
		{V_OB, 0, K_TEXSET, 6},	 {V_OB, 0, K_SOURCE, 10},  {V_FO3, 0, K_TEXSET, 6},	 {V_FO3, 0, K_SOURCE, 10},
		{V_SKP, 0, K_TEXSET, 9}, {V_SKP, 0, K_EFFECT, 5},  {V_SKP, 1, K_TEXSET, 9},	 {V_SKP, 1, K_EFFECT, 5},
		{V_SKP, 2, K_TEXSET, 10}, {V_SKP, 2, K_EFFECT, 5},
	};
	for (unsigned len = 0; len <= 2; len++)
		forAllSequences(len, full, [&](const std::vector<uint8_t>& seq, uint64_t ord) {
			for (auto& sc : slots)
				for (int idx = 0; idx < sc.count; idx++)
					for (int terrain = 0; terrain < 2; terrain++)
						for (int entry = 0; entry < 2; entry++)
							feed(tapeFor(sc.vclass, sc.sub, terrain != 0, entry, entry && (ord & 1), sc.kind, idx, seq));
		});

	// C: deeper on the sub-alphabet {\, textures, a, newline} (nested "textures" folders, line
	//    terminators in front of one): every sequence of maxLen+1..7 tokens x {OB, FO3, SK+},
	//    explicit entry, no terrain (the cheap configuration: no file round trip)
	static const std::vector<uint8_t> sub = {0, 6, 5, 10};
	for (unsigned len = maxLen + 1; len <= 7; len++)
		forAllSequences(len, sub, [&](const std::vector<uint8_t>& seq, uint64_t ord) {
			// Inputs on which the documented pipeline itself does not end in a canonical fixed point
			// (only possible without a prefix, i.e. OB) are rare here: feed them once per shard
			// (consecutive indices = every shard), so that every shard meets them in this
			// shortest-first order and the merged report carries a shortest witness.
			std::string path;
			for (uint8_t tk : seq)
				path += kTokens[tk];
			std::string e = spec(path, true, false);
			const bool rare = violatedClause(e, true, false) != nullptr || spec(e, true, false) != e;
			for (unsigned k = 0; k < 3; k++) {
				int vclass = static_cast<int>((k + ord) % 3);
				int copies = (vclass == V_OB && rare) ? (run.args.nshards > 0 ? run.args.nshards : 1) : 1;
				for (int i = 0; i < copies; i++)
					feed(tapeFor(vclass, static_cast<int>(ord % 3), false, E_EXPLICIT, false, K_TEXSET, 0, seq));
			}
		});
}

} // namespace

int main(int argc, char** argv) {
	signal(SIGALRM, onAlarm);
	Harness h{};
	h.id = "C19";
	h.prop = prop;
	h.deterministic = deterministic;
	h.init = initShard;
	h.maxTape = 4200;
	h.quickCases = 60000;
	h.thoroughCases = 1500000;
	h.rule = "case = (path, version class OB/FO3/SK+ (SK,SSE,FO4), terrain flag, slot kind+index: texture-set entry / "
			 "NiSourceTexture behind NiTexturingProperty / BSEffectShaderProperty field, entry point: explicit "
			 "TrimTexturePaths() or save->Load(), second pass: explicit or save->Load()) on a model made with "
			 "Create+CreateShapeFromData. Enumerated part A = ALL sequences of <=4 (quick) / <=5 (thorough) tokens from "
			 "{\\ / space tab . a textures Textures data C: newline} x {OB,FO3,SK+} x terrain off/on x both entry points "
			 "in texture-set entry 0; part B = all sequences of <=2 tokens x every slot of every slot kind x 5 versions x "
			 "terrain x entry point; part C = all sequences of up to 7 tokens from {\\ textures a newline} x {OB,FO3,SK+}, "
			 "explicit entry, no terrain. Random part = rapidcheck tapes decoded to token sequences (<=8), path-shaped strings "
			 "(whitespace, drive/UNC/absolute prefixes, mixed separator runs, case variants), arbitrary NUL-free bytes "
			 "(non-UTF-8 included), spliced and long repetitive strings, all <= 4096 bytes. Checked per case: canonical-form "
			 "predicate on every path of every shape, second clean-up changes nothing, already-canonical input unchanged, "
			 "equality with a regex-free implementation of the documented pipeline (where that pipeline itself reaches a "
			 "canonical fixed point), no exception, 60 s watchdog. "
			 "Non-trivial = the first clean-up changed the path; distinct = hash(path, version class, terrain).";
	return harnessMain(argc, argv, h);
}
