// C07 — saved header tables describe the written file exactly.
//
// Domain: every byte string produced by Save: plain round trips (samples, synthesised
// files of every type/version) and after generated edit sequences (added blocks whose
// size entry starts at 0, ReplaceBlock, deletions, reordering, renames, added nodes and
// extra data, shape/vertex deletion and shape cloning on sample files), both save options.
// Oracle: MiniNif alone walks header -> sum of sizes -> 8-byte footer and must land on
// EOF; each size entry must equal the true length of that block measured independently
// of the writer's byte counter (the reloaded block re-serialised into its own buffer);
// type indices in range and equal to the reloaded block's type; no duplicate or unused
// type names; strings unique (no unknown blocks), recorded max length = true maximum;
// every string-index field (offsets from hook H4) empty or inside the table.
#include "cases.hpp"
#include "observe.hpp"

using namespace nifly;
using namespace vf;

namespace {

std::string applyEdits(NifFile& nif, Tape& t, bool isCorpus, std::vector<std::string>& log) {
	auto& hdr = nif.GetHeader();
	uint32_t n = t.u8() % 5;
	for (uint32_t e = 0; e < n; e++) {
		uint32_t nb = hdr.GetNumBlocks();
		uint8_t op = t.u8() % (isCorpus ? 11 : 8);
		switch (op) {
			case 0: { // add a node under the root
				MatTransform xf;
				xf.translation = Vector3(t.nice(), t.nice(), t.nice());
				auto node = nif.AddNode("added_node_" + std::to_string(e), xf);
				log.push_back(node ? "AddNode" : "AddNode(no root)");
				break;
			}
			case 1: { // extra data on the root: block whose size entry starts at 0
				auto root = nif.GetRootNode();
				if (!root)
					break;
				auto ed = std::make_unique<NiStringExtraData>();
				ed->name.get() = "ed" + std::to_string(t.u8() % 3);
				ed->stringData.get() = std::string(t.u8() % 40, 'x');
				nif.AssignExtraData(root, std::move(ed));
				log.push_back("AssignExtraData");
				break;
			}
			case 2: { // delete a block (not the root, not geometry data: NiGeometry caches a raw pointer to it)
				if (nb < 2)
					break;
				uint32_t id = 1 + t.range(0, nb - 2);
				auto b = hdr.GetBlock<NiObject>(id);
				if (!b || b->HasType<NiGeometryData>() || b == nif.GetRootNode())
					break;
				hdr.DeleteBlock(id);
				log.push_back("DeleteBlock " + std::to_string(id));
				break;
			}
			case 3: { // replace a block by a fresh one of another type
				if (nb < 2)
					break;
				uint32_t id = 1 + t.range(0, nb - 2);
				auto b = hdr.GetBlock<NiObject>(id);
				if (!b || b->HasType<NiGeometryData>() || b->HasType<NiShape>() || b == nif.GetRootNode())
					break;
				if (t.coin()) {
					auto nb2 = std::make_unique<NiStringExtraData>();
					nb2->name.get() = "replaced";
					hdr.ReplaceBlock(id, std::move(nb2));
				}
				else {
					auto nb2 = std::make_unique<NiNode>();
					nb2->name.get() = "replaced_node";
					hdr.ReplaceBlock(id, std::move(nb2));
				}
				log.push_back("ReplaceBlock " + std::to_string(id));
				break;
			}
			case 4: { // reorder: rotate all blocks after the first by k
				if (nb < 3 || nif.HasUnknown())
					break;
				std::vector<uint32_t> order(nb);
				uint32_t k = 1 + t.range(0, nb - 2);
				order[0] = 0;
				for (uint32_t i = 1; i < nb; i++)
					order[i] = 1 + (i - 1 + k) % (nb - 1);
				hdr.SetBlockOrder(order);
				log.push_back("SetBlockOrder rot" + std::to_string(k));
				break;
			}
			case 5: { // rename a node: new string, old one may become unused
				auto nodes = nif.GetNodes();
				if (nodes.empty())
					break;
				auto nd = nodes[t.range(0, static_cast<uint32_t>(nodes.size() - 1))];
				nif.SetNodeName(nif.GetBlockID(nd), std::string("renamed_") + std::string(1 + t.u8() % 30, 'n'));
				log.push_back("SetNodeName");
				break;
			}
			case 6: { // register strings nobody uses / duplicates
				hdr.AddOrFindStringId("unused_string_" + std::to_string(t.u8() % 4));
				log.push_back("AddOrFindStringId");
				break;
			}
			case 7: { // delete all blocks of one type that nobody references
				if (nb < 2)
					break;
				std::string ty = hdr.GetBlockTypeStringById(1 + t.range(0, nb - 2));
				if (ty.find("Data") != std::string::npos && ty.find("ExtraData") == std::string::npos)
					break;
				hdr.DeleteBlockByType(ty, true);
				log.push_back("DeleteBlockByType(orphaned) " + ty);
				break;
			}
			case 8: { // sample files: delete a shape
				auto shapes = nif.GetShapes();
				if (shapes.empty())
					break;
				nif.DeleteShape(shapes[t.range(0, static_cast<uint32_t>(shapes.size() - 1))]);
				log.push_back("DeleteShape");
				break;
			}
			case 9: { // sample files: delete a prefix of vertices
				auto shapes = nif.GetShapes();
				if (shapes.empty())
					break;
				auto s = shapes[t.range(0, static_cast<uint32_t>(shapes.size() - 1))];
				uint16_t nv = s->GetNumVertices();
				if (nv < 4)
					break;
				uint16_t k = static_cast<uint16_t>(1 + t.range(0, std::min<uint32_t>(nv / 2, 50)));
				std::vector<uint16_t> idx(k);
				uint16_t start = static_cast<uint16_t>(t.range(0, nv - k));
				for (uint16_t i = 0; i < k; i++)
					idx[i] = start + i;
				nif.DeleteVertsForShape(s, idx);
				log.push_back("DeleteVertsForShape " + std::to_string(k));
				break;
			}
			case 10: { // sample files: clone a shape
				auto shapes = nif.GetShapes();
				if (shapes.empty())
					break;
				auto s = shapes[t.range(0, static_cast<uint32_t>(shapes.size() - 1))];
				nif.CloneShape(s, s->name.get() + "_clone");
				log.push_back("CloneShape");
				break;
			}
		}
	}
	std::string all;
	for (auto& l : log)
		all += l + "; ";
	return all;
}

Verdict prop(Tape& t, Run& run) {
	FileCase c = decodeFileCase(t, run, true, true);
	if (!c.ok) {
		run.exclude(c.why);
		return OK;
	}
	const bool useDefault = t.coin();
	NifFile nif;
	// sometimes the object has a history: it loaded and saved another file (a sample with a size table)
	// before; what that left behind in the object must not reach this file's output
	if (c.hash % 4 == 1) {
		auto& cp = corpus(run.args.corpus);
		if (!cp.empty()) {
			const auto& w = cp[(c.hash >> 8) % cp.size()];
			if (loadBytes(nif, w.bytes) == 0) {
				std::string tmp;
				saveBytes(nif, tmp, defOpts());
				run.cls("object-reused-after-saving-another-file");
			}
		}
	}
	if (loadBytes(nif, c.bytes) != 0) {
		run.exclude("file not accepted by Load");
		return OK;
	}
	std::vector<std::string> log;
	std::string edits = applyEdits(nif, t, c.kind == "corpus", log);
	const std::string mode = useDefault ? "default" : "raw";
	std::string out;
	auto detail = [&](const std::string& what) {
		return J().s("kind", c.kind).s("subject", c.label).s("version", c.version).s("mode", mode).s("edits", edits).s("what", what).s("nif_hex", to_hex(c.bytes)).str();
	};
	const std::string afterOp = log.empty() ? "roundtrip" : log.back().substr(0, log.back().find(' '));
	if (saveBytes(nif, out, useDefault ? defOpts() : rawOpts()) != 0)
		return run.fail("C07:save-failed:" + afterOp, detail("save failed"));

	run.cls("mode:" + mode);
	run.cls("kind:" + c.kind);
	run.cls("edits:" + std::to_string(log.size()));
	for (auto& l : log)
		run.cls("op:" + l.substr(0, l.find(' ')));

	auto mf = mini::parse(out);
	if (!mf.ok)
		return run.fail("C07:walk:" + afterOp, detail("independent reader cannot walk the file with its own tables: " + mf.error));
	if (!log.empty() || (mf.numBlocks >= 3 && !mf.strings.empty()))
		run.nontriv(fnv1a(out));
	if (run.wantSample())
		run.sample(J().s("kind", c.kind).s("subject", c.label).s("version", c.version).s("mode", mode).s("edits", edits).u("out_bytes", out.size()).u("blocks", mf.numBlocks).u("strings", mf.strings.size()).str());

	// --- type table
	if (mf.typeIndex.size() != mf.numBlocks)
		return run.fail("C07:type-index-count:" + afterOp, detail("number of type indices != block count"));
	std::set<std::string> seenTypes(mf.typeNames.begin(), mf.typeNames.end());
	if (seenTypes.size() != mf.typeNames.size())
		return run.fail("C07:type-table-duplicate:" + afterOp, detail("type table lists a name twice"));
	std::vector<bool> used(mf.typeNames.size(), false);
	for (auto ti : mf.typeIndex) {
		if (ti >= mf.typeNames.size())
			return run.fail("C07:type-index-range:" + afterOp, detail("type index " + std::to_string(ti) + " outside table of " + std::to_string(mf.typeNames.size())));
		used[ti] = true;
	}
	for (size_t i = 0; i < used.size(); i++)
		if (!used[i])
			return run.fail("C07:type-table-unused:" + afterOp, detail("type name '" + mf.typeNames[i] + "' is used by no block"));

	// --- footer / EOF
	const std::string footerExpect("\x01\x00\x00\x00\x00\x00\x00\x00", 8);
	if (mf.ver.hasSizes()) {
		if (mf.footer != footerExpect)
			return run.fail("C07:footer:" + afterOp, detail("walking header + sizes does not land on the 8-byte footer at EOF; " + std::to_string(mf.footer.size()) + " bytes remain"));
	}

	// --- string table
	if (mf.ver.hasStrings()) {
		uint32_t mx = 0;
		for (auto& s : mf.strings)
			mx = std::max<uint32_t>(mx, static_cast<uint32_t>(s.size()));
		if (mx != mf.maxStringLen)
			return run.fail("C07:max-string-length:" + afterOp, detail("recorded max string length " + std::to_string(mf.maxStringLen) + ", true maximum " + std::to_string(mx)));
		if (!nif.HasUnknown()) {
			std::set<std::string> ss(mf.strings.begin(), mf.strings.end());
			if (ss.size() != mf.strings.size())
				return run.fail("C07:string-duplicate:" + afterOp, detail("string table holds a string twice"));
		}
	}

	// --- per block: true length, type name, string indices (through an independent reload)
	NifFile re;
	int rc = loadBytes(re, out);
	if (rc != 0)
		return run.fail("C07:reload:" + afterOp, detail("saved file is rejected on reload, rc=" + std::to_string(rc)));
	auto& rh = re.GetHeader();
	if (rh.GetNumBlocks() != mf.numBlocks)
		return run.fail("C07:block-count:" + afterOp, detail("header block count differs from loaded blocks"));
	size_t total = mf.headerEnd;
	for (uint32_t i = 0; i < mf.numBlocks; i++) {
		auto blk = rh.GetBlock<NiObject>(i);
		if (std::string(blk->GetBlockName()) != mf.typeOf(i) && !blk->HasType<NiUnknown>())
			return run.fail("C07:type-name:" + afterOp, detail("block " + std::to_string(i) + " is listed as " + mf.typeOf(i) + " but loads as " + blk->GetBlockName()));
		PutObs po = observedPutClone(*blk, rh);
		total += po.payload.size();
		if (mf.ver.hasSizes()) {
			if (po.payload.size() != mf.sizes[i])
				return run.fail("C07:block-size:" + afterOp,
								detail("size table says " + std::to_string(mf.sizes[i]) + " for block " + std::to_string(i) + " (" + mf.typeOf(i) + "), its bytes are " + std::to_string(po.payload.size())));
			if (po.payload == mf.payloads[i])
				run.cls("block-bytes-equal-on-reserialise");
		}
		if (mf.ver.stringIndices())
			for (auto off : po.strOffsets) {
				uint32_t idx = rd32(mf.ver.hasSizes() ? mf.payloads[i] : po.payload, static_cast<size_t>(off));
				if (idx != 0xFFFFFFFFu && idx >= mf.strings.size())
					return run.fail("C07:string-index-range:" + afterOp, detail("block " + std::to_string(i) + " stores string index " + std::to_string(idx) + " outside the table of " + std::to_string(mf.strings.size())));
			}
	}
	if (!mf.ver.hasSizes() && total + 8 != out.size())
		return run.fail("C07:eof:" + afterOp, detail("blocks end at " + std::to_string(total) + ", file has " + std::to_string(out.size()) + " bytes (8-byte footer expected)"));
	return OK;
}

void deterministic(Run& run, const std::function<void(const std::vector<uint8_t>&)>& feed) {
	const bool th = run.args.tier == "thorough";
	enumerateFileCases(run, feed, th ? 6 : 2);
	enumerateSweep(run, feed, th ? 24 : 8, th ? 32 : 24, th ? 6 : 2);
	enumerateUnknownCases(run, feed);
}

} // namespace

int main(int argc, char** argv) {
	Harness h{};
	h.id = "C07";
	h.prop = prop;
	h.deterministic = deterministic;
	h.maxTape = 2000;
	h.quickCases = 30000;
	h.thoroughCases = 600000;
	h.rule = "case = (file as in C01, save options, 0-4 generated edits before saving); the saved bytes are walked by an "
			 "independent reader and every table entry is compared with independently measured values. Non-trivial = "
			 "output written after >=1 edit, or >=3 blocks with >=1 string; distinct = hash(output bytes).";
	return harnessMain(argc, argv, h);
}
