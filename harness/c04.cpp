// C04 — default save only permutes blocks and prunes unreferenced ones.
//
// Observation: blocks are owned by unique_ptr and are moved, never reallocated, by the sorter and
// by block deletion, so an object's ADDRESS is its identity; the permutation and the survivors are
// observed from outside, the sorter's own bookkeeping is not trusted.
// Procedure: model M (sample / generated graph / synthesised multi-block file); UpdateBounds on
// every shape first (so the recomputation inside Optimize changes nothing), FinalizeData;
// snapshot S0 (per block: address, type, canonical payload from a clone with reference fields
// masked and string indices replaced by text, reference targets by address); run one of
// PrettySortBlocks / Optimize / SetShapeOrder(order) / default Save; snapshot S1.
// Oracle: clauses 1-8 below.
#include "cases.hpp"
#include "graph.hpp"
#include "observe.hpp"

using namespace nifly;
using namespace vf;

namespace {

struct BlockSnap {
	NiObject* addr = nullptr;
	std::string type;
	std::string canon;				  // payload, refs masked, strings by text
	std::vector<NiObject*> refTargets; // non-empty references in serialisation order
	bool isNode = false;
};

struct Snap {
	std::vector<BlockSnap> blocks;
	std::map<NiObject*, size_t> indexOf;
	NiObject* root = nullptr;
};

Snap takeSnap(NifFile& nif) {
	Snap s;
	auto& hdr = nif.GetHeader();
	uint32_t n = hdr.GetNumBlocks();
	std::vector<std::string> strings;
	for (uint32_t i = 0; i < hdr.GetStringCount(); i++)
		strings.push_back(hdr.GetStringById(i));
	for (uint32_t i = 0; i < n; i++) {
		auto b = hdr.GetBlock<NiObject>(i);
		BlockSnap bs;
		bs.addr = b;
		bs.type = b->GetBlockName();
		bs.isNode = b->HasType<NiNode>();
		PutObs po = observedPutClone(*b, hdr);
		CanonOpts co;
		co.maskRefs = true;
		co.strings = &strings;
		bs.canon = canonPayload(po, co);
		for (auto off : po.refOffsets) {
			uint32_t v = rd32(po.payload, static_cast<size_t>(off));
			if (v == 0xFFFFFFFFu)
				continue;
			bs.refTargets.push_back(hdr.GetBlock<NiObject>(v)); // nullptr for a dangling index
		}
		s.indexOf[b] = s.blocks.size();
		s.blocks.push_back(bs);
	}
	s.root = nif.GetRootNode();
	return s;
}

std::string describe(const BlockSnap& b, const Snap& s) {
	auto it = s.indexOf.find(b.addr);
	return b.type + "#" + (it == s.indexOf.end() ? std::string("?") : std::to_string(it->second));
}

// clauses comparing S0 and S1
std::string compareSnaps(const Snap& s0, const Snap& s1, bool hasUnknown, bool sortedOp, std::string& clause) {
	// (1)+(4): survivors / removed
	std::set<NiObject*> alive;
	for (auto& b : s1.blocks) {
		if (!alive.insert(b.addr).second) {
			clause = "duplicate-block";
			return "a block occupies two slots";
		}
		if (!s0.indexOf.count(b.addr)) {
			clause = "new-block";
			return "a block appeared that was not there before (" + b.type + ")";
		}
	}
	// reachability from the root through S0's reference fields
	std::set<NiObject*> reach;
	if (s0.root) {
		std::vector<NiObject*> st = {s0.root};
		reach.insert(s0.root);
		while (!st.empty()) {
			auto x = st.back();
			st.pop_back();
			for (auto tgt : s0.blocks[s0.indexOf.at(x)].refTargets)
				if (tgt && reach.insert(tgt).second)
					st.push_back(tgt);
		}
	}
	clause = "reachable-block-lost";
	for (auto r : reach)
		if (!alive.count(r))
			return "block " + describe(s0.blocks[s0.indexOf.at(r)], s0) + " is reachable from the root but was removed";
	clause = "referenced-block-removed";
	for (auto& b0 : s0.blocks) {
		if (alive.count(b0.addr))
			continue;
		for (auto& b1 : s1.blocks) {
			auto& old = s0.blocks[s0.indexOf.at(b1.addr)];
			for (auto tgt : old.refTargets)
				if (tgt == b0.addr)
					return "removed block " + describe(b0, s0) + " was referenced by surviving block " + describe(old, s0);
		}
	}
	// (2)+(3): references
	for (auto& b1 : s1.blocks) {
		auto& b0 = s0.blocks[s0.indexOf.at(b1.addr)];
		// references to removed blocks (they were unreferenced by survivors, so this cannot happen) aside,
		// every reference must designate the same block
		if (b0.isNode) {
			clause = "node-children";
			std::map<NiObject*, int> c0, c1;
			for (auto t : b0.refTargets)
				c0[t]++;
			for (auto t : b1.refTargets)
				c1[t]++;
			for (auto& kv : c1) {
				if (!c0.count(kv.first))
					return describe(b0, s0) + " now references a block it did not reference before";
				if (kv.second > c0[kv.first])
					return describe(b0, s0) + " lists a child more often than before";
			}
			for (auto& kv : c0)
				if (kv.first && !c1.count(kv.first))
					return describe(b0, s0) + " lost a child/reference (" + (s0.indexOf.count(kv.first) ? describe(s0.blocks[s0.indexOf.at(kv.first)], s0) : std::string("?")) + ")";
		}
		else {
			clause = "reference-rewired";
			if (b1.refTargets != b0.refTargets)
				return describe(b0, s0) + ": its references no longer designate the same blocks in the same slots";
		}
		clause = "field-value-changed";
		if (b1.canon != b0.canon && !b0.isNode) {
			size_t k = 0;
			while (k < b0.canon.size() && k < b1.canon.size() && b0.canon[k] == b1.canon[k])
				k++;
			return describe(b0, s0) + ": a field value changed (canonical payload differs at byte " + std::to_string(k) + ", sizes " + std::to_string(b0.canon.size()) + "/" + std::to_string(b1.canon.size()) + ")";
		}
		if (b0.isNode && b1.refTargets.size() == b0.refTargets.size() && b1.canon != b0.canon)
			return describe(b0, s0) + ": a field value of a node changed although it lists as many references as before";
		if (b0.isNode && b1.canon.size() > b0.canon.size())
			return describe(b0, s0) + ": node payload grew";
	}
	// (5) parentless root first
	if (sortedOp && !hasUnknown && !s1.blocks.empty()) {
		clause = "root-not-first";
		// parentless NiNode = a node no node lists as child; approximate with: not referenced by any block
		std::set<NiObject*> referenced;
		for (auto& b : s1.blocks)
			for (auto t : b.refTargets)
				referenced.insert(t);
		bool anyParentless = false;
		for (auto& b : s1.blocks)
			if (b.isNode && !referenced.count(b.addr))
				anyParentless = true;
		if (anyParentless && !(s1.blocks[0].isNode && !referenced.count(s1.blocks[0].addr))) {
			// block 0 may also be a node only referenced through back-pointers (targets); accept any node
			// that no NODE lists as child
			bool listed = false;
			for (auto& b : s1.blocks)
				if (b.isNode)
					for (auto t : b.refTargets)
						if (t == s1.blocks[0].addr)
							listed = true;
			if (!s1.blocks[0].isNode || listed)
				return "a parentless node exists but block 0 is " + s1.blocks[0].type;
		}
	}
	clause = "";
	return "";
}

const char* opNames[] = {"PrettySortBlocks", "Optimize", "SetShapeOrder", "Save(default)"};

Verdict prop(Tape& t, Run& run) {
	NifFile nif;
	std::string desc, version;
	GraphInfo gi;
	uint8_t src = t.u8() % 4;
	if (src == 0) {
		FileCase c = decodeFileCase(t, run);
		if (!c.ok || loadBytes(nif, c.bytes) != 0) {
			run.exclude("start file not usable");
			return OK;
		}
		desc = c.kind + ":" + c.label;
		version = c.version;
		auto rt = nif.GetRootNode();
		if (rt)
			for (auto s : nif.GetChildren<NiShape>(rt))
				gi.shapeNames.push_back(s->name.get());
	}
	else {
		static const size_t vers[] = {4, 5, 6, 7, 8};
		size_t vi = vers[t.u8() % 5];
		gi = buildGraph(nif, t, vi);
		desc = "graph: " + gi.str();
		version = versions()[vi].name;
		// Where the root is kept alive by a back pointer (its collision object targets it), a child node may be
		// stored in front of it: the parentless root still has to come out first. (Decided by the model, no tape read.)
		{
			auto& hdr = nif.GetHeader();
			auto root = nif.GetRootNode();
			if (root && !root->collisionRef.IsEmpty() && hdr.GetNumBlocks() % 3 == 0 && !nif.GetParentNode(root)) {
				uint32_t r = nif.GetBlockID(root), cIdx = NIF_NPOS;
				for (auto& ch : root->childRefs)
					if (!ch.IsEmpty() && hdr.GetBlock<NiNode>(ch.index) && ch.index > r) {
						cIdx = ch.index;
						break;
					}
				if (cIdx != NIF_NPOS) {
					std::vector<uint32_t> perm(hdr.GetNumBlocks());
					for (uint32_t i = 0; i < perm.size(); i++)
						perm[i] = i;
					std::swap(perm[r], perm[cIdx]);
					hdr.SetBlockOrder(perm);
					nif.LinkGeomData();
					desc += " +child-node-stored-before-the-root(root held by its collision object)";
					run.cls("child-node-before-root");
				}
			}
		}
	}
	const uint8_t op = t.u8() % 4;
	// explicit shape order: permutation / duplicate names / missing names / wrong length
	std::vector<std::string> order;
	std::string orderClass;
	if (op == 2) {
		order = gi.shapeNames;
		// also consider all shapes (the API compares against GetShapes().size())
		std::vector<std::string> all = nif.GetShapeNames();
		uint8_t how = t.u8() % 5;
		if (how == 0) {
			order = all;
			for (size_t i = order.size(); i > 1; i--)
				std::swap(order[i - 1], order[t.u8() % i]);
			orderClass = "permutation";
		}
		else if (how == 1 && !all.empty()) {
			order = all;
			order[t.u8() % order.size()] = order[0];
			orderClass = "duplicate-name";
		}
		else if (how == 2 && !all.empty()) {
			order = all;
			order[t.u8() % order.size()] = "no such shape";
			orderClass = "missing-name";
		}
		else if (how == 3) {
			order = all;
			order.push_back("extra");
			orderClass = "wrong-length";
		}
		else {
			order = all;
			std::reverse(order.begin(), order.end());
			orderClass = "reversed";
		}
	}

	for (auto s : nif.GetShapes())
		s->UpdateBounds();
	nif.FinalizeData();
	Snap s0 = takeSnap(nif);
	const bool hasUnknown = nif.HasUnknown();

	std::string saved;
	switch (op) {
		case 0: nif.PrettySortBlocks(); break;
		case 1: nif.Optimize(); break;
		case 2: nif.SetShapeOrder(order); break;
		case 3:
			if (saveBytes(nif, saved, defOpts()) != 0)
				return run.fail("C04:save-failed", J().s("model", desc).s("version", version).str());
			break;
	}
	Snap s1 = takeSnap(nif);
	const std::string opName = std::string(opNames[op]) + (op == 2 ? "(" + orderClass + ")" : "");
	auto detail = [&](const std::string& what) {
		std::string o;
		for (auto& n : order)
			o += n + "|";
		return J().s("model", desc).s("version", version).s("operation", opName).s("shape_order", o).u("blocks_before", s0.blocks.size()).u("blocks_after", s1.blocks.size()).s("what", what).str();
	};
	run.cls("op:" + opName);
	run.cls(src == 0 ? "source:file" : "source:graph");
	for (auto& f : gi.features)
		run.cls("feature:" + f);

	bool changed = s0.blocks.size() != s1.blocks.size();
	for (size_t i = 0; !changed && i < s0.blocks.size(); i++)
		if (s0.blocks[i].addr != s1.blocks[i].addr)
			changed = true;
	if (changed || (op == 2 && gi.shapeNames.size() >= 2)) {
		uint64_t h = fnv1a(std::string(reinterpret_cast<const char*>(run.curTape), run.curTapeLen));
		run.nontriv(h);
		run.cls("order-or-count-changed");
	}
	if (run.wantSample())
		run.sample(detail("sample"));

	std::string clause;
	std::string err = compareSnaps(s0, s1, hasUnknown, op == 0 || op == 3, clause);
	if (!err.empty())
		return run.fail("C04:" + std::string(opNames[op]) + ":" + clause + (op == 2 ? ":" + orderClass : ""), detail(err));

	// (6) sorting again is the identity
	if (op == 0 || op == 3) {
		nif.PrettySortBlocks();
		Snap s2 = takeSnap(nif);
		for (size_t i = 0; i < s1.blocks.size() && i < s2.blocks.size(); i++)
			if (s1.blocks[i].addr != s2.blocks[i].addr)
				return run.fail("C04:" + std::string(opNames[op]) + ":resort-not-identity", detail("sorting the already sorted model moved block " + std::to_string(i)));
		std::string c2;
		std::string e2 = compareSnaps(s1, s2, hasUnknown, true, c2);
		if (!e2.empty())
			return run.fail("C04:" + std::string(opNames[op]) + ":resort:" + c2, detail("second sort: " + e2));
	}
	// (8) the saved bytes reload to the same blocks
	if (op == 3) {
		NifFile re;
		int rc = loadBytes(re, saved);
		if (rc != 0)
			return run.fail("C04:Save(default):reload", detail("saved file rejected, rc=" + std::to_string(rc)));
		Snap sr = takeSnap(re);
		if (sr.blocks.size() != s1.blocks.size())
			return run.fail("C04:Save(default):reload-count", detail("reloaded block count " + std::to_string(sr.blocks.size())));
		for (size_t i = 0; i < sr.blocks.size(); i++) {
			if (sr.blocks[i].type != s1.blocks[i].type)
				return run.fail("C04:Save(default):reload-type", detail("block " + std::to_string(i) + " reloads as " + sr.blocks[i].type));
			// reference structure by index
			std::vector<size_t> a, b;
			for (auto tg : sr.blocks[i].refTargets)
				a.push_back(tg ? sr.indexOf.at(tg) : static_cast<size_t>(-1));
			for (auto tg : s1.blocks[i].refTargets)
				b.push_back(tg && s1.indexOf.count(tg) ? s1.indexOf.at(tg) : static_cast<size_t>(-1));
			if (a != b)
				return run.fail("C04:Save(default):reload-references", detail("block " + std::to_string(i) + " (" + sr.blocks[i].type + ") references other blocks after reload"));
		}
	}
	return OK;
}

void deterministic(Run& run, const std::function<void(const std::vector<uint8_t>&)>& feed) {
	// every sample x every operation (SetShapeOrder: every order class)
	size_t n = corpus(run.args.corpus).size();
	for (size_t i = 0; i < n; i++) {
		for (uint8_t op : {0, 1, 3})
			feed({0, 1, static_cast<uint8_t>(i), op});
		for (uint8_t how = 0; how < 5; how++)
			feed({0, 1, static_cast<uint8_t>(i), 2, how, 1, 2, 3, 1, 0, 2});
	}
}

} // namespace

int main(int argc, char** argv) {
	Harness h{};
	h.id = "C04";
	h.prop = prop;
	h.deterministic = deterministic;
	h.maxTape = 4000;
	h.quickCases = 12000;
	h.thoroughCases = 300000;
	h.rule = "case = (model: sample file, synthesised multi-block file or generated scene graph with node tree, shapes, shared "
			 "texture sets, collision sub-graphs with constraints and chains, controller chain, ordered/multibound nodes, "
			 "loose blocks, permuted block order; operation: PrettySortBlocks | Optimize | SetShapeOrder(permutation, "
			 "duplicate, missing, wrong length) | default Save). Non-trivial = the operation changed the order or removed a "
			 "block, or an explicit order with >=2 root shapes was applied; distinct = hash(tape).";
	return harnessMain(argc, argv, h);
}
