// C06 — block-graph edits keep every reference on its target and the header consistent.
//
// Stateful, model-based: blocks are owned by unique_ptr and are moved, never reallocated, so an
// object's ADDRESS is its identity (token). The reference model is a sequence of tokens, each with
// a type name and, per token, the multiset of tokens its references designate. Commands are
// applied to the real NifFile and to the model; after every command the real state must be the
// model's: same token sequence, same reference targets, no empty or duplicated slot, type
// strings matching the blocks. At the end (and at sampled points) a copy is raw-saved: the type
// table has no duplicate / unused name, counts match, and the reloaded graph equals the model.
//   enumerated part: ALL command sequences up to depth 3 (4 in the thorough tier: depth 3 on all,
//     depth 4 on the smallest start graph) with all argument choices over small start graphs;
//   random part: sequences of 1..25 commands over larger graphs (created, synthesised, samples).
#include "cases.hpp"
#include "gen.hpp"

using namespace nifly;
using namespace vf;

namespace {

using Tok = int;

struct Model {
	std::vector<Tok> order;						 // tokens in block order
	std::map<Tok, std::string> type;
	std::map<Tok, std::multiset<Tok>> refs;		 // non-empty references (child refs and pointers)
	std::map<Tok, std::multiset<Tok>> childRefs; // the child references among them
	std::map<Tok, bool> isGeomData, isNode, isExtra;
	Tok next = 0;
};

struct World {
	NifFile nif;
	Model m;
	std::map<NiObject*, Tok> tokOf;
	std::vector<std::string> log;
	bool hasSizes = true;
};

std::multiset<Tok> actualRefs(World& w, NiObject* b, bool& bad, bool withPtrs = true) {
	auto& hdr = w.nif.GetHeader();
	std::set<NiRef*> rs;
	b->GetChildRefs(rs);
	if (withPtrs)
		b->GetPtrs(rs);
	std::multiset<Tok> out;
	for (auto r : rs) {
		if (r->IsEmpty())
			continue;
		auto tgt = hdr.GetBlock<NiObject>(r->index);
		if (!tgt) {
			bad = true; // dangling index
			continue;
		}
		out.insert(w.tokOf[tgt]);
	}
	return out;
}

// Adopt the real state as the model (start states)
void adopt(World& w) {
	auto& hdr = w.nif.GetHeader();
	w.m = Model();
	w.tokOf.clear();
	for (uint32_t i = 0; i < hdr.GetNumBlocks(); i++) {
		auto b = hdr.GetBlock<NiObject>(i);
		Tok t = w.m.next++;
		w.tokOf[b] = t;
		w.m.order.push_back(t);
		w.m.type[t] = b->GetBlockName();
		w.m.isGeomData[t] = b->HasType<NiGeometryData>();
		w.m.isNode[t] = b->HasType<NiNode>();
		w.m.isExtra[t] = b->HasType<NiExtraData>();
	}
	for (uint32_t i = 0; i < hdr.GetNumBlocks(); i++) {
		auto b = hdr.GetBlock<NiObject>(i);
		bool bad = false;
		w.m.refs[w.tokOf[b]] = actualRefs(w, b, bad);
		w.m.childRefs[w.tokOf[b]] = actualRefs(w, b, bad, false);
	}
	w.hasSizes = hdr.GetVersion().File() >= V20_2_0_5;
}

std::string compare(World& w, bool adoptOrder) {
	auto& hdr = w.nif.GetHeader();
	uint32_t n = hdr.GetNumBlocks();
	if (n != w.m.order.size())
		return "block count " + std::to_string(n) + ", model has " + std::to_string(w.m.order.size());
	std::set<NiObject*> seen;
	std::vector<Tok> actualOrder;
	for (uint32_t i = 0; i < n; i++) {
		auto b = hdr.GetBlock<NiObject>(i);
		if (!b)
			return "slot " + std::to_string(i) + " is empty";
		if (!seen.insert(b).second)
			return "block held by two slots";
		auto it = w.tokOf.find(b);
		if (it == w.tokOf.end())
			return "slot " + std::to_string(i) + " holds a block the model does not know";
		actualOrder.push_back(it->second);
		if (hdr.GetBlockTypeStringById(i) != b->GetBlockName())
			return "header type string of block " + std::to_string(i) + " is '" + hdr.GetBlockTypeStringById(i) + "', block is " + b->GetBlockName();
		if (hdr.GetBlockID(b) != i || w.nif.GetBlockID(b) != i)
			return "GetBlockID disagrees with the slot";
	}
	if (adoptOrder) {
		std::multiset<Tok> a(actualOrder.begin(), actualOrder.end()), m(w.m.order.begin(), w.m.order.end());
		if (a != m)
			return "sorting changed the set of blocks";
		w.m.order = actualOrder;
	}
	else if (actualOrder != w.m.order) {
		size_t k = 0;
		while (k < actualOrder.size() && actualOrder[k] == w.m.order[k])
			k++;
		return "block order differs from the model at index " + std::to_string(k);
	}
	for (uint32_t i = 0; i < n; i++) {
		auto b = hdr.GetBlock<NiObject>(i);
		bool bad = false;
		auto a = actualRefs(w, b, bad);
		if (bad)
			return std::string(b->GetBlockName()) + " at " + std::to_string(i) + " holds a reference to a block index that does not exist";
		if (adoptOrder) {
			// sorting may list a child fewer times than before, never more, and keeps the same set (C04)
			auto& mr = w.m.refs[w.tokOf[b]];
			std::set<Tok> sa(a.begin(), a.end()), sm(mr.begin(), mr.end());
			bool sub = true;
			for (auto t : sa)
				if (a.count(t) > mr.count(t))
					sub = false;
			if (sa == sm && sub) {
				mr = a;
				bool bad2 = false;
				w.m.childRefs[w.tokOf[b]] = actualRefs(w, b, bad2, false);
				continue;
			}
		}
		if (a != w.m.refs[w.tokOf[b]])
			return std::string(b->GetBlockName()) + " at " + std::to_string(i) + ": its references no longer designate the same blocks (" + std::to_string(a.size()) + " non-empty, model " + std::to_string(w.m.refs[w.tokOf[b]].size()) + ")";
	}
	return "";
}

// ---- model operations
int indexOfTok(const Model& m, Tok t) {
	for (size_t i = 0; i < m.order.size(); i++)
		if (m.order[i] == t)
			return static_cast<int>(i);
	return -1;
}
bool referenced(const Model& m, Tok t) {
	for (auto tk : m.order) {
		auto it = m.refs.find(tk);
		if (it != m.refs.end() && it->second.count(t))
			return true;
	}
	return false;
}
int refCount(const Model& m, Tok t) {
	int c = 0;
	for (auto tk : m.order) {
		auto it = m.refs.find(tk);
		if (it != m.refs.end())
			c += static_cast<int>(it->second.count(t));
	}
	return c;
}
void modelDelete(Model& m, size_t idx) {
	Tok t = m.order[idx];
	m.order.erase(m.order.begin() + static_cast<long>(idx));
	for (auto& kv : m.refs)
		kv.second.erase(t);
	for (auto& kv : m.childRefs)
		kv.second.erase(t);
	m.refs.erase(t);
	m.childRefs.erase(t);
}
int modelRoot(const Model& m) {
	if (m.order.empty())
		return -1;
	// block 0 if it is a node type, else the first node; the real code decides by dynamic_cast<NiNode>
	return -2; // resolved against the real model by the caller
}

struct Cmd {
	int kind; // 0 add node, 1 add extra data, 2 delete, 3 delete NPOS, 4 replace, 5 set order, 6 delete by type,
			  // 7 prune all, 8 prune extra data, 9 prune nodes, 10 pretty sort, 11 delete via NiRef
	int a = 0, b = 0;
	std::vector<uint32_t> perm;
	std::string name;
};

bool isNodeTok(World& w, Tok t) {
	for (auto& kv : w.tokOf)
		if (kv.second == t)
			return kv.first->HasType<NiNode>();
	return false;
}
// forget a token whose object has been freed by the library (never dereferences it)
void dropTok(World& w, Tok t) {
	for (auto it = w.tokOf.begin(); it != w.tokOf.end(); ++it)
		if (it->second == t) {
			w.tokOf.erase(it);
			return;
		}
}
NiObject* objOf(World& w, Tok t) {
	for (auto& kv : w.tokOf)
		if (kv.second == t)
			return kv.first;
	return nullptr;
}

// Safe to remove/replace? (NiGeometry caches a raw pointer to its data block; removing a data block
// that a shape references is an API hazard outside this property)
bool protectedData(World& w, size_t idx) {
	Tok t = w.m.order[idx];
	return w.m.isGeomData[t] && referenced(w.m, t);
}

std::string apply(World& w, const Cmd& c) {
	auto& hdr = w.nif.GetHeader();
	Model& m = w.m;
	const uint32_t n = hdr.GetNumBlocks();
	auto newTok = [&](NiObject* o, const std::multiset<Tok>& refs) {
		Tok t = m.next++;
		w.tokOf[o] = t;
		m.type[t] = o->GetBlockName();
		m.refs[t] = refs;
		m.childRefs[t] = refs; // blocks added by the commands only carry child references
		m.isGeomData[t] = false;
		m.isNode[t] = o->HasType<NiNode>();
		m.isExtra[t] = o->HasType<NiExtraData>();
		return t;
	};
	switch (c.kind) {
		case 0: { // AddBlock NiNode with an optional child reference to block a
			auto node = std::make_unique<NiNode>();
			node->name.get() = "n" + std::to_string(m.next);
			std::multiset<Tok> refs;
			if (c.a >= 0 && c.a < static_cast<int>(n)) {
				node->childRefs.AddBlockRef(static_cast<uint32_t>(c.a));
				refs.insert(m.order[static_cast<size_t>(c.a)]);
			}
			auto raw = node.get();
			uint32_t id = hdr.AddBlock(std::move(node));
			Tok t = newTok(raw, refs);
			m.order.push_back(t);
			if (id != n)
				return "AddBlock returned " + std::to_string(id) + ", expected " + std::to_string(n);
			w.log.push_back("AddBlock(NiNode child->" + std::to_string(c.a) + ")");
			break;
		}
		case 1: { // AddBlock NiStringExtraData, attached to block a when that is an NiObjectNET
			auto ed = std::make_unique<NiStringExtraData>();
			ed->name.get() = "e" + std::to_string(m.next);
			ed->stringData.get() = "data";
			auto raw = ed.get();
			uint32_t id = hdr.AddBlock(std::move(ed));
			Tok t = newTok(raw, {});
			m.order.push_back(t);
			if (c.a >= 0 && c.a < static_cast<int>(n)) {
				auto net = hdr.GetBlock<NiObjectNET>(static_cast<uint32_t>(c.a));
				if (net) {
					net->extraDataRefs.AddBlockRef(id);
					m.refs[m.order[static_cast<size_t>(c.a)]].insert(t);
					m.childRefs[m.order[static_cast<size_t>(c.a)]].insert(t);
				}
			}
			w.log.push_back("AddBlock(NiStringExtraData on " + std::to_string(c.a) + ")");
			break;
		}
		case 2:
		case 11: { // DeleteBlock(i) / DeleteBlock(NiRef)
			if (c.a < 0 || c.a >= static_cast<int>(n) || protectedData(w, static_cast<size_t>(c.a)))
				return "";
			NiObject* o = hdr.GetBlock<NiObject>(static_cast<uint32_t>(c.a));
			if (c.kind == 2)
				hdr.DeleteBlock(static_cast<uint32_t>(c.a));
			else {
				NiRef r;
				r.index = static_cast<uint32_t>(c.a);
				hdr.DeleteBlock(r);
			}
			w.tokOf.erase(o);
			modelDelete(m, static_cast<size_t>(c.a));
			w.log.push_back("DeleteBlock(" + std::to_string(c.a) + ")");
			break;
		}
		case 3:
			hdr.DeleteBlock(NIF_NPOS);
			w.log.push_back("DeleteBlock(NPOS)");
			break;
		case 4: { // ReplaceBlock(a, new block of kind b)
			if (c.a < 0 || c.a >= static_cast<int>(n) || protectedData(w, static_cast<size_t>(c.a)))
				return "";
			NiObject* old = hdr.GetBlock<NiObject>(static_cast<uint32_t>(c.a));
			if (old->HasType<NiShape>())
				return ""; // shapes cache geometry pointers used by later saves
			std::unique_ptr<NiObject> nb;
			if (c.b == 0) {
				auto x = std::make_unique<NiStringExtraData>();
				x->name.get() = "rep";
				nb = std::move(x);
			}
			else {
				auto x = std::make_unique<NiNode>();
				x->name.get() = "repnode";
				nb = std::move(x);
			}
			NiObject* raw = nb.get();
			uint32_t id = hdr.ReplaceBlock(static_cast<uint32_t>(c.a), std::move(nb));
			if (id != static_cast<uint32_t>(c.a))
				return "ReplaceBlock returned " + std::to_string(id);
			Tok oldT = m.order[static_cast<size_t>(c.a)];
			Tok t = newTok(raw, {});
			// referrers of the old block now designate the replacement (documented: not delete + add)
			for (auto* mp : {&m.refs, &m.childRefs})
				for (auto& kv : *mp) {
					size_t k = kv.second.count(oldT);
					kv.second.erase(oldT);
					for (size_t i = 0; i < k; i++)
						kv.second.insert(t);
				}
			m.refs.erase(oldT);
			m.childRefs.erase(oldT);
			m.order[static_cast<size_t>(c.a)] = t;
			w.tokOf.erase(old);
			w.log.push_back("ReplaceBlock(" + std::to_string(c.a) + "," + (c.b ? "NiNode" : "NiStringExtraData") + ")");
			break;
		}
		case 5: { // SetBlockOrder(permutation)
			if (c.perm.size() != n)
				return "";
			std::vector<uint32_t> p = c.perm;
			hdr.SetBlockOrder(p);
			std::vector<Tok> no(n);
			for (uint32_t i = 0; i < n; i++)
				no[c.perm[i]] = m.order[i];
			m.order = no;
			std::string s = "SetBlockOrder(";
			for (auto v : c.perm)
				s += std::to_string(v) + " ";
			w.log.push_back(s + ")");
			break;
		}
		case 6: { // DeleteBlockByType(name, orphanedOnly=b)
			// model: indices of that type from last to first, each deleted unless (orphanedOnly and referenced now)
			bool danger = false;
			for (size_t i = 0; i < m.order.size(); i++)
				if (m.type[m.order[i]] == c.name && protectedData(w, i))
					danger = true;
			if (danger)
				return "";
			std::vector<size_t> idx;
			for (size_t i = 0; i < m.order.size(); i++)
				if (m.type[m.order[i]] == c.name)
					idx.push_back(i);
			hdr.DeleteBlockByType(c.name, c.b != 0);
			for (size_t k = idx.size(); k-- > 0;) {
				Tok t = m.order[idx[k]];
				if (c.b == 0 || !referenced(m, t)) {
					dropTok(w, t);
					modelDelete(m, idx[k]);
				}
			}
			w.log.push_back("DeleteBlockByType(" + c.name + "," + (c.b ? "orphanedOnly" : "all") + ")");
			break;
		}
		case 7:
		case 8: { // DeleteUnreferencedBlocks<NiObject> / <NiExtraData>
			NiNode* root = w.nif.GetRootNode();
			uint32_t cnt = c.kind == 7 ? w.nif.DeleteUnreferencedBlocks<NiObject>() : w.nif.DeleteUnreferencedBlocks<NiExtraData>();
			uint32_t modelCnt = 0;
			if (root && !w.nif.HasUnknown()) {
				Tok rootT = w.tokOf[root];
				bool changed = true;
				while (changed) {
					changed = false;
					for (size_t i = 0; i < m.order.size(); i++) {
						Tok t = m.order[i];
						if (t == rootT)
							continue;
						bool typeOk = c.kind == 7 || m.isExtra[t];
						if (typeOk && !referenced(m, t)) {
							dropTok(w, t);
							modelDelete(m, i);
							modelCnt++;
							changed = true;
							break;
						}
					}
				}
			}
			if (cnt != modelCnt)
				return "DeleteUnreferencedBlocks reported " + std::to_string(cnt) + " deletions, model " + std::to_string(modelCnt);
			w.log.push_back(c.kind == 7 ? "DeleteUnreferencedBlocks<NiObject>" : "DeleteUnreferencedBlocks<NiExtraData>");
			break;
		}
		case 9: { // DeleteUnreferencedNodes
			NiNode* root = w.nif.GetRootNode();
			int cnt = 0;
			w.nif.DeleteUnreferencedNodes(&cnt);
			int modelCnt = 0;
			if (root && !w.nif.HasUnknown()) {
				Tok rootT = w.tokOf[root];
				bool changed = true;
				while (changed) {
					changed = false;
					for (size_t i = 0; i < m.order.size(); i++) {
						Tok t = m.order[i];
						if (t == rootT || !m.isNode[t])
							continue;
						// deletable: no non-empty child reference of its own (pointers do not count), fewer than two referrers
						bool hasChild = !m.childRefs[t].empty();
						if (!hasChild && refCount(m, t) < 2) {
							dropTok(w, t);
							modelDelete(m, i);
							modelCnt++;
							changed = true;
							break;
						}
					}
				}
			}
			if (cnt != modelCnt)
				return "DeleteUnreferencedNodes reported " + std::to_string(cnt) + " deletions, model " + std::to_string(modelCnt);
			w.log.push_back("DeleteUnreferencedNodes");
			break;
		}
		case 10:
			w.nif.PrettySortBlocks();
			w.log.push_back("PrettySortBlocks");
			break;
	}
	return "";
}

// type table / counts of a raw save of a COPY; reloaded graph equals the model
std::string checkSaved(World& w) {
	NifFile copy(w.nif);
	std::string bytes;
	if (saveBytes(copy, bytes, rawOpts()) != 0)
		return "raw save failed";
	auto mf = mini::parse(bytes);
	if (!mf.ok)
		return "saved file cannot be walked: " + mf.error;
	// Oblivion: the writer re-creates a shape's tangent-space NiBinaryExtraData block when it is missing;
	// such blocks are appended at the end and are the only permitted difference in count
	if (mf.numBlocks != w.m.order.size()) {
		bool ok = copy.GetHeader().GetVersion().IsOB() && mf.numBlocks > w.m.order.size();
		for (size_t i = w.m.order.size(); ok && i < mf.numBlocks; i++)
			if (mf.typeOf(i) != "NiBinaryExtraData")
				ok = false;
		if (!ok)
			return "saved block count " + std::to_string(mf.numBlocks) + ", model " + std::to_string(w.m.order.size());
	}
	std::set<std::string> names(mf.typeNames.begin(), mf.typeNames.end());
	if (names.size() != mf.typeNames.size())
		return "type table lists a name twice";
	std::vector<bool> used(mf.typeNames.size(), false);
	for (auto ti : mf.typeIndex) {
		if (ti >= mf.typeNames.size())
			return "type index out of range";
		used[ti] = true;
	}
	for (size_t i = 0; i < used.size(); i++)
		if (!used[i])
			return "type table keeps the unused name '" + mf.typeNames[i] + "'";
	for (size_t i = 0; i < w.m.order.size(); i++)
		if (mf.typeOf(i) != w.m.type[w.m.order[i]])
			return "saved type of block " + std::to_string(i) + " is " + mf.typeOf(i) + ", model " + w.m.type[w.m.order[i]];
	if (mf.ver.hasSizes() && mf.sizes.size() != mf.numBlocks)
		return "size table length != block count";
	NifFile re;
	int rc = loadBytes(re, bytes);
	if (rc != 0)
		return "saved file rejected on reload, rc=" + std::to_string(rc);
	auto& rh = re.GetHeader();
	for (size_t i = 0; i < w.m.order.size(); i++) {
		auto b = rh.GetBlock<NiObject>(static_cast<uint32_t>(i));
		std::set<NiRef*> rs;
		b->GetChildRefs(rs);
		b->GetPtrs(rs);
		std::multiset<int> got, want, model;
		for (auto r : rs)
			if (!r->IsEmpty())
				got.insert(static_cast<int>(r->index));
		for (auto t : w.m.refs[w.m.order[i]])
			model.insert(indexOfTok(w.m, t));
		// Writing normalises the block that is written (e.g. a constraint always stores two entities):
		// the file must equal the written copy, and the written copy may only have dropped references.
		{
			auto cb = copy.GetHeader().GetBlock<NiObject>(static_cast<uint32_t>(i));
			std::set<NiRef*> crs;
			cb->GetChildRefs(crs);
			cb->GetPtrs(crs);
			for (auto r : crs)
				if (!r->IsEmpty())
					want.insert(static_cast<int>(r->index));
			for (auto v : want)
				if (want.count(v) > model.count(v) && !(static_cast<size_t>(v) >= w.m.order.size()))
					return "writing block " + std::to_string(i) + " (" + cb->GetBlockName() + ") introduced a reference the model does not have";
		}
		if (got != want) {
			std::string g, wn;
			for (auto v : got)
				g += std::to_string(v) + " ";
			for (auto v : want)
				wn += std::to_string(v) + " ";
			return "after save and reload block " + std::to_string(i) + " (" + b->GetBlockName() + ") references other blocks than the model: file [" + g + "] model [" + wn + "]";
		}
	}
	return "";
}

// ---- start graphs
void startGraph(World& w, int id) {
	const VersionCfg& ver = versions()[id % 2 == 0 ? 7 : 4]; // SSE / OB (no size table)
	w.nif.Create(ver.ni());
	auto& hdr = w.nif.GetHeader();
	auto root = w.nif.GetRootNode();
	int g = id / 2;
	if (g >= 1) {
		auto a = w.nif.AddNode("A", MatTransform());
		auto ed = std::make_unique<NiStringExtraData>();
		ed->name.get() = "E";
		w.nif.AssignExtraData(a, std::move(ed));
		auto loose = std::make_unique<NiStringExtraData>();
		loose->name.get() = "L";
		hdr.AddBlock(std::move(loose));
	}
	if (g >= 2) {
		// skin instance with data, pointer to root and a bone pointer to A; referenced from a node's extra slot is not
		// possible, so it is referenced through a shape-less chain: root -> K is not a legal child, keep K loose-but-referenced
		auto data = std::make_unique<NiSkinData>();
		uint32_t dataId = hdr.AddBlock(std::move(data));
		auto k = std::make_unique<NiSkinInstance>();
		k->dataRef.index = dataId;
		k->targetRef.index = 0;
		k->boneRefs.AddBlockRef(1);
		uint32_t kid = hdr.AddBlock(std::move(k));
		auto shape = std::make_unique<NiTriShape>();
		shape->name.get() = "S";
		shape->SkinInstanceRef()->index = kid;
		uint32_t sid = hdr.AddBlock(std::move(shape));
		root->childRefs.AddBlockRef(sid);
	}
	if (g >= 3) {
		// a loose two-block cycle
		auto x = std::make_unique<NiNode>();
		x->name.get() = "X";
		auto y = std::make_unique<NiNode>();
		y->name.get() = "Y";
		uint32_t xi = hdr.AddBlock(std::move(x));
		uint32_t yi = hdr.AddBlock(std::move(y));
		hdr.GetBlock<NiNode>(xi)->childRefs.AddBlockRef(yi);
		hdr.GetBlock<NiNode>(yi)->childRefs.AddBlockRef(xi);
	}
	adopt(w);
}

std::vector<std::vector<uint32_t>> allPerms(uint32_t n) {
	std::vector<uint32_t> p(n);
	for (uint32_t i = 0; i < n; i++)
		p[i] = i;
	std::vector<std::vector<uint32_t>> out;
	do
		out.push_back(p);
	while (std::next_permutation(p.begin(), p.end()));
	return out;
}

// all commands with all argument choices (small graphs)
std::vector<Cmd> allCommands(World& w) {
	std::vector<Cmd> cs;
	int n = static_cast<int>(w.m.order.size());
	for (int a = -1; a < n; a++)
		cs.push_back({0, a});
	for (int a = -1; a < n; a++)
		cs.push_back({1, a});
	for (int a = 0; a < n; a++)
		cs.push_back({2, a});
	cs.push_back({3});
	for (int a = 0; a < n; a++)
		for (int b = 0; b < 2; b++)
			cs.push_back({4, a, b});
	if (n <= 4)
		for (auto& p : allPerms(static_cast<uint32_t>(n))) {
			Cmd c{5};
			c.perm = p;
			cs.push_back(c);
		}
	else {
		// rotations and adjacent swaps
		for (int k = 1; k < n; k++) {
			Cmd c{5};
			for (int i = 0; i < n; i++)
				c.perm.push_back(static_cast<uint32_t>((i + k) % n));
			cs.push_back(c);
		}
		for (int k = 0; k + 1 < n; k++) {
			Cmd c{5};
			for (int i = 0; i < n; i++)
				c.perm.push_back(static_cast<uint32_t>(i));
			std::swap(c.perm[static_cast<size_t>(k)], c.perm[static_cast<size_t>(k + 1)]);
			cs.push_back(c);
		}
	}
	std::set<std::string> types;
	for (auto t : w.m.order)
		types.insert(w.m.type[t]);
	for (auto& ty : types)
		for (int b = 0; b < 2; b++) {
			Cmd c{6, 0, b};
			c.name = ty;
			cs.push_back(c);
		}
	cs.push_back({7});
	cs.push_back({8});
	cs.push_back({9});
	cs.push_back({10});
	return cs;
}

Verdict finish(World& w, Run& run, const std::string& err, const std::string& lastCmd, const std::string& startDesc) {
	std::string all;
	for (auto& l : w.log)
		all += l + "; ";
	std::string inv = err.substr(0, err.find(' ') == std::string::npos ? err.size() : 24);
	return run.fail("C06:" + lastCmd.substr(0, lastCmd.find('(')), J().s("start", startDesc).s("commands", all).s("what", err).str());
}

Verdict prop(Tape& t, Run& run) {
	World w;
	std::string startDesc;
	bool enumerated = false;
	uint8_t mode = t.u8();
	uint32_t steps;
	if (mode == 0xFD) { // enumerated: [0xFD, graph, depth, picks...]
		enumerated = true;
		int gid = t.u8() % 8;
		startGraph(w, gid);
		startDesc = "small graph " + std::to_string(gid);
		steps = t.u8() % 5;
	}
	else {
		uint8_t src = mode % 4;
		if (src == 0) {
			int gid = t.u8() % 8;
			startGraph(w, gid);
			startDesc = "small graph " + std::to_string(gid);
		}
		else {
			FileCase c = decodeFileCase(t, run);
			if (!c.ok || loadBytes(w.nif, c.bytes) != 0) {
				run.exclude("start file not usable");
				return OK;
			}
			if (w.nif.HasUnknown())
				return OK;
			adopt(w);
			startDesc = c.kind + ":" + c.label + "@" + c.version;
		}
		steps = 1 + t.u8() % 25;
	}
	std::string e0 = compare(w, false);
	if (!e0.empty())
		return finish(w, run, "start state inconsistent: " + e0, "start", startDesc);
	bool interesting = false;
	for (uint32_t s = 0; s < steps; s++) {
		Cmd c;
		if (enumerated) {
			auto cs = allCommands(w);
			c = cs[t.u16() % cs.size()];
		}
		else {
			int n = static_cast<int>(w.m.order.size());
			c.kind = t.u8() % 12;
			c.a = n > 0 ? static_cast<int>(t.u16() % static_cast<uint32_t>(n + 1)) - (t.chance(24) ? 1 : 0) : -1;
			if (c.a >= n)
				c.a = n - 1;
			c.b = t.u8() % 2;
			if (c.kind == 5) {
				// a permutation decoded from the tape (Fisher-Yates)
				c.perm.resize(static_cast<size_t>(n));
				for (int i = 0; i < n; i++)
					c.perm[static_cast<size_t>(i)] = static_cast<uint32_t>(i);
				for (int i = n - 1; i > 0; i--)
					std::swap(c.perm[static_cast<size_t>(i)], c.perm[t.u16() % static_cast<uint32_t>(i + 1)]);
			}
			if (c.kind == 6 && n > 0)
				c.name = w.m.type[w.m.order[t.u16() % static_cast<uint32_t>(n)]];
		}
		// does a surviving reference point past the affected slot? (non-triviality rule)
		if ((c.kind == 2 || c.kind == 11) && c.a >= 0 && c.a + 1 < static_cast<int>(w.m.order.size()))
			for (size_t i = static_cast<size_t>(c.a) + 1; i < w.m.order.size(); i++)
				if (referenced(w.m, w.m.order[i]))
					interesting = true;
		if (c.kind == 5 || c.kind >= 6)
			interesting = interesting || w.m.order.size() > 2;
		std::string err = apply(w, c);
		std::string last = w.log.empty() ? "none" : w.log.back();
		if (err.empty())
			err = compare(w, c.kind == 10);
		if (!err.empty())
			return finish(w, run, err, last, startDesc);
		run.cls("cmd:" + std::to_string(c.kind));
	}
	std::string err = checkSaved(w);
	if (!err.empty())
		return finish(w, run, err, "save", startDesc);
	run.cls(enumerated ? "phase:enumerated" : "phase:random");
	if (interesting) {
		uint64_t h = fnv1a(startDesc);
		for (auto& l : w.log)
			h = fnv1a(l, h);
		run.nontriv(h);
	}
	if (run.wantSample()) {
		std::string all;
		for (auto& l : w.log)
			all += l + "; ";
		run.sample(J().s("start", startDesc).s("commands", all).u("blocks_at_end", w.m.order.size()).str());
	}
	return OK;
}

// Exhaustive DFS over command sequences on the small start graphs
void deterministic(Run& run, const std::function<void(const std::vector<uint8_t>&)>& feed) {
	const bool thorough = run.args.tier == "thorough";
	for (int gid = 0; gid < 8; gid++) {
		int depth = gid < 2 ? (thorough ? 4 : 3) : gid < 6 ? (thorough ? 3 : 2) : 2;
		std::function<void(std::vector<uint16_t>&, int)> rec = [&](std::vector<uint16_t>& picks, int d) {
			std::vector<uint8_t> tape = {0xFD, static_cast<uint8_t>(gid), static_cast<uint8_t>(picks.size())};
			for (auto p : picks) {
				tape.push_back(static_cast<uint8_t>(p & 255));
				tape.push_back(static_cast<uint8_t>(p >> 8));
			}
			if (!picks.empty())
				feed(tape);
			// replay the prefix to know the number of choices at this point; this executes library code
			// outside a case (and in every shard), so the tape is announced first: a crash here is then
			// attributed to it and reproduced by its replay
			if (run.noteCurrent && !picks.empty())
				run.noteCurrent(tape.data(), tape.size());
			World w;
			startGraph(w, gid);
			for (auto p : picks) {
				auto cs = allCommands(w);
				apply(w, cs[p % cs.size()]);
			}
			if (d == 0)
				return;
			size_t nc = allCommands(w).size();
			for (size_t k = 0; k < nc; k++) {
				picks.push_back(static_cast<uint16_t>(k));
				rec(picks, d - 1);
				picks.pop_back();
			}
		};
		std::vector<uint16_t> picks;
		rec(picks, depth);
	}
}

} // namespace

int main(int argc, char** argv) {
	Harness h{};
	h.id = "C06";
	h.prop = prop;
	h.deterministic = deterministic;
	h.maxTape = 1500;
	h.quickCases = 6000;
	h.thoroughCases = 200000;
	h.rule = "case = (start graph, command sequence) against a token model (object address = block identity). Enumerated: "
			 "every sequence of commands with every argument choice up to depth 3 (quick; 4 thorough) on the two smallest "
			 "start graphs and depth 2 (3) on the others, two versions (with / without size table). Random: 1..25 commands "
			 "on created, synthesised and sample models. Non-trivial = a deletion/reorder/prune happened while a surviving "
			 "reference pointed past the affected slot; distinct = hash(start, sequence).";
	return harnessMain(argc, argv, h);
}
