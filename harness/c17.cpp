// C17 — segment/partition labels round-trip and always partition the triangles.
//
// Mode A (FO4/FO76 BSSubIndexTriShape): segmentation info with 1..8 segments x 0..6
// sub-segments, permuted non-contiguous part ids, extra data, ssf name; per-triangle labels
// drawn from the ids present plus -1; SetShapeSegments -> GetShapeSegments; then optional
// vertex deletion; then default save + reload.
// Mode B (OB/FO3/SK/SSE skinned shapes): SetShapePartitions -> GetShapePartitions, rebuild,
// optional vertex deletion, save + reload.
// Oracle: read-back equals the request under the order-of-appearance renumbering (a -1
// triangle may land in any range); every triangle has exactly one label, labels are
// non-decreasing along the stored triangle order (ranges contiguous, ordered, summing to
// the triangle count); range records are consistent; the stored triangles are a permutation
// of the previous ones, stable within a label; all of it again after deletion and reload.
#include "gen.hpp"
#include "harness.hpp"

using namespace nifly;
using namespace vf;

namespace {

// read access to the protected segment records through a pointer to member (well defined)
struct Peek : BSSubIndexTriShape {
	static auto member() { return &Peek::segmentation; }
};

// structural check of the stored FO4 segment records against the triangle count
std::string checkRecords(BSSubIndexTriShape* sits, uint32_t numTris) {
	auto& sg = sits->*Peek::member();
	if (sg.numPrimitives != numTris)
		return "segmentation.numPrimitives " + std::to_string(sg.numPrimitives) + " != triangle count " + std::to_string(numTris);
	if (sg.numSegments != sg.segments.size())
		return "numSegments != segment list size";
	uint64_t pos = 0;
	uint32_t total = 0;
	for (size_t i = 0; i < sg.segments.size(); i++) {
		auto& s = sg.segments[i];
		if (s.startIndex != pos * 3)
			return "segment " + std::to_string(i) + " starts at " + std::to_string(s.startIndex) + ", previous ranges end at " + std::to_string(pos * 3) + " (ranges not contiguous/ordered)";
		if (s.numSubSegments != s.subSegments.size())
			return "numSubSegments != sub-segment list size";
		uint64_t spos = pos;
		bool first = true;
		for (size_t j = 0; j < s.subSegments.size(); j++) {
			auto& ss = s.subSegments[j];
			if (ss.startIndex / 3 < pos || ss.startIndex / 3 + ss.numPrimitives > pos + s.numPrimitives)
				return "sub-segment " + std::to_string(i) + "." + std::to_string(j) + " lies outside its segment";
			if (!first && ss.startIndex != spos * 3)
				return "sub-segment " + std::to_string(i) + "." + std::to_string(j) + " is not contiguous with the previous one";
			if (first && ss.startIndex < pos * 3)
				return "first sub-segment starts before its segment";
			spos = ss.startIndex / 3 + ss.numPrimitives;
			first = false;
		}
		if (!s.subSegments.empty() && spos != pos + s.numPrimitives)
			return "sub-segments of segment " + std::to_string(i) + " do not end where the segment ends";
		pos += s.numPrimitives;
		total += 1 + static_cast<uint32_t>(s.subSegments.size());
	}
	if (pos != numTris)
		return "segment ranges sum to " + std::to_string(pos) + ", triangle count is " + std::to_string(numTris);
	if (sg.numTotalSegments != total && !sg.segments.empty())
		return "numTotalSegments " + std::to_string(sg.numTotalSegments) + " != " + std::to_string(total);
	return "";
}

// labels along stored order must be >= 0 and non-decreasing
std::string checkLabelOrder(const std::vector<int>& labels) {
	int prev = -1;
	for (size_t i = 0; i < labels.size(); i++) {
		if (labels[i] < 0)
			return "triangle " + std::to_string(i) + " lies in no segment range";
		if (labels[i] < prev)
			return "labels decrease along the triangle order at " + std::to_string(i) + " (ranges overlap or are unordered)";
		prev = labels[i];
	}
	return "";
}

Verdict modeA(Tape& t, Run& run) {
	const size_t vi = t.coin() ? 8 : 11; // FO4 / FO76
	const VersionCfg& ver = versions()[vi];
	NifFile nif;
	nif.Create(ver.ni());
	MeshOpts mo;
	mo.maxVerts = 60;
	mo.maxTris = 600;
	mo.coordRange = 64.0f;
	mo.allowUnusedVerts = false;
	mo.minTris = t.chance(16) ? 0 : 6;
	Mesh m = genMesh(t, mo);
	NiShape* shape = nif.CreateShapeFromData("Seg", &m.verts, &m.tris, m.uvs.empty() ? nullptr : &m.uvs, m.norms.empty() ? nullptr : &m.norms);
	auto sits = dynamic_cast<BSSubIndexTriShape*>(shape);
	if (!sits)
		return OK;
	const uint32_t T = static_cast<uint32_t>(m.tris.size());

	// segmentation info with permuted, non-contiguous part ids
	NifSegmentationInfo inf;
	uint32_t nseg = T == 0 ? t.u8() % 3 : 1 + t.u8() % 8;
	std::vector<int> idsPool;
	{
		int next = t.u8() % 5;
		for (int i = 0; i < 64; i++) {
			idsPool.push_back(next);
			next += 1 + t.u8() % 3;
		}
		// permute deterministically from the tape
		for (size_t i = idsPool.size() - 1; i > 0; i--)
			std::swap(idsPool[i], idsPool[t.u8() % (i + 1)]);
	}
	size_t idNext = 0;
	std::vector<int> allIds, leafIds, parentIds;
	bool anySub = false;
	for (uint32_t i = 0; i < nseg; i++) {
		NifSegmentInfo s;
		s.partID = idsPool[idNext++];
		uint32_t nsub = t.u8() % 7;
		for (uint32_t j = 0; j < nsub; j++) {
			NifSubSegmentInfo ss;
			ss.partID = idsPool[idNext++];
			ss.userSlotID = t.coin() ? 30 + t.u8() % 70 : t.u8() % 30;
			ss.material = t.u32();
			uint32_t nx = t.u8() % 4;
			for (uint32_t k = 0; k < nx; k++)
				ss.extraData.push_back(t.nice());
			s.subs.push_back(ss);
			leafIds.push_back(ss.partID);
			allIds.push_back(ss.partID);
			anySub = true;
		}
		if (nsub == 0)
			leafIds.push_back(s.partID);
		else
			parentIds.push_back(s.partID);
		allIds.push_back(s.partID);
		inf.segs.push_back(s);
	}
	inf.ssfFile = t.coin() ? "Meshes\\Actors\\x.ssf" : "";
	if (T > 0 && inf.segs.empty())
		return OK;

	// expected renumbering: order of appearance (segment, then its sub-segments)
	std::map<int, int> renum;
	{
		int k = 0;
		for (auto& s : inf.segs) {
			renum[s.partID] = k++;
			for (auto& ss : s.subs)
				renum[ss.partID] = k++;
		}
	}
	const bool direct = !parentIds.empty() && t.chance(80);
	std::vector<int> labels(T);
	std::set<int> distinct;
	bool hasMinus1 = false;
	for (auto& l : labels) {
		uint8_t b = t.u8();
		if (b < 0x10) {
			l = -1;
			hasMinus1 = true;
		}
		else if (direct && b < 0x50)
			l = parentIds[b % parentIds.size()];
		else
			l = leafIds[b % leafIds.size()];
		distinct.insert(l);
	}
	run.cls(std::string("A:version:") + ver.name);
	run.cls(direct ? "A:labels-direct-on-parent" : "A:labels-on-leaves");
	if (hasMinus1)
		run.cls("A:has-unassigned");
	std::vector<Triangle> before;
	shape->GetTriangles(before);

	auto detail = [&](const std::string& when, const std::string& what) {
		return J().s("mode", "segments").s("version", ver.name).u("triangles", T).u("segments", inf.segs.size()).b("sub_segments", anySub).b("direct_on_parent", direct).b("unassigned", hasMinus1).s("when", when).s("what", what).str();
	};
	const std::string sigBase = std::string("C17:segments@") + ver.name;

	NifFile::SetShapeSegments(shape, inf, labels);
	NifSegmentationInfo got;
	std::vector<int> back;
	if (!NifFile::GetShapeSegments(shape, got, back))
		return run.fail(sigBase + ":get-failed", detail("after set", "GetShapeSegments returned false"));
	std::vector<Triangle> after;
	shape->GetTriangles(after);

	// permutation, stable within a label; read-back under the renumbering
	if (after.size() != T || back.size() != T)
		return run.fail(sigBase + ":triangle-count", detail("after set", "triangle count changed"));
	{
		// expected order: stable sort of original indices by renumbered label (-1 -> 0)
		std::vector<uint32_t> idx(T);
		for (uint32_t i = 0; i < T; i++)
			idx[i] = i;
		auto key = [&](uint32_t i) { return labels[i] < 0 ? 0 : renum[labels[i]]; };
		std::stable_sort(idx.begin(), idx.end(), [&](uint32_t a, uint32_t b) { return key(a) < key(b); });
		for (uint32_t i = 0; i < T; i++) {
			const Triangle& e = before[idx[i]];
			if (after[i].p1 != e.p1 || after[i].p2 != e.p2 || after[i].p3 != e.p3)
				return run.fail(sigBase + ":permutation", detail("after set", "stored triangles are not the previous ones stably sorted by label (position " + std::to_string(i) + ")"));
			if (labels[idx[i]] >= 0 && back[i] != renum[labels[idx[i]]])
				return run.fail(sigBase + ":readback", detail("after set", "triangle " + std::to_string(i) + " reads back label " + std::to_string(back[i]) + ", expected " + std::to_string(renum[labels[idx[i]]])));
		}
	}
	// info round trip: segment/sub-segment structure, ids renumbered in order
	if (got.segs.size() != inf.segs.size())
		return run.fail(sigBase + ":info", detail("after set", "segment count read back differs"));
	for (size_t i = 0; i < inf.segs.size(); i++) {
		if (got.segs[i].subs.size() != inf.segs[i].subs.size() || got.segs[i].partID != renum[inf.segs[i].partID])
			return run.fail(sigBase + ":info", detail("after set", "segment " + std::to_string(i) + " structure/id read back differs"));
		for (size_t j = 0; j < inf.segs[i].subs.size(); j++) {
			auto& a = got.segs[i].subs[j];
			auto& e = inf.segs[i].subs[j];
			if (a.partID != renum[e.partID] || a.material != e.material || a.extraData != e.extraData)
				return run.fail(sigBase + ":info", detail("after set", "sub-segment record read back differs"));
		}
	}
	if (got.ssfFile != inf.ssfFile)
		return run.fail(sigBase + ":info", detail("after set", "ssf file name read back differs"));
	std::string err = checkLabelOrder(back);
	if (err.empty())
		err = checkRecords(sits, T);
	if (!err.empty() && !(T == 0))
		return run.fail(sigBase + ":ranges", detail("after set", err));

	if (distinct.size() >= 2 && anySub)
		run.nontriv(fnv1a(std::string(reinterpret_cast<const char*>(run.curTape), run.curTapeLen)));
	if (run.wantSample())
		run.sample(detail("sample", ""));

	// ---- optional vertex deletion
	std::vector<int> cur = back;
	if (T > 0 && t.coin()) {
		std::string cls;
		std::vector<uint16_t> D = genDeletion(t, shape->GetNumVertices(), cls);
		std::vector<bool> del(shape->GetNumVertices(), false);
		for (auto d : D)
			del[d] = true;
		std::vector<int> expect;
		for (uint32_t i = 0; i < T; i++)
			if (!del[after[i].p1] && !del[after[i].p2] && !del[after[i].p3])
				expect.push_back(back[i]);
		nif.DeleteVertsForShape(shape, D);
		run.cls("A:with-vertex-deletion");
		NifSegmentationInfo g2;
		std::vector<int> b2;
		NifFile::GetShapeSegments(shape, g2, b2);
		if (b2 != expect)
			return run.fail(direct ? "C17:segments:delete-direct-on-parent" : sigBase + ":after-delete", detail("after vertex deletion (" + cls + ")", "labels of the remaining triangles changed"));
		err = checkLabelOrder(b2);
		if (err.empty())
			err = checkRecords(sits, static_cast<uint32_t>(b2.size()));
		if (!err.empty() && !b2.empty())
			return run.fail(sigBase + ":ranges-after-delete", detail("after vertex deletion (" + cls + ")", err));
		cur = b2;
		if (shape->GetNumVertices() == 0)
			return OK;
	}

	// ---- save + reload
	std::vector<Triangle> fin;
	shape->GetTriangles(fin);
	std::string bytes;
	if (saveBytes(nif, bytes, defOpts()) != 0)
		return run.fail(sigBase + ":save", detail("save", "default save failed"));
	NifFile re;
	int rc = loadBytes(re, bytes);
	if (rc != 0)
		return run.fail(sigBase + ":reload", detail("reload", "rc=" + std::to_string(rc)));
	auto shapes = re.GetShapes();
	if (shapes.size() != 1)
		return run.fail(sigBase + ":reload", detail("reload", "shape missing"));
	NifSegmentationInfo g3;
	std::vector<int> b3;
	if (!NifFile::GetShapeSegments(shapes[0], g3, b3))
		return run.fail(sigBase + ":reload", detail("reload", "no segmentation after reload"));
	std::vector<Triangle> rt;
	shapes[0]->GetTriangles(rt);
	if (rt.size() != fin.size() || (!fin.empty() && memcmp(rt.data(), fin.data(), fin.size() * sizeof(Triangle)) != 0))
		return run.fail(sigBase + ":reload-triangles", detail("reload", "triangles changed"));
	if (b3 != cur)
		return run.fail(sigBase + ":reload-labels", detail("reload", "labels differ after save and reload"));
	// the file stores the sub-segment records (and the ssf name with them) only when there are
	// sub-segments, and the whole segmentation only when the shape has data
	if (T > 0 && (g3.segs.size() != inf.segs.size() || (anySub && g3.ssfFile != inf.ssfFile)))
		return run.fail(sigBase + ":reload-info", detail("reload", "segment info differs after reload"));
	return OK;
}

Verdict modeB(Tape& t, Run& run) {
	static const size_t vers[] = {4, 5, 6, 7};
	size_t vi = vers[t.u8() % 4];
	const VersionCfg& ver = versions()[vi];
	NifFile nif;
	nif.Create(ver.ni());
	GenShapeOpts o;
	o.allowSpecialKinds = false;
	o.allowStrips = false;
	o.allowSegments = false;
	o.allowLockedNorm = false;
	o.allowSkin = false;
	o.mesh.maxVerts = 120;
	o.mesh.maxTris = 300;
	o.mesh.allowUnusedVerts = false;
	o.mesh.minTris = 6;
	GenShape g = buildGenShape(nif, t, vi, "Part", o);
	if (!g.shape || g.mesh.tris.empty())
		return OK;
	SkinSpec sk = genSkin(t, static_cast<uint32_t>(g.mesh.verts.size()), 8, 4, true); // few bones: no bone-limit split
	applySkin(nif, g.shape, sk, true);
	NiShape* shape = g.shape;
	std::vector<Triangle> tris;
	shape->GetTriangles(tris);
	const uint32_t T = static_cast<uint32_t>(tris.size());

	NiVector<BSDismemberSkinInstance::PartitionInfo> info;
	uint32_t p = 1 + t.u8() % 5;
	for (uint32_t i = 0; i < p; i++) {
		BSDismemberSkinInstance::PartitionInfo pi;
		pi.flags = PF_EDITOR_VISIBLE;
		pi.partID = static_cast<uint16_t>(30 + t.u8() % 30);
		info.push_back(pi);
	}
	std::vector<int> req(T);
	bool special = false;
	std::set<int> distinct;
	for (auto& r : req) {
		uint8_t b = t.u8();
		if (b < 0x14) {
			r = -1;
			special = true;
		}
		else
			r = static_cast<int>(b % p);
		distinct.insert(r);
	}
	const std::string sigBase = std::string("C17:partitions@") + ver.name;
	auto detail = [&](const std::string& when, const std::string& what) {
		return J().s("mode", "partitions").s("version", ver.name).u("triangles", T).u("partitions", p).b("unassigned", special).s("when", when).s("what", what).str();
	};
	run.cls(std::string("B:version:") + ver.name);
	nif.SetShapePartitions(shape, info, req);
	NiVector<BSDismemberSkinInstance::PartitionInfo> info2;
	std::vector<int> back;
	if (!nif.GetShapePartitions(shape, info2, back))
		return run.fail(sigBase + ":get-failed", detail("after set", "GetShapePartitions returned false"));
	int numParts = static_cast<int>(p) + (special ? 1 : 0);
	std::vector<int> expect = req;
	for (auto& e : expect)
		if (e < 0)
			e = numParts - 1;
	if (back != expect)
		return run.fail(sigBase + ":readback", detail("after set", "read-back labels differ from the request (unassigned -> extra last partition)"));
	std::vector<Triangle> tris2;
	shape->GetTriangles(tris2);
	if (tris2.size() != T || memcmp(tris2.data(), tris.data(), T * sizeof(Triangle)) != 0)
		return run.fail(sigBase + ":permutation", detail("after set", "shape triangles changed"));
	if (static_cast<int>(info2.size()) != numParts)
		return run.fail(sigBase + ":info", detail("after set", "partition info count " + std::to_string(info2.size()) + ", expected " + std::to_string(numParts)));
	// callers either rebuild the partitions before saving or save the freshly assigned model as it is
	const bool saveDirectly = (t.u8() % 3) == 1;
	if (!saveDirectly)
		nif.UpdateSkinPartitions(shape);
	else
		run.cls("B:saved-directly-after-SetShapePartitions");
	if (distinct.size() >= 2)
		run.nontriv(fnv1a(std::string(reinterpret_cast<const char*>(run.curTape), run.curTapeLen)));

	// label per triangle identity
	std::map<uint64_t, int> want;
	for (uint32_t i = 0; i < T; i++)
		want[triKey(tris[i])] = expect[i];
	if (!saveDirectly && t.coin()) {
		std::string cls;
		std::vector<uint16_t> D = genDeletion(t, shape->GetNumVertices(), cls);
		std::vector<int> remap(shape->GetNumVertices(), -1);
		std::vector<bool> del(shape->GetNumVertices(), false);
		for (auto d : D)
			del[d] = true;
		int nx = 0;
		for (size_t i = 0; i < remap.size(); i++)
			if (!del[i])
				remap[i] = nx++;
		std::map<uint64_t, int> want2;
		for (uint32_t i = 0; i < T; i++)
			if (!del[tris[i].p1] && !del[tris[i].p2] && !del[tris[i].p3])
				want2[triKey(Triangle(static_cast<uint16_t>(remap[tris[i].p1]), static_cast<uint16_t>(remap[tris[i].p2]), static_cast<uint16_t>(remap[tris[i].p3])))] = expect[i];
		nif.DeleteVertsForShape(shape, D);
		want = want2;
		run.cls("B:with-vertex-deletion");
		if (shape->GetNumVertices() == 0 || shape->GetNumTriangles() == 0)
			return OK;
		// labels after deletion: same partition up to the removal of emptied partitions (order preserved)
		NiVector<BSDismemberSkinInstance::PartitionInfo> i3;
		std::vector<int> b3;
		nif.GetShapePartitions(shape, i3, b3);
		std::vector<Triangle> t3;
		shape->GetTriangles(t3);
		std::map<int, int> mapOldNew;
		for (size_t i = 0; i < t3.size(); i++) {
			auto it = want.find(triKey(t3[i]));
			if (it == want.end())
				return run.fail(sigBase + ":after-delete", detail("after vertex deletion", "unexpected triangle"));
			auto m = mapOldNew.find(it->second);
			if (m == mapOldNew.end())
				mapOldNew[it->second] = b3[i];
			else if (m->second != b3[i])
				return run.fail(sigBase + ":after-delete", detail("after vertex deletion", "triangles of one partition are now spread over several"));
		}
		int prevNew = -1;
		for (auto& kv : mapOldNew) { // ordered by old id
			if (kv.second <= prevNew)
				return run.fail(sigBase + ":after-delete", detail("after vertex deletion", "partition order changed"));
			prevNew = kv.second;
		}
		for (auto& kv : want)
			kv.second = mapOldNew[kv.second];
	}
	std::string bytes;
	if (saveBytes(nif, bytes, defOpts()) != 0)
		return run.fail(sigBase + ":save", detail("save", "default save failed"));
	NifFile re;
	if (loadBytes(re, bytes) != 0)
		return run.fail(sigBase + ":reload", detail("reload", "rejected"));
	NiShape* rs = nullptr;
	for (auto s : re.GetShapes())
		if (s->name.get() == "Part")
			rs = s;
	if (!rs)
		return run.fail(sigBase + ":reload", detail("reload", "shape missing"));
	NiVector<BSDismemberSkinInstance::PartitionInfo> i4;
	std::vector<int> b4;
	if (!re.GetShapePartitions(rs, i4, b4))
		return run.fail(sigBase + ":reload", detail("reload", "no partitions"));
	std::vector<Triangle> t4;
	rs->GetTriangles(t4);
	if (t4.size() != want.size())
		return run.fail(sigBase + ":reload-triangles", detail("reload", "triangle count " + std::to_string(t4.size()) + ", expected " + std::to_string(want.size())));
	// empty partitions are kept by the writer; labels must match per triangle identity
	for (size_t i = 0; i < t4.size(); i++) {
		auto it = want.find(triKey(t4[i]));
		if (it == want.end())
			return run.fail(sigBase + ":reload-triangles", detail("reload", "stored triangles are not a permutation of the previous ones"));
		if (it->second != b4[i])
			return run.fail(sigBase + ":reload-labels", detail("reload", "triangle label " + std::to_string(b4[i]) + ", expected " + std::to_string(it->second)));
	}
	return OK;
}

Verdict prop(Tape& t, Run& run) {
	return t.u8() % 3 == 0 ? modeB(t, run) : modeA(t, run);
}

} // namespace

int main(int argc, char** argv) {
	Harness h{};
	h.id = "C17";
	h.prop = prop;
	h.deterministic = nullptr;
	h.maxTape = 3000;
	h.quickCases = 20000;
	h.thoroughCases = 400000;
	h.rule = "case A = (FO4/FO76 sub-index shape with 0..600 triangles, segmentation info with 1..8 segments x 0..6 "
			 "sub-segments and permuted ids, label list over ids present and -1, optional vertex deletion, save+reload); "
			 "case B = (OB/FO3/SK/SSE skinned shape, partition infos, label list incl. -1, rebuild, optional deletion, "
			 "save+reload). Non-trivial = >=2 distinct labels (and a sub-segment in use for A); distinct = hash(tape).";
	return harnessMain(argc, argv, h);
}
