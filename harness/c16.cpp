// C16 — truncated files never crash the loader (fault enumeration over truncation points).
//
// Fault model: a prefix of a valid file (what remains when a writer is killed or the disk
// fills). Enumerated: every byte offset for files < 16 KB; for larger files every offset within
// +-8 bytes of each block boundary, the whole header, and a stride through the payloads.
// Random: arbitrary cut points in samples and synthesised files.
// Oracle (forked child): Load(prefix) returns (any code); the loaded part is queried, saved with
// default options into a buffer and destroyed - no sanitizer report, signal, arithmetic fault or hang.
#include "battery.hpp"
#include "cases.hpp"
#include "isolate.hpp"

using namespace nifly;
using namespace vf;

namespace {

int childBody(const std::string& prefix) {
	NifFile nif;
	int rc = loadBytes(nif, prefix);
	printf("load rc=%d valid=%d blocks=%u\n", rc, nif.IsValid(), nif.GetHeader().GetNumBlocks());
	BatteryOpts bo;
	bo.withPartitions = false; // these two queries index unvalidated tables (see DESIGN.md section 4)
	std::string q = battery(nif, bo);
	std::string out;
	int src = saveBytes(nif, out, defOpts());
	printf("save rc=%d bytes=%zu\n", src, out.size());
	{
		NifFile copy(nif);
	}
	nif.Clear();
	return 0;
}

struct Layout {
	size_t headerEnd = 0;
	std::vector<size_t> blockStarts; // incl. end of last block
};

Layout layoutOf(const std::string& bytes) {
	Layout l;
	auto mf = mini::parse(bytes);
	if (!mf.ok)
		return l;
	l.headerEnd = mf.headerEnd;
	if (mf.ver.hasSizes()) {
		size_t pos = mf.headerEnd;
		l.blockStarts.push_back(pos);
		for (auto s : mf.sizes) {
			pos += s;
			l.blockStarts.push_back(pos);
		}
	}
	return l;
}

Verdict runCut(const FileCase& c, size_t cut, Run& run, const std::string& cutClass) {
	if (cut > c.bytes.size())
		cut = c.bytes.size();
	std::string prefix = c.bytes.substr(0, cut);
	run.cls("cut:" + cutClass);
	run.cls("kind:" + c.kind);
	ChildResult r = runIsolated([&]() { return childBody(prefix); }, run.replaying ? 40 : 20);
	if (run.wantSample())
		run.sample(J().s("file", c.kind + ":" + c.label).s("version", c.version).u("file_bytes", c.bytes.size()).u("cut_at", cut).s("cut_class", cutClass).s("result", r.ok ? r.output.substr(0, 60) : r.kind).str());
	if (r.ok)
		return OK;
	if (c.kind != "corpus") {
		// synthesised files: attribute only what the complete file does not show
		ChildResult base = runIsolated([&]() { return childBody(c.bytes); }, 20);
		if (!base.ok) {
			run.exclude("synthesised file fails even when complete (outside this property)");
			return OK;
		}
	}
	std::string sig;
	if (r.timeout)
		sig = "C16:hang";
	else if (r.crashed)
		sig = "C16:" + r.kind + ":" + (r.frame.empty() ? "?" : r.frame);
	else
		sig = "C16:child-exit-" + std::to_string(r.exitCode);
	return run.fail(sig, J().s("file", c.kind + ":" + c.label).s("version", c.version).u("file_bytes", c.bytes.size()).u("cut_at", cut).s("cut_class", cutClass).s("report", r.output.substr(0, 2500)).s("nif_hex", to_hex(prefix)).str());
}

// tape after the file case: cut selector
Verdict prop(Tape& t, Run& run) {
	FileCase c = decodeFileCase(t, run);
	if (!c.ok) {
		run.exclude(c.why);
		return OK;
	}
	{
		NifFile probe;
		if (c.kind != "corpus" && loadBytes(probe, c.bytes) != 0) {
			run.exclude("file not accepted by Load");
			return OK;
		}
	}
	Layout l = layoutOf(c.bytes);
	size_t cut;
	std::string cls;
	uint8_t how = t.u8() % 4;
	if (how == 0 || l.blockStarts.size() < 2) {
		cut = t.u32() % (c.bytes.size() + 1);
		cls = cut < l.headerEnd ? "header" : "anywhere";
	}
	else if (how == 1) {
		cut = t.u32() % (l.headerEnd + 1);
		cls = "header";
	}
	else if (how == 2) {
		size_t b = t.u16() % l.blockStarts.size();
		int d = static_cast<int>(t.u8() % 17) - 8;
		long p = static_cast<long>(l.blockStarts[b]) + d;
		cut = p < 0 ? 0 : static_cast<size_t>(p);
		cls = "block-boundary";
	}
	else {
		// inside the first 64 bytes of a block: array counts and flags live there
		size_t b = t.u16() % (l.blockStarts.size() - 1);
		cut = l.blockStarts[b] + t.u8() % 64;
		cls = "block-head";
	}
	if (cut > c.bytes.size())
		cut = c.bytes.size();
	if (cut > 0 && cut < c.bytes.size())
		run.nontriv(hash_mix(c.hash, cut));
	return runCut(c, cut, run, cls);
}

void deterministic(Run& run, const std::function<void(const std::vector<uint8_t>&)>& feed) {
	// encoded as: [1, file, 0 (how=0 -> "anywhere"), cut as u32]
	auto& cp = corpus(run.args.corpus);
	const bool thorough = run.args.tier == "thorough";
	auto emit = [&](size_t i, size_t cut) {
		feed({1, static_cast<uint8_t>(i), 0, static_cast<uint8_t>(cut & 255), static_cast<uint8_t>((cut >> 8) & 255), static_cast<uint8_t>((cut >> 16) & 255), static_cast<uint8_t>(cut >> 24)});
	};
	for (size_t i = 0; i < cp.size(); i++) {
		const std::string& b = cp[i].bytes;
		Layout l = layoutOf(b);
		std::set<size_t> cuts;
		if (b.size() < 16 * 1024 && (thorough || b.size() < 4 * 1024)) {
			for (size_t c = 0; c < b.size(); c++)
				cuts.insert(c);
		}
		else {
			// quick tier: the larger the file (and the costlier each child), the sparser the cuts
			const bool big = b.size() >= 32 * 1024;
			size_t hdrStep = thorough ? 1 : big ? 31 : 7;
			for (size_t c = 0; c <= l.headerEnd && c < b.size(); c += hdrStep)
				cuts.insert(c);
			const int around = thorough ? 8 : big ? 1 : 4;
			for (auto s : l.blockStarts)
				for (int d = -around; d <= around; d++) {
					long p = static_cast<long>(s) + d;
					if (p >= 0 && static_cast<size_t>(p) < b.size())
						cuts.insert(static_cast<size_t>(p));
				}
			// the first bytes of every block (counts) and a stride through the rest
			const size_t headLen = thorough ? 96 : big ? 8 : 20, headStep = thorough ? 1 : 4;
			for (size_t k = 0; k + 1 < l.blockStarts.size(); k++)
				for (size_t d = 0; d < headLen; d += headStep)
					if (l.blockStarts[k] + d < l.blockStarts[k + 1])
						cuts.insert(l.blockStarts[k] + d);
			size_t stride = thorough ? 97 : big ? 9973 : 1499;
			for (size_t c = l.headerEnd; c < b.size(); c += stride)
				cuts.insert(c);
		}
		for (auto c : cuts)
			emit(i, c);
	}
}

} // namespace

int main(int argc, char** argv) {
	Harness h{};
	h.id = "C16";
	h.prop = prop;
	h.deterministic = deterministic;
	h.maxTape = 2000;
	h.quickCases = 4000;
	h.thoroughCases = 300000;
	h.rule = "fault = truncation of a valid file at a byte offset. Enumerated on the 26 samples: every offset of small files, "
			 "the whole header, +-8 bytes around every block boundary, the first bytes of every block and a stride through "
			 "the payloads; random: arbitrary / header / boundary / block-head cuts of samples and synthesised files. Each "
			 "prefix is loaded, queried, saved and destroyed in a forked sanitised child. Non-trivial = cut strictly inside "
			 "the file; distinct = hash(file, offset).";
	return harnessMain(argc, argv, h);
}
