// C16 — truncated files never crash the loader (fault enumeration over truncation points).
//
// Fault model: a prefix of a valid file (what remains when a writer is killed or the disk
// fills). Enumerated: every byte offset for files < 16 KB; for larger files every offset within
// +-8 bytes of each block boundary, the whole header, and a stride through the payloads.
// Random: arbitrary cut points in samples and synthesised files.
// Oracle (forked child): Load(prefix) returns (any code); the loaded part is queried, saved with
// default options into a buffer and destroyed - no sanitizer report, signal, arithmetic fault or hang.
#include "battery.hpp"
#include "cases.hpp"
#include "isolate.hpp"
#include "readmap.hpp"

using namespace nifly;
using namespace vf;

namespace {

// light = without the default save (its pruning of a partially loaded graph is quadratic in the
// number of blocks and dominates the cost); the full body does everything the light one does.
int childBody(const std::string& prefix, bool light = false) {
	NifFile nif;
	int rc = loadBytes(nif, prefix);
	printf("load rc=%d valid=%d blocks=%u\n", rc, nif.IsValid(), nif.GetHeader().GetNumBlocks());
	BatteryOpts bo;
	bo.withPartitions = false; // these two queries index unvalidated tables (see DESIGN.md section 4)
	std::string q = battery(nif, bo);
	{
		NifFile copy(nif);
		std::string out;
		int src = saveBytes(copy, out, rawOpts());
		printf("raw save rc=%d bytes=%zu\n", src, out.size());
	}
	if (!light) {
		std::string out;
		int src = saveBytes(nif, out, defOpts());
		printf("save rc=%d bytes=%zu\n", src, out.size());
	}
	nif.Clear();
	return 0;
}

struct Layout {
	size_t headerEnd = 0;
	std::vector<size_t> blockStarts; // incl. end of last block
};

Layout layoutOf(const std::string& bytes) {
	Layout l;
	auto mf = mini::parse(bytes);
	if (!mf.ok)
		return l;
	l.headerEnd = mf.headerEnd;
	if (mf.ver.hasSizes()) {
		size_t pos = mf.headerEnd;
		l.blockStarts.push_back(pos);
		for (auto s : mf.sizes) {
			pos += s;
			l.blockStarts.push_back(pos);
		}
	}
	return l;
}

Verdict runCut(const FileCase& c, size_t cut, Run& run, const std::string& cutClass) {
	if (cut > c.bytes.size())
		cut = c.bytes.size();
	std::string prefix = c.bytes.substr(0, cut);
	run.cls("cut:" + cutClass);
	run.cls("kind:" + c.kind);
	// once this process has seen a hang (reported, and confirmed separately by replays with the long
	// limit) further hangs are only counted: a shorter limit keeps a tree that hangs often within the budget
	static bool sawHang = false;
	ChildResult r = runIsolated([&]() { return childBody(prefix); }, run.replaying ? 40 : sawHang ? 6 : 20);
	if (r.timeout)
		sawHang = true;
	if (run.wantSample())
		run.sample(J().s("file", c.kind + ":" + c.label).s("version", c.version).u("file_bytes", c.bytes.size()).u("cut_at", cut).s("cut_class", cutClass).s("result", r.ok ? r.output.substr(0, 60) : r.kind).str());
	if (r.ok)
		return OK;
	if (c.kind != "corpus") {
		// synthesised files: attribute only what the complete file does not show
		ChildResult base = runIsolated([&]() { return childBody(c.bytes); }, 20);
		if (!base.ok) {
			run.exclude("synthesised file fails even when complete (outside this property)");
			return OK;
		}
	}
	std::string sig;
	if (r.timeout)
		sig = "C16:hang";
	else if (r.crashed)
		sig = "C16:" + r.kind + ":" + (r.frame.empty() ? "?" : r.frame);
	else
		sig = "C16:child-exit-" + std::to_string(r.exitCode);
	return run.fail(sig, J().s("file", c.kind + ":" + c.label).s("version", c.version).u("file_bytes", c.bytes.size()).u("cut_at", cut).s("cut_class", cutClass).s("report", r.output.substr(0, 2500)).s("nif_hex", to_hex(prefix)).str());
}

// tape after the file case: cut selector
Verdict prop(Tape& t, Run& run) {
	FileCase c = decodeFileCase(t, run);
	if (!c.ok) {
		run.exclude(c.why);
		return OK;
	}
	{
		NifFile probe;
		if (c.kind != "corpus" && loadBytes(probe, c.bytes) != 0) {
			run.exclude("file not accepted by Load");
			return OK;
		}
	}
	Layout l = layoutOf(c.bytes);
	size_t cut;
	std::string cls;
	uint8_t how = t.u8() % 4;
	if (how == 0 || l.blockStarts.size() < 2) {
		cut = t.u32() % (c.bytes.size() + 1);
		cls = cut < l.headerEnd ? "header" : "anywhere";
	}
	else if (how == 1) {
		cut = t.u32() % (l.headerEnd + 1);
		cls = "header";
	}
	else if (how == 2) {
		size_t b = t.u16() % l.blockStarts.size();
		int d = static_cast<int>(t.u8() % 17) - 8;
		long p = static_cast<long>(l.blockStarts[b]) + d;
		cut = p < 0 ? 0 : static_cast<size_t>(p);
		cls = "block-boundary";
	}
	else {
		// inside the first 64 bytes of a block: array counts and flags live there
		size_t b = t.u16() % (l.blockStarts.size() - 1);
		cut = l.blockStarts[b] + t.u8() % 64;
		cls = "block-head";
	}
	if (cut > c.bytes.size())
		cut = c.bytes.size();
	if (cut > 0 && cut < c.bytes.size())
		run.nontriv(hash_mix(c.hash, cut));
	return runCut(c, cut, run, cls);
}

void deterministic(Run& run, const std::function<void(const std::vector<uint8_t>&)>& feed) {
	// encoded as: [1, file, 0 (how=0 -> "anywhere"), cut as u32]
	auto& cp = corpus(run.args.corpus);
	const bool thorough = run.args.tier == "thorough";
	auto tapeOf = [&](size_t i, size_t cut) {
		return std::vector<uint8_t>{1, static_cast<uint8_t>(i), 0, static_cast<uint8_t>(cut & 255), static_cast<uint8_t>((cut >> 8) & 255), static_cast<uint8_t>((cut >> 16) & 255),
									static_cast<uint8_t>(cut >> 24)};
	};
	uint64_t gidx = 0;
	run.feedAll = true; // sharded here, by cut
	for (size_t i = 0; i < cp.size(); i++) {
		const std::string& b = cp[i].bytes;
		Layout l = layoutOf(b);
		std::set<size_t> cuts;
		// (a) field-guided: the loader's own reads of the complete file (pass-through hook H1) give every
		// field boundary; per read site (a place in some Sync()) the first occurrences and the last one are
		// cut at the start of the field, one byte in and one byte before its end
		{
			ReadMap rm = readMapOf(b);
			auto fc = fieldCuts(rm, thorough ? 6 : 2);
			run.cls("field-guided-cuts", fc.size());
			for (auto c : fc)
				if (c < b.size())
					cuts.insert(c);
		}
		const size_t nField = cuts.size();
		// (b) structural
		if (b.size() < 16 * 1024 && (thorough || b.size() < 4 * 1024)) {
			for (size_t c = 0; c < b.size(); c++)
				cuts.insert(c);
		}
		else {
			// quick tier: the larger the file (and the costlier each case), the sparser the cuts
			const bool big = b.size() >= 32 * 1024;
			size_t hdrStep = thorough ? 1 : big ? 31 : 7;
			for (size_t c = 0; c <= l.headerEnd && c < b.size(); c += hdrStep)
				cuts.insert(c);
			const int around = thorough ? 8 : big ? 1 : 4;
			for (auto s : l.blockStarts)
				for (int d = -around; d <= around; d++) {
					long p = static_cast<long>(s) + d;
					if (p >= 0 && static_cast<size_t>(p) < b.size())
						cuts.insert(static_cast<size_t>(p));
				}
			// the first bytes of every block (counts) and a stride through the rest
			const size_t headLen = thorough ? 96 : big ? 8 : 20, headStep = thorough ? 1 : 4;
			for (size_t k = 0; k + 1 < l.blockStarts.size(); k++)
				for (size_t d = 0; d < headLen; d += headStep)
					if (l.blockStarts[k] + d < l.blockStarts[k + 1])
						cuts.insert(l.blockStarts[k] + d);
			size_t stride = thorough ? 97 : big ? 9973 : 1499;
			for (size_t c = l.headerEnd; c < b.size(); c += stride)
				cuts.insert(c);
		}
		(void) nField;
		std::vector<size_t> mine;
		for (auto c : cuts)
			if (static_cast<int>(gidx++ % static_cast<uint64_t>(run.args.nshards)) == run.args.shard)
				mine.push_back(c);
		// Run my cuts of this file in batches inside one forked child each; a case that does not complete
		// is decided on its own by the ordinary isolated path (feed -> prop -> runCut).
		const uint64_t fileHash = fnv1a(b);
		size_t at = 0;
		while (at < mine.size()) {
			size_t n = std::min<size_t>(32, mine.size() - at);
			// every fifth case with the default save as well
			size_t firstBad = runBatchIsolated(n, [&](size_t k) { return childBody(b.substr(0, mine[at + k]), (at + k) % 5 != 0); }, 20);
			for (size_t k = 0; k < firstBad && k < n; k++) {
				run.evaluations++;
				run.bulkEnumerated++;
				run.cls((at + k) % 5 != 0 ? "cut:enumerated(batched, load+query+copy+raw save)" : "cut:enumerated(batched, + default save)");
				run.cls("kind:corpus");
				if (mine[at + k] > 0)
					run.nontriv(hash_mix(fileHash, mine[at + k]));
			}
			if (firstBad < n) {
				feed(tapeOf(i, mine[at + firstBad]));
				at += firstBad + 1;
			}
			else
				at += n;
		}
	}
	run.feedAll = false;
}

} // namespace

int main(int argc, char** argv) {
	Harness h{};
	h.id = "C16";
	h.prop = prop;
	h.deterministic = deterministic;
	h.maxTape = 2000;
	h.quickCases = 4000;
	h.thoroughCases = 60000;
	h.rule = "fault = truncation of a valid file at a byte offset. Enumerated on the 26 samples: every offset of small files, "
			 "the whole header, +-8 bytes around every block boundary, the first bytes of every block and a stride through "
			 "the payloads; random: arbitrary / header / boundary / block-head cuts of samples and synthesised files. Each "
			 "prefix is loaded, queried, saved and destroyed in a forked sanitised child. Non-trivial = cut strictly inside "
			 "the file; distinct = hash(file, offset).";
	return harnessMain(argc, argv, h);
}
