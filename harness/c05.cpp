// C05 — every serialised block or string reference is enumerated by its owner.
//
// Domain: every registered block type x every supported version x choice tapes
// (Engine S feeds the block through the library's own reading code).
// Oracle A (enumeration): the set of NiRef* / NiStringRef* that pass through the
//   reference serialisers while the block is written must be a subset of what
//   GetChildRefs u GetPtrs / GetStringRefs report.
// Oracle B (consequence, end to end): put the block in a file, delete another
//   block, raw-save, and read the saved reference fields back: each must have
//   followed the deletion; each string index must still denote the same text.
#include "harness.hpp"
#include "cases.hpp"

using namespace nifly;
using namespace vf;

namespace {

struct Obs {
	std::vector<NiRef*> refs;
	std::vector<std::streamsize> refOffsets;
	std::vector<NiStringRef*> strs;
	std::vector<std::streamsize> strOffsets;
	static void onRef(void* ctx, NiRef* r, bool writing, std::streamsize off) {
		if (!writing)
			return;
		auto o = static_cast<Obs*>(ctx);
		o->refs.push_back(r);
		o->refOffsets.push_back(off);
	}
	static void onStr(void* ctx, NiStringRef* r, bool writing, std::streamsize off) {
		if (!writing)
			return;
		auto o = static_cast<Obs*>(ctx);
		o->strs.push_back(r);
		o->strOffsets.push_back(off);
	}
};

// Put `obj` with observers installed; returns payload
std::string observedPut(NiObject& obj, NiHeader& hdr, Obs& obs) {
	verif::Hooks hooks;
	hooks.onBlockRef = &Obs::onRef;
	hooks.onStringRef = &Obs::onStr;
	hooks.ctx = &obs;
	std::ostringstream os(std::ios::binary);
	NiOStream out(&os, &hdr);
	verif::hooks = &hooks;
	obj.Put(out);
	verif::hooks = nullptr;
	return os.str();
}

uint32_t rd32(const std::string& s, size_t off) {
	uint32_t v = 0xFFFFFFFFu;
	if (off + 4 <= s.size())
		memcpy(&v, s.data() + off, 4);
	return v;
}

Verdict checkCase(const std::string& type, size_t vi, Tape& tape, Run& run) {
	const VersionCfg& v = versions()[vi];
	SynthFile sf = synthSingleFile(type, vi, tape);
	if (!sf.ok) {
		run.exclude(sf.aborted ? "synthesis aborted (payload limit)" : "synthesis failed");
		return OK;
	}
	run.cls(std::string("version:") + v.name);

	// ---------- Oracle A: enumeration on the hook-fed object
	NiObject& obj = *sf.subject.obj;
	NiHeader hdr;
	hdr.SetVersion(v.ni());
	for (auto& s : synthStrings())
		hdr.AddOrFindStringId(s);
	Obs obs;
	observedPut(obj, hdr, obs);

	std::set<NiRef*> enumerated;
	obj.GetChildRefs(enumerated);
	obj.GetPtrs(enumerated);
	std::vector<NiStringRef*> strEnumV;
	obj.GetStringRefs(strEnumV);
	std::set<NiStringRef*> strEnum(strEnumV.begin(), strEnumV.end());

	uint64_t h = fnv1a(type);
	h = hash_mix(h, vi);
	h = hash_mix(h, obs.refs.size());
	h = hash_mix(h, obs.strs.size());
	uint32_t nonEmpty = 0;
	for (auto r : obs.refs)
		if (!r->IsEmpty())
			nonEmpty++;
	h = hash_mix(h, nonEmpty);
	if (!obs.refs.empty() || !obs.strs.empty()) {
		run.nontriv(h);
		run.cls("has-refs-or-strings");
	}
	if (nonEmpty)
		run.cls("has-nonempty-ref");
	if (run.wantSample())
		run.sample(J().s("type", type)
					   .s("version", v.name)
					   .u("payload_bytes", sf.payloadSize)
					   .u("refs_written", obs.refs.size())
					   .u("strings_written", obs.strs.size())
					   .s("payload_hex_prefix", to_hex(sf.subject.payload.substr(0, 48)))
					   .str());

	for (size_t i = 0; i < obs.refs.size(); i++)
		if (!enumerated.count(obs.refs[i]))
			return run.fail("C05:" + type + ":ref",
							J().s("type", type)
								.s("version", v.name)
								.u("ordinal", i)
								.n("offset", obs.refOffsets[i])
								.s("what", "block reference serialised but not reported by GetChildRefs/GetPtrs")
								.s("nif_hex", to_hex(sf.bytes))
								.str());
	for (size_t i = 0; i < obs.strs.size(); i++)
		if (!strEnum.count(obs.strs[i]))
			return run.fail("C05:" + type + ":str",
							J().s("type", type)
								.s("version", v.name)
								.u("ordinal", i)
								.n("offset", obs.strOffsets[i])
								.s("what", "string-table reference serialised but not reported by GetStringRefs")
								.s("nif_hex", to_hex(sf.bytes))
								.str());

	// ---------- Oracle B: end-to-end consequence
	if (obs.refs.empty() && obs.strs.empty())
		return OK;
	NifFile nif;
	if (loadBytes(nif, sf.bytes) != 0) {
		run.exclude("synthesised file rejected by Load");
		return OK;
	}
	auto& nh = nif.GetHeader();
	auto subj = nh.GetBlock<NiObject>(1u);
	if (!subj || nh.GetNumBlocks() < 4)
		return OK;
	// before: reference values and string texts of the subject
	std::vector<uint32_t> beforeRefs;
	std::vector<std::string> beforeStr;
	{
		auto c = subj->Clone();
		Obs o;
		std::string p = observedPut(*c, nh, o);
		for (auto off : o.refOffsets)
			beforeRefs.push_back(rd32(p, static_cast<size_t>(off)));
		for (auto off : o.strOffsets) {
			uint32_t idx = rd32(p, static_cast<size_t>(off));
			beforeStr.push_back(idx == 0xFFFFFFFFu ? std::string() : nh.GetStringById(idx));
		}
	}
	// Victim: one of the reference targets, but never the geometry-data block: NiGeometry
	// caches a raw pointer to its data block and NiHeader::DeleteBlock does not clear it
	// (an API hazard outside this property; see DESIGN.md section 4).
	static const uint32_t victims[] = {2, 3, 4, 6};
	const uint32_t victim = victims[tape.u8() % 4];
	nh.DeleteBlock(victim);
	std::string saved;
	if (saveBytes(nif, saved, rawOpts()) != 0)
		return run.fail("C05:" + type + ":save-failed", J().s("type", type).s("version", v.name).str());
	auto mf = mini::parse(saved);
	std::string subjPayload;
	std::vector<std::string> outStrings;
	Obs o2;
	{
		auto c = subj->Clone();
		subjPayload = observedPut(*c, nh, o2);
	}
	if (mf.ok && mf.ver.hasSizes() && mf.payloads.size() > 1) {
		if (mf.payloads[1] != subjPayload)
			run.exclude("saved payload differs from clone payload (not comparable)");
		else
			run.cls("consequence-checked-against-file-bytes");
	}
	outStrings = mf.strings;

	std::multiset<uint32_t> expect, got;
	for (auto r : beforeRefs) {
		if (r == 0xFFFFFFFFu || r == victim)
			continue;
		expect.insert(r > victim ? r - 1 : r);
	}
	for (auto off : o2.refOffsets) {
		uint32_t r = rd32(subjPayload, static_cast<size_t>(off));
		if (r != 0xFFFFFFFFu)
			got.insert(r);
	}
	bool refsTouched = false;
	for (auto r : beforeRefs)
		if (r != 0xFFFFFFFFu && r >= victim)
			refsTouched = true;
	if (refsTouched)
		run.cls("consequence-ref-moved-or-cleared");
	if (expect != got)
		return run.fail("C05:" + type + ":stale-ref",
						J().s("type", type)
							.s("version", v.name)
							.u("deleted_block", victim)
							.raw("refs_before", jarr_num(beforeRefs))
							.raw("refs_after",
								 jarr_num(std::vector<uint32_t>(got.begin(), got.end())))
							.s("what", "after deleting a block, a saved reference field did not follow the deletion")
							.s("nif_hex", to_hex(sf.bytes))
							.str());
	if (mf.ok && mf.ver.stringIndices() && o2.strOffsets.size() == beforeStr.size()) {
		for (size_t i = 0; i < beforeStr.size(); i++) {
			uint32_t idx = rd32(subjPayload, static_cast<size_t>(o2.strOffsets[i]));
			std::string now;
			if (idx != 0xFFFFFFFFu) {
				if (idx >= outStrings.size())
					return run.fail("C05:" + type + ":string-index-out-of-table",
									J().s("type", type).s("version", v.name).u("ordinal", i).u("index", idx).s("nif_hex", to_hex(sf.bytes)).str());
				now = outStrings[idx];
			}
			if (now != beforeStr[i])
				return run.fail("C05:" + type + ":stale-string",
								J().s("type", type)
									.s("version", v.name)
									.u("ordinal", i)
									.s("before", beforeStr[i])
									.s("after", now)
									.s("what", "after the string table was rebuilt a saved string index denotes another string")
									.s("nif_hex", to_hex(sf.bytes))
									.str());
		}
		if (!beforeStr.empty())
			run.cls("consequence-strings-checked");
	}
	return OK;
}

Verdict prop(Tape& t, Run& run) {
	auto& types = registeredTypes();
	size_t ti = t.u16() % types.size();
	// version byte >= 0xE0: one integer-like read of the subject is forced (one-factor sweep, cases.hpp)
	uint8_t vb = t.u8();
	size_t vi = (vb >= 0xE0 ? vb - 0xE0 : vb) % versions().size();
	if (vb >= 0xE0) {
		force().read = t.u8() % kSweepMaxReads;
		force().value = t.u8() % kSweepMaxValue;
		run.cls("forced-read");
	}
	Verdict v = checkCase(types[ti], vi, t, run);
	force() = Force();
	return v;
}

// Exhaustive over type x version with pattern tapes (no randomness)
void deterministic(Run& run, const std::function<void(const std::vector<uint8_t>&)>& feed) {
	auto& types = registeredTypes();
	static const uint8_t patterns[] = {0x00, 0xA1, 0xC9, 0xE1, 0x95, 0xFF, 0x61, 0xF9};
	size_t np = run.args.tier == "thorough" ? 8 : 4;
	for (size_t ti = 0; ti < types.size(); ti++)
		for (size_t vi = 0; vi < versions().size(); vi++)
			for (size_t p = 0; p < np; p++) {
				std::vector<uint8_t> tape = {static_cast<uint8_t>(ti & 255), static_cast<uint8_t>(ti >> 8),
											 static_cast<uint8_t>(vi)};
				tape.resize(3 + (patterns[p] ? 600 : 0), patterns[p]);
				feed(tape);
			}
	// forced-read sweep (tapes that reach read sites the pattern tapes do not), re-encoded for this harness
	const bool th = run.args.tier == "thorough";
	uint64_t tried = 0, novel = 0;
	run.feedAll = true;
	auto recode = [](const std::vector<uint8_t>& s) {
		std::vector<uint8_t> tape = {s[1], s[2], static_cast<uint8_t>(0xE0 + s[3]), s[4], s[5]};
		tape.insert(tape.end(), s.begin() + 6, s.end());
		return tape;
	};
	sweepCells(run.args.shard, run.args.nshards, th ? 24 : 8, th ? 32 : 24, np, [&](const std::vector<uint8_t>& s) { feed(recode(s)); }, tried, novel,
			   [&](const std::vector<uint8_t>& s) {
				   if (run.noteCurrent) {
					   auto tape = recode(s);
					   run.noteCurrent(tape.data(), tape.size());
				   }
			   });
	run.feedAll = false;
	run.cls("sweep:forced-reads-tried", tried);
	run.cls("sweep:tapes-reaching-new-read-sites", novel);
}

} // namespace

int main(int argc, char** argv) {
	Harness h{};
	h.id = "C05";
	h.prop = prop;
	h.deterministic = deterministic;
	h.maxTape = 1500;
	h.quickCases = 120000;
	h.thoroughCases = 2500000;
	h.rule = "case = (block type, version, choice tape) fed through the library's reading code; enumerated part = all "
			 "registered types x 14 versions x constant-byte pattern tapes; random part = rapidcheck tapes. "
			 "Non-trivial = the block wrote >=1 block or string reference; distinct = hash(type, version, #refs, "
			 "#strings, #non-empty refs).";
	return harnessMain(argc, argv, h);
}
