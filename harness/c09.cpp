// C09 — deleting vertices keeps a shape and its skin data consistent.
//
// Domain: generated shapes of every geometry kind (NiTriShape, NiTriStrips, segmented,
// LOD, BSTriShape incl. dynamic / sub-index / mesh-LOD; skinned and unskinned; strips
// in partitions; LOCKEDNORM lists; FO4 and SSE segments) and the shapes of the sample
// files x sorted index subsets (single, prefix, suffix, random, all) x 1-3 deletions.
// Oracle: a reference model computed from the snapshot taken before the deletion.
#include "gen.hpp"
#include "harness.hpp"

using namespace nifly;
using namespace vf;

namespace {

struct PartSnap {
	uint16_t numVertices = 0, numTriangles = 0, numStrips = 0;
	std::vector<uint16_t> vertexMap;
	std::vector<Triangle> trueTris; // in shape vertex indices, as stored or derived
	size_t weightsSize = 0, boneIdxSize = 0, stripLenSize = 0, stripsSize = 0, trianglesSize = 0;
	bool hasVertexWeights = false, hasBoneIndices = false;
};

struct Snap {
	uint16_t nv = 0;
	std::vector<Vector3> verts, normals, tangents, bitangents;
	std::vector<Vector2> uvs;
	std::vector<Color4> colors;
	std::vector<float> eye;
	std::vector<Triangle> tris;
	bool hasUvs = false, hasNormals = false, hasTangents = false, hasColors = false, hasEye = false;
	// skin
	bool hasSkinData = false;
	std::vector<std::vector<std::pair<uint16_t, float>>> boneWeights; // NiSkinData, per bone, in stored order
	std::vector<std::array<float, 4>> vertWeights;					  // BSTriShape per-vertex weights
	std::vector<std::array<uint8_t, 4>> vertBones;
	bool hasPartitions = false;
	bool mapped = true;
	std::vector<PartSnap> parts;
	size_t dismemberCount = 0;
	bool hasDismember = false;
	size_t partVertDataSize = 0;
	uint32_t partNumVertices = 0;
	// segments
	bool hasFo4Segs = false;
	std::vector<int> fo4Labels;
	bool hasSseSegs = false;
	std::vector<BSGeometrySegmentData> sseSegs;
	// locked normals
	bool hasLocked = false;
	std::vector<uint32_t> locked;
	// dynamic
	size_t dynamicSize = 0;
	bool isDynamic = false;
};

std::vector<Triangle> expandStrips(const std::vector<std::vector<uint16_t>>& strips) {
	std::vector<Triangle> out;
	for (auto& s : strips)
		for (size_t i = 0; i + 2 < s.size(); i++) {
			uint16_t a = s[i], b = s[i + 1], c = s[i + 2];
			if (a == b || b == c || a == c)
				continue;
			if (i % 2 == 0)
				out.emplace_back(a, b, c);
			else
				out.emplace_back(a, c, b);
		}
	return out;
}

Snap snap(NifFile& nif, NiShape* s) {
	Snap q;
	auto& hdr = nif.GetHeader();
	q.nv = s->GetNumVertices();
	nif.GetVertsForShape(s, q.verts);
	q.hasUvs = nif.GetUvsForShape(s, q.uvs);
	if (auto n = nif.GetNormalsForShape(s)) {
		q.normals = *n;
		q.hasNormals = true;
	}
	q.hasTangents = nif.GetTangentsForShape(s, q.tangents);
	nif.GetBitangentsForShape(s, q.bitangents);
	q.hasColors = nif.GetColorsForShape(s, q.colors);
	q.hasEye = NifFile::GetEyeDataForShape(s, q.eye);
	s->GetTriangles(q.tris);

	if (auto bs = dynamic_cast<BSTriShape*>(s)) {
		if (bs->IsSkinned())
			for (auto& v : bs->vertData) {
				q.vertWeights.push_back({v.weights[0], v.weights[1], v.weights[2], v.weights[3]});
				q.vertBones.push_back({v.weightBones[0], v.weightBones[1], v.weightBones[2], v.weightBones[3]});
			}
		if (auto dyn = dynamic_cast<BSDynamicTriShape*>(s)) {
			q.isDynamic = true;
			q.dynamicSize = dyn->dynamicData.size();
		}
	}
	if (auto si = hdr.GetBlock<NiSkinInstance>(s->SkinInstanceRef())) {
		if (auto sd = hdr.GetBlock(si->dataRef)) {
			q.hasSkinData = true;
			for (auto& b : sd->bones) {
				std::vector<std::pair<uint16_t, float>> w;
				for (auto& vw : b.vertexWeights)
					w.push_back({vw.index, vw.weight});
				q.boneWeights.push_back(w);
			}
		}
		if (auto sp = hdr.GetBlock(si->skinPartitionRef)) {
			q.hasPartitions = true;
			q.mapped = sp->bMappedIndices;
			q.partVertDataSize = sp->vertData.size();
			q.partNumVertices = sp->numVertices;
			for (auto& p : sp->partitions) {
				PartSnap ps;
				ps.numVertices = p.numVertices;
				ps.numTriangles = p.numTriangles;
				ps.numStrips = p.numStrips;
				ps.vertexMap = p.vertexMap;
				ps.weightsSize = p.vertexWeights.size();
				ps.boneIdxSize = p.boneIndices.size();
				ps.hasVertexWeights = p.hasVertexWeights;
				ps.hasBoneIndices = p.hasBoneIndices;
				ps.stripLenSize = p.stripLengths.size();
				ps.stripsSize = p.strips.size();
				ps.trianglesSize = p.triangles.size();
				std::vector<Triangle> local = p.numStrips ? expandStrips(p.strips) : p.triangles;
				if (sp->bMappedIndices) {
					for (auto& tr : local) {
						if (tr.p1 < p.vertexMap.size() && tr.p2 < p.vertexMap.size() && tr.p3 < p.vertexMap.size())
							ps.trueTris.emplace_back(p.vertexMap[tr.p1], p.vertexMap[tr.p2], p.vertexMap[tr.p3]);
						else
							ps.trueTris.emplace_back(0xFFFF, 0xFFFF, 0xFFFF); // marks an invalid mapped index
					}
				}
				else if (local.empty())
					ps.trueTris = p.trueTriangles;
				else
					ps.trueTris = local;
				q.parts.push_back(ps);
			}
		}
		if (auto bsd = dynamic_cast<BSDismemberSkinInstance*>(si)) {
			q.hasDismember = true;
			q.dismemberCount = bsd->partitions.size();
		}
	}
	if (auto sits = dynamic_cast<BSSubIndexTriShape*>(s)) {
		if (hdr.GetVersion().Stream() >= 130) {
			NifSegmentationInfo inf;
			sits->GetSegmentation(inf, q.fo4Labels);
			q.hasFo4Segs = !inf.segs.empty();
		}
		else {
			q.sseSegs = sits->GetSegments();
			q.hasSseSegs = !q.sseSegs.empty();
		}
	}
	for (auto& ed : s->extraDataRefs)
		if (auto ie = hdr.GetBlock<NiIntegersExtraData>(ed))
			if (ie->name == "LOCKEDNORM") {
				q.hasLocked = true;
				for (auto v : ie->integersData)
					q.locked.push_back(v);
			}
	return q;
}

template<typename T>
std::vector<T> keepOnly(const std::vector<T>& v, const std::vector<bool>& del) {
	std::vector<T> r;
	for (size_t i = 0; i < v.size(); i++)
		if (i >= del.size() || !del[i])
			r.push_back(v[i]);
	return r;
}
template<typename T>
bool bitEq(const std::vector<T>& a, const std::vector<T>& b) {
	return a.size() == b.size() && (a.empty() || memcmp(a.data(), b.data(), a.size() * sizeof(T)) == 0);
}

std::multiset<uint64_t> triSet(const std::vector<Triangle>& ts) {
	std::multiset<uint64_t> s;
	for (auto& t : ts)
		s.insert(triKey(t));
	return s;
}

// do SSE segments tile [0, T)?
bool sseTiles(const std::vector<BSGeometrySegmentData>& segs, size_t T) {
	uint64_t pos = 0;
	for (auto& s : segs) {
		if (s.index != pos * 3)
			return false;
		pos += s.numTris;
	}
	return pos == T;
}

struct Case {
	NifFile nif;
	NiShape* shape = nullptr;
	std::string kind, version;
	bool strips = false;
	bool fromCorpus = false;
	bool segDirect = false;
};

std::string checkDeletion(NifFile& nif, NiShape* shape, const Snap& b, const std::vector<uint16_t>& D, bool ret, bool strips, std::string& clause) {
	Snap a = snap(nif, shape);
	std::vector<bool> del(b.nv, false);
	for (auto d : D)
		del[d] = true;
	std::vector<int> remap(b.nv, -1);
	int next = 0;
	for (uint32_t i = 0; i < b.nv; i++)
		if (!del[i])
			remap[i] = next++;
	const uint32_t nv2 = static_cast<uint32_t>(next);

	clause = "vertex-count";
	if (a.nv != nv2)
		return "vertex count " + std::to_string(a.nv) + ", expected " + std::to_string(nv2);
	clause = "vertices";
	if (!bitEq(a.verts, keepOnly(b.verts, del)))
		return "remaining vertices are not the other vertices in their original order";
	clause = "uvs";
	if (b.hasUvs && (!a.hasUvs || !bitEq(a.uvs, keepOnly(b.uvs, del))))
		return "UVs of remaining vertices changed";
	clause = "normals";
	if (b.hasNormals && (!a.hasNormals || !bitEq(a.normals, keepOnly(b.normals, del))))
		return "normals of remaining vertices changed";
	clause = "tangents";
	if (b.hasTangents && (!a.hasTangents || !bitEq(a.tangents, keepOnly(b.tangents, del)) || !bitEq(a.bitangents, keepOnly(b.bitangents, del))))
		return "tangents/bitangents of remaining vertices changed";
	clause = "colors";
	if (b.hasColors && (!a.hasColors || !bitEq(a.colors, keepOnly(b.colors, del))))
		return "colours of remaining vertices changed";
	clause = "eyedata";
	if (b.hasEye && (!a.hasEye || !bitEq(a.eye, keepOnly(b.eye, del))))
		return "eye data of remaining vertices changed";
	clause = "dynamic-data";
	if (a.isDynamic && a.dynamicSize != nv2)
		return "dynamic vertex array has " + std::to_string(a.dynamicSize) + " entries for " + std::to_string(nv2) + " vertices";

	// triangles
	std::vector<Triangle> expectTris;
	std::vector<bool> triKept;
	for (auto& t : b.tris) {
		bool keep = t.p1 < b.nv && t.p2 < b.nv && t.p3 < b.nv && !del[t.p1] && !del[t.p2] && !del[t.p3];
		triKept.push_back(keep);
		if (keep)
			expectTris.emplace_back(static_cast<uint16_t>(remap[t.p1]), static_cast<uint16_t>(remap[t.p2]), static_cast<uint16_t>(remap[t.p3]));
	}
	clause = "triangle-index";
	for (auto& t : a.tris)
		if (t.p1 >= nv2 || t.p2 >= nv2 || t.p3 >= nv2)
			return "a triangle refers to a vertex that does not exist";
	if (!strips) {
		clause = "triangles";
		if (!bitEq(a.tris, expectTris))
			return "triangles are not exactly the triangles that used no deleted vertex, re-indexed, in order (" + std::to_string(a.tris.size()) + " vs " + std::to_string(expectTris.size()) + ")";
	}
	clause = "return-value";
	const bool expectRet = nv2 == 0 || a.tris.empty();
	if (ret != expectRet)
		return std::string("DeleteVertsForShape returned ") + (ret ? "true" : "false") + " with " + std::to_string(nv2) + " vertices and " + std::to_string(a.tris.size()) + " triangles left";

	// skin data
	if (b.hasSkinData) {
		clause = "skin-weights";
		if (!a.hasSkinData || a.boneWeights.size() != b.boneWeights.size())
			return "bone count of the skin data changed";
		for (size_t bi = 0; bi < b.boneWeights.size(); bi++) {
			std::vector<std::pair<uint16_t, float>> exp;
			for (auto& w : b.boneWeights[bi])
				if (w.first < b.nv && !del[w.first])
					exp.push_back({static_cast<uint16_t>(remap[w.first]), w.second});
				else if (w.first >= b.nv)
					exp.push_back({static_cast<uint16_t>(w.first - D.size()), w.second}); // stale entry beyond the shape: only shifted
			if (a.boneWeights[bi] != exp)
				return "weights of bone " + std::to_string(bi) + " are not the old list minus the deleted vertices, re-indexed";
			for (auto& w : a.boneWeights[bi])
				if (w.first >= nv2 && b.nv > 0) {
					bool stale = false;
					for (auto& ow : b.boneWeights[bi])
						if (ow.first >= b.nv)
							stale = true;
					if (!stale)
						return "a skin weight refers to a vertex that does not exist";
				}
		}
	}
	if (!b.vertWeights.empty()) {
		clause = "vertex-weights";
		auto ew = keepOnly(b.vertWeights, del);
		auto eb = keepOnly(b.vertBones, del);
		if (a.vertWeights != ew || a.vertBones != eb)
			return "per-vertex weights/bones of remaining vertices changed";
	}
	// partitions
	if (b.hasPartitions) {
		clause = "partitions";
		if (!a.hasPartitions)
			return "skin partition block vanished";
		std::multiset<uint64_t> unionTris;
		size_t nonEmptyBefore = 0;
		for (auto& p : a.parts) {
			if (p.vertexMap.size() != p.numVertices)
				return "partition vertex map has " + std::to_string(p.vertexMap.size()) + " entries, counter says " + std::to_string(p.numVertices);
			for (auto v : p.vertexMap)
				if (v >= nv2)
					return "partition vertex map refers to vertex " + std::to_string(v) + " of " + std::to_string(nv2);
			if (p.hasVertexWeights && p.weightsSize != p.numVertices)
				return "partition weight array length " + std::to_string(p.weightsSize) + " != vertex count " + std::to_string(p.numVertices);
			if (p.hasBoneIndices && p.boneIdxSize != p.numVertices)
				return "partition bone-index array length " + std::to_string(p.boneIdxSize) + " != vertex count " + std::to_string(p.numVertices);
			if (p.numStrips != p.stripsSize || p.stripLenSize != p.stripsSize)
				return "partition strip counters disagree with the strip containers";
			if (p.numStrips == 0 && p.trianglesSize != p.numTriangles)
				return "partition triangle counter " + std::to_string(p.numTriangles) + " != triangle list " + std::to_string(p.trianglesSize);
			for (auto& t : p.trueTris) {
				if (t.p1 >= nv2 || t.p2 >= nv2 || t.p3 >= nv2)
					return "a partition triangle refers to a vertex that does not exist";
				unionTris.insert(triKey(t));
			}
		}
		for (auto& p : b.parts)
			if (!p.trueTris.empty())
				nonEmptyBefore++;
		(void) nonEmptyBefore;
		clause = "dismember-list";
		if (a.hasDismember && a.dismemberCount != a.parts.size())
			return "dismember partition list has " + std::to_string(a.dismemberCount) + " entries for " + std::to_string(a.parts.size()) + " partitions";
		clause = "partition-vertdata";
		if (b.partVertDataSize && a.partVertDataSize != nv2)
			return "partition vertex data has " + std::to_string(a.partVertDataSize) + " entries for " + std::to_string(nv2) + " vertices";
		// consistency of partitions with the shape, if it held before
		std::multiset<uint64_t> beforeUnion;
		for (auto& p : b.parts)
			for (auto& t : p.trueTris)
				beforeUnion.insert(triKey(t));
		if (beforeUnion == triSet(b.tris)) {
			clause = "partition-coverage";
			if (unionTris != triSet(strips ? a.tris : expectTris))
				return "partition triangles no longer equal the shape's triangles (" + std::to_string(unionTris.size()) + " vs " + std::to_string(expectTris.size()) + ")";
		}
	}
	// segments
	if (b.hasFo4Segs) {
		bool consistentBefore = true;
		for (auto l : b.fo4Labels)
			if (l < 0)
				consistentBefore = false;
		if (consistentBefore) {
			clause = "fo4-segments";
			std::vector<int> exp;
			for (size_t i = 0; i < b.fo4Labels.size() && i < triKept.size(); i++)
				if (triKept[i])
					exp.push_back(b.fo4Labels[i]);
			if (a.fo4Labels != exp)
				return "segment labels of the remaining triangles changed (ranges no longer tile the triangle list the same way)";
		}
	}
	if (b.hasSseSegs && sseTiles(b.sseSegs, b.tris.size())) {
		clause = "sse-segments";
		if (!sseTiles(a.sseSegs, a.tris.size()))
			return "segment ranges no longer tile the triangle list";
		// each kept triangle stays in its segment
		size_t pos = 0, k = 0;
		for (size_t si = 0; si < b.sseSegs.size(); si++) {
			uint32_t keptHere = 0;
			for (uint32_t j = 0; j < b.sseSegs[si].numTris && pos < triKept.size(); j++, pos++)
				if (triKept[pos])
					keptHere++;
			if (si < a.sseSegs.size() && a.sseSegs[si].numTris != keptHere)
				return "segment " + std::to_string(si) + " has " + std::to_string(a.sseSegs[si].numTris) + " triangles, expected " + std::to_string(keptHere);
			k += keptHere;
		}
	}
	if (b.hasLocked) {
		clause = "lockednorm";
		std::vector<uint32_t> sorted = b.locked;
		std::sort(sorted.begin(), sorted.end());
		std::vector<uint32_t> exp;
		for (auto v : sorted)
			if (v < b.nv && !del[v])
				exp.push_back(static_cast<uint32_t>(remap[v]));
		if (a.locked != exp)
			return "LOCKEDNORM list is not the old list minus deleted vertices, re-indexed";
	}
	clause = "";
	return "";
}

Verdict prop(Tape& t, Run& run) {
	Case c;
	GenShape g;
	uint8_t src = t.u8();
	auto& cp = corpus(run.args.corpus);
	if (src < 0x30 && !cp.empty()) {
		auto& f = cp[t.u8() % cp.size()];
		if (loadBytes(c.nif, f.bytes) != 0)
			return OK;
		auto shapes = c.nif.GetShapes();
		if (shapes.empty()) {
			run.exclude("sample without shapes");
			return OK;
		}
		c.shape = shapes[t.u8() % shapes.size()];
		c.kind = std::string("sample:") + f.name + ":" + c.shape->GetBlockName();
		c.version = versionName(c.nif.GetHeader().GetVersion());
		c.strips = c.shape->HasType<NiTriStrips>();
		c.fromCorpus = true;
	}
	else {
		size_t vi = apiVersionIndices()[t.u8() % apiVersionIndices().size()];
		c.nif.Create(versions()[vi].ni());
		GenShapeOpts o;
		o.mesh.maxVerts = 120;
		o.mesh.minTris = t.chance(32) ? 0 : 5;
		g = buildGenShape(c.nif, t, vi, "Shape", o);
		if (!g.shape) {
			run.exclude("shape construction returned null");
			return OK;
		}
		c.shape = g.shape;
		c.kind = g.kind;
		c.version = versions()[vi].name;
		c.strips = g.strips;
		c.segDirect = g.segDirectOnParent;
	}
	const uint32_t rounds = 1 + t.u8() % 3;
	std::string lastCls;
	bool removedAndKept = false;
	std::vector<std::string> steps;
	for (uint32_t r = 0; r < rounds; r++) {
		uint32_t n = c.shape->GetNumVertices();
		if (n == 0)
			break;
		std::string cls;
		std::vector<uint16_t> D = genDeletion(t, n, cls);
		Snap b = snap(c.nif, c.shape);
		bool ret = c.nif.DeleteVertsForShape(c.shape, D);
		std::string clause;
		std::string err = checkDeletion(c.nif, c.shape, b, D, ret, c.strips, clause);
		steps.push_back(cls + ":" + std::to_string(D.size()) + "/" + std::to_string(n));
		run.cls("deletion:" + cls);
		size_t kept = c.shape->GetNumTriangles();
		if (D.size() < n && kept > 0 && kept < b.tris.size())
			removedAndKept = true;
		if (!err.empty()) {
			std::string kindShort = c.kind.substr(0, c.kind.find('+'));
			if (c.fromCorpus)
				kindShort = c.shape->GetBlockName();
			std::string sig = "C09:" + kindShort + "@" + c.version + ":" + clause;
			if (c.segDirect && clause == "fo4-segments")
				sig = "C09:fo4-segments-direct-on-parent";
			std::string all;
			for (auto& s : steps)
				all += s + " ";
			return run.fail(sig, J().s("shape", c.kind).s("version", c.version).s("deletions", all).s("what", err).raw("deleted", jarr_num(std::vector<uint32_t>(D.begin(), D.end()))).u("vertices_before", n).str());
		}
	}
	run.cls("kind:" + c.kind.substr(0, 60));
	run.cls("version:" + c.version);
	if (removedAndKept) {
		uint64_t h = fnv1a(c.kind);
		h = fnv1a(t.size() ? std::string(reinterpret_cast<const char*>(run.curTape), run.curTapeLen) : std::string(), h);
		run.nontriv(h);
	}
	if (run.wantSample()) {
		std::string all;
		for (auto& s : steps)
			all += s + " ";
		run.sample(J().s("shape", c.kind).s("version", c.version).s("deletions", all).u("vertices_left", c.shape->GetNumVertices()).u("triangles_left", c.shape->GetNumTriangles()).str());
	}

	// save + reload: same geometry
	if (c.shape->GetNumVertices() == 0)
		return OK;
	Snap fin = snap(c.nif, c.shape);
	std::string shapeName = c.shape->name.get();
	std::string bytes;
	if (saveBytes(c.nif, bytes, defOpts()) != 0)
		return run.fail("C09:save-failed", J().s("shape", c.kind).s("version", c.version).str());
	NifFile re;
	int rc = loadBytes(re, bytes);
	if (rc != 0)
		return run.fail("C09:reload-rejected", J().s("shape", c.kind).s("version", c.version).n("rc", rc).str());
	NiShape* rs = nullptr;
	for (auto s : re.GetShapes())
		if (s->name.get() == shapeName && s->GetNumVertices() == fin.nv)
			rs = s;
	if (!rs)
		return run.fail("C09:reload-shape-missing", J().s("shape", c.kind).s("version", c.version).s("what", "shape with the same name and vertex count not found after reload").str());
	Snap r = snap(re, rs);
	const bool half = rs->HasType<BSTriShape>() && re.GetHeader().GetVersion().Stream() >= 130 && !static_cast<BSTriShape*>(rs)->IsFullPrecision();
	bool vertsOk = r.verts.size() == fin.verts.size();
	for (size_t i = 0; vertsOk && i < r.verts.size(); i++)
		for (int k = 0; k < 3; k++) {
			double a = (&fin.verts[i].x)[k], b2 = (&r.verts[i].x)[k];
			double tol = half ? std::ldexp(std::fabs(a), -11) + std::ldexp(1.0, -24) : 0.0;
			if (std::fabs(a - b2) > tol)
				vertsOk = false;
		}
	if (!vertsOk)
		return run.fail("C09:reload-vertices", J().s("shape", c.kind).s("version", c.version).s("what", "vertices differ after save and reload").str());
	if (triSet(r.tris) != triSet(fin.tris))
		return run.fail("C09:reload-triangles", J().s("shape", c.kind).s("version", c.version).s("what", "triangle set differs after save and reload").u("before", fin.tris.size()).u("after", r.tris.size()).str());
	return OK;
}

} // namespace

int main(int argc, char** argv) {
	Harness h{};
	h.id = "C09";
	h.prop = prop;
	h.deterministic = nullptr;
	h.maxTape = 3000;
	h.quickCases = 25000;
	h.thoroughCases = 500000;
	h.rule = "case = (shape: generated through the API for OB/FO3/SK/SSE/FO4/FO76 in every geometry kind, optionally "
			 "skinned / strips / segments / LOCKEDNORM, or a shape of a sample file; 1-3 successive sorted deletions of "
			 "class single/prefix/suffix/random/all). Non-trivial = some deletion removed at least one triangle and kept "
			 "at least one; distinct = hash(shape kind, tape).";
	return harnessMain(argc, argv, h);
}
