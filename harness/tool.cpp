// Triage tool: decode a file-case tape, dump the file, try loading it.
#include "cases.hpp"
using namespace vf; using namespace nifly;
int main(int argc, char** argv) {
	if (argc < 3) { fprintf(stderr, "usage: tool case <tapehex> [out.nif] | dump <file.nif> | load <file.nif>\n"); return 2; }
	std::string cmd = argv[1];
	Run run; run.args.corpus = "/verif/corpus";
	std::string bytes;
	if (cmd == "case") {
		auto tape = from_hex(argv[2]);
		Tape t(tape);
		FileCase c = decodeFileCase(t, run);
		printf("ok=%d why=%s kind=%s label=%s version=%s payload=%zu populated=%d tape_used=%zu/%zu\n", c.ok, c.why.c_str(), c.kind.c_str(), c.label.c_str(), c.version.c_str(), c.payloadSize, c.populated, t.pos(), t.size());
		bytes = c.bytes;
		if (argc > 3) { std::ofstream o(argv[3], std::ios::binary); o << bytes; }
	} else {
		std::ifstream f(argv[2], std::ios::binary); std::stringstream ss; ss << f.rdbuf(); bytes = ss.str();
	}
	auto mf = mini::parse(bytes);
	printf("mini: ok=%d err=%s ver=%s blocks=%u strings=%zu headerEnd=%zu total=%zu\n", mf.ok, mf.error.c_str(), mf.ver.tag().c_str(), mf.numBlocks, mf.strings.size(), mf.headerEnd, bytes.size());
	for (size_t i = 0; i < mf.typeIndex.size(); i++)
		printf("  block %zu %s size=%u %s\n", i, mf.typeOf(i).c_str(), i < mf.sizes.size() ? mf.sizes[i] : 0, i < mf.payloads.size() ? to_hex(mf.payloads[i].substr(0, 40)).c_str() : "");
	if (cmd == "load" || cmd == "case") {
		NifFile nif; int rc = loadBytes(nif, bytes); printf("load rc=%d blocks=%u\n", rc, nif.GetHeader().GetNumBlocks());
		if (rc == 0) { std::string o; saveBytes(nif, o, rawOpts()); printf("raw save %zu bytes; diff vs input: %s\n", o.size(), firstDiff(bytes, o).c_str());
			if (argc > 4) { std::ofstream of(argv[4], std::ios::binary); of << o; } }
	}
	return 0;
}
