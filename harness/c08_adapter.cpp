// C ABI around one build of the library (compiled twice: once against /repo as "cur",
// once against /verif/reference with -Dnifly=nifly_ref -Dvf=vf_ref as "ref"), so that both
// builds live in one process and the harness talks to neither set of C++ headers.
#include "cases.hpp"

#ifndef ADAPTER
#error "define ADAPTER=cur or ADAPTER=ref"
#endif
#define CAT2(a, b) a##_##b
#define CAT(a, b) CAT2(a, b)
#define FN(name) CAT(ADAPTER, name)

namespace {
char* dup(const std::string& s, size_t* n) {
	*n = s.size();
	char* p = static_cast<char*>(malloc(s.size() ? s.size() : 1));
	memcpy(p, s.data(), s.size());
	return p;
}
} // namespace

extern "C" {

unsigned FN(type_count)() {
	return static_cast<unsigned>(vf::registeredTypes().size());
}
const char* FN(type_name)(unsigned i) {
	return vf::registeredTypes()[i].c_str();
}

// Synthesise the single-subject file for (type, version index, tape).
// Returns 1 ok, 0 failed/aborted/unknown type. Buffers are malloc'd.
int FN(synth)(const char* type, unsigned vi, const unsigned char* tape, size_t tapeLen, char** file, size_t* fileLen,
			  char** payload, size_t* payloadLen, char** trace, size_t* traceLen) {
	*file = *payload = *trace = nullptr;
	*fileLen = *payloadLen = *traceLen = 0;
	if (!nifly::NiFactoryRegister::Get().GetFactoryByName(type) || vi >= vf::versions().size())
		return 0;
	vf::Tape t(tape, tapeLen);
	vf::SynthFile sf = vf::synthSingleFile(type, vi, t, true);
	if (!sf.ok)
		return 0;
	*file = dup(sf.bytes, fileLen);
	*payload = dup(sf.subject.payload, payloadLen);
	std::string tr;
	for (auto& e : sf.subject.trace) {
		tr.push_back(static_cast<char>(e.hint));
		tr.append(reinterpret_cast<const char*>(&e.size), 4);
		tr.append(reinterpret_cast<const char*>(&e.alloc), 4);
		tr.append(reinterpret_cast<const char*>(&e.offset), 4);
	}
	*trace = dup(tr, traceLen);
	return 1;
}

// Force the k-th integer-like read of the next synthesised subject to v (k < 0: off)
void FN(set_force)(int k, unsigned long long v) {
	vf::force().read = k;
	vf::force().value = v;
}

// One-factor sweep over this build's reading code (cases.hpp); emits tapes [0xF0, type, version, k, v, body]
void FN(sweep)(int shard, int nshards, unsigned maxK, unsigned maxV, unsigned nPatterns, void (*emit)(void*, const unsigned char*, size_t),
			   void (*announce)(void*, const unsigned char*, size_t), void* ctx, unsigned long long* tried, unsigned long long* novel) {
	uint64_t t = 0, n = 0;
	vf::sweepCells(shard, nshards, maxK, maxV, nPatterns, [&](const std::vector<uint8_t>& tape) { emit(ctx, tape.data(), tape.size()); }, t, n,
				   [&](const std::vector<uint8_t>& tape) { announce(ctx, tape.data(), tape.size()); });
	*tried = t;
	*novel = n;
}

// Load then raw-save. Returns the load code (0 = accepted), -1 if save failed.
int FN(roundtrip)(const char* in, size_t n, char** out, size_t* outLen) {
	*out = nullptr;
	*outLen = 0;
	nifly::NifFile nif;
	int rc = vf::loadBytes(nif, std::string(in, n));
	if (rc != 0)
		return rc;
	std::string o;
	if (vf::saveBytes(nif, o, vf::rawOpts()) != 0)
		return -1;
	*out = dup(o, outLen);
	return 0;
}
}
