// C08 — wire format stays compatible with the reference build for all types/versions.
//
// "programs" = the pair (reference build, current build); both are linked into this
// process behind C adapters (harness/c08_adapter.cpp).
// Oracle 1 (schema trace): for the same (type, version, tape) both builds must issue the
//   same sequence of read requests (kind, width) and record the same payload.
// Oracle 2 (cross read): Fc = Wr_cur(L_cur(F)) must be accepted by the reference build and
//   re-encoded by it to identical bytes; symmetrically Fr = Wr_ref(L_ref(F)) by the current one.
#include "corpus.hpp"
#include "diff.hpp"
#include "harness.hpp"

#include <map>
#include <set>

extern "C" {
unsigned cur_type_count();
const char* cur_type_name(unsigned);
unsigned ref_type_count();
const char* ref_type_name(unsigned);
int cur_synth(const char*, unsigned, const unsigned char*, size_t, char**, size_t*, char**, size_t*, char**, size_t*);
int ref_synth(const char*, unsigned, const unsigned char*, size_t, char**, size_t*, char**, size_t*, char**, size_t*);
int cur_roundtrip(const char*, size_t, char**, size_t*);
void cur_set_force(int, unsigned long long);
void ref_set_force(int, unsigned long long);
void cur_sweep(int, int, unsigned, unsigned, unsigned, void (*)(void*, const unsigned char*, size_t), void (*)(void*, const unsigned char*, size_t), void*, unsigned long long*,
			   unsigned long long*);
int ref_roundtrip(const char*, size_t, char**, size_t*);
}

using namespace vf;

namespace {

const char* kVersionNames[] = {"10.0.1.0", "OB10.1", "OB10.2", "OB20.0.0.4", "OB", "FO3", "SK", "SSE", "FO4", "FO4_132", "FO4_139", "FO76", "SF", "SF173"};
const unsigned kNumVersions = 14;

struct Synth {
	bool ok = false;
	std::string file, payload, trace;
};
typedef int (*synth_fn)(const char*, unsigned, const unsigned char*, size_t, char**, size_t*, char**, size_t*, char**, size_t*);
typedef int (*rt_fn)(const char*, size_t, char**, size_t*);

Synth doSynth(synth_fn fn, const std::string& type, unsigned vi, const uint8_t* tape, size_t n) {
	Synth s;
	char *f, *p, *t;
	size_t fl, pl, tl;
	s.ok = fn(type.c_str(), vi, tape, n, &f, &fl, &p, &pl, &t, &tl) == 1;
	if (s.ok) {
		s.file.assign(f, fl);
		s.payload.assign(p, pl);
		s.trace.assign(t, tl);
	}
	free(f);
	free(p);
	free(t);
	return s;
}
int doRt(rt_fn fn, const std::string& in, std::string& out) {
	char* o;
	size_t ol;
	int rc = fn(in.data(), in.size(), &o, &ol);
	out.assign(o ? o : "", o ? ol : 0);
	free(o);
	return rc;
}

const std::vector<std::string>& curTypes() {
	static std::vector<std::string> v = [] {
		std::vector<std::string> r;
		for (unsigned i = 0; i < cur_type_count(); i++)
			r.push_back(cur_type_name(i));
		return r;
	}();
	return v;
}

const size_t kTE = 13; // bytes per trace entry: hint(1) size(4) alloc(4) offset(4)

// the (kind, width) part of a trace
std::string shapeOf(const std::string& tr) {
	std::string o;
	for (size_t i = 0; i + kTE <= tr.size(); i += kTE)
		o.append(tr, i, 5);
	return o;
}

std::string traceDiff(const std::string& a, const std::string& b) {
	static const char* hints[] = {"raw", "bool", "enum", "integral", "float", "half", "pod", "blockref", "stringindex"};
	size_t na = a.size() / kTE, nb = b.size() / kTE;
	for (size_t i = 0; i < na && i < nb; i++)
		if (memcmp(a.data() + i * kTE, b.data() + i * kTE, 5) != 0) {
			auto show = [&](const std::string& s) {
				uint32_t sz;
				memcpy(&sz, s.data() + i * kTE + 1, 4);
				uint8_t h = static_cast<uint8_t>(s[i * kTE]);
				return std::string(h < 9 ? hints[h] : "?") + "/" + std::to_string(sz);
			};
			return "read #" + std::to_string(i) + ": reference " + show(a) + ", current " + show(b);
		}
	return "reference issues " + std::to_string(na) + " reads, current " + std::to_string(nb);
}

// Field identity: for every heap allocation (numbered by first use) the offsets read into are
// replaced by their rank among that allocation's distinct offsets, so an added member or padding
// does not matter but reading two same-typed fields in the other order does.
std::vector<int64_t> fieldRanks(const std::string& tr) {
	size_t n = tr.size() / kTE;
	std::map<int32_t, std::set<uint32_t>> offs;
	std::vector<std::pair<int32_t, uint32_t>> e(n);
	for (size_t i = 0; i < n; i++) {
		memcpy(&e[i].first, tr.data() + i * kTE + 5, 4);
		memcpy(&e[i].second, tr.data() + i * kTE + 9, 4);
		if (e[i].first >= 0)
			offs[e[i].first].insert(e[i].second);
	}
	std::vector<int64_t> r(n, -1);
	for (size_t i = 0; i < n; i++)
		if (e[i].first >= 0) {
			auto& s = offs[e[i].first];
			r[i] = (static_cast<int64_t>(e[i].first) << 32) | static_cast<int64_t>(std::distance(s.begin(), s.find(e[i].second)));
		}
	return r;
}

Verdict crossRead(const std::string& F, const std::string& label, const std::string& version, Run& run, const std::string& sigBase) {
	auto detail = [&](const std::string& what, const std::string& diff) {
		return J().s("subject", label).s("version", version).s("what", what).s("first_difference", diff).s("nif_hex", to_hex(F)).str();
	};
	std::string Fc, Fr, x;
	int rcC = doRt(cur_roundtrip, F, Fc);
	int rcR = doRt(ref_roundtrip, F, Fr);
	if ((rcC == 0) != (rcR == 0))
		return run.fail(sigBase + ":accept", detail("one build accepts the file and the other rejects it: current rc=" + std::to_string(rcC) + ", reference rc=" + std::to_string(rcR), ""));
	if (rcC != 0) {
		run.exclude("file accepted by neither build");
		return OK;
	}
	// written by current, read by reference
	int rc = doRt(ref_roundtrip, Fc, x);
	if (rc != 0)
		return run.fail(sigBase + ":cur->ref", detail("file written by the current build is not accepted by the reference build, rc=" + std::to_string(rc), ""));
	if (x != Fc)
		return run.fail(sigBase + ":cur->ref", detail("file written by the current build is re-encoded differently by the reference build", firstDiff(Fc, x)));
	// written by reference, read by current
	rc = doRt(cur_roundtrip, Fr, x);
	if (rc != 0)
		return run.fail(sigBase + ":ref->cur", detail("file written by the reference build is not accepted by the current build, rc=" + std::to_string(rc), ""));
	if (x != Fr)
		return run.fail(sigBase + ":ref->cur", detail("file written by the reference build is re-encoded differently by the current build", firstDiff(Fr, x)));
	if (Fc != Fr)
		return run.fail(sigBase + ":write", detail("the two builds write different bytes for the same input", firstDiff(Fr, Fc)));
	return OK;
}

Verdict prop(Tape& t, Run& run) {
	// domain byte: >= 0xF0 single subject with one forced integer-like read; 0xEF sample file; otherwise
	// single subject; odd bytes below 0xEF skip the (expensive) cross read and compare the traces only
	uint8_t dom = t.u8();
	if (dom == 0xEF || dom == 1) {
		auto& cp = corpus(run.args.corpus);
		if (cp.empty())
			return OK;
		size_t i = t.u8() % cp.size();
		run.cls("kind:corpus");
		run.nontriv(fnv1a(cp[i].bytes));
		return crossRead(cp[i].bytes, cp[i].name, "sample", run, "C08:" + cp[i].name);
	}
	const bool forced = dom >= 0xF0;
	const bool traceOnly = !forced && dom >= 2 && (dom & 1);
	auto& types = curTypes();
	size_t ti = t.u16() % types.size();
	unsigned vi = t.u8() % kNumVersions;
	const std::string& type = types[ti];
	const std::string version = kVersionNames[vi];
	if (forced) {
		int k = t.u8() % 32;
		unsigned v = t.u8() % 32;
		cur_set_force(k, v);
		ref_set_force(k, v);
		run.cls("forced-read");
	}
	std::vector<uint8_t> rest = t.rest();
	Synth c = doSynth(cur_synth, type, vi, rest.data(), rest.size());
	Synth r = doSynth(ref_synth, type, vi, rest.data(), rest.size());
	cur_set_force(-1, 0);
	ref_set_force(-1, 0);
	run.cls("kind:synth");
	run.cls("version:" + version);
	const std::string sigBase = "C08:" + type + "@" + version;
	auto detail = [&](const std::string& what, const std::string& diff) {
		return J().s("subject", type).s("version", version).s("what", what).s("first_difference", diff).s("nif_hex", to_hex(c.ok ? c.file : r.file)).str();
	};
	if (c.ok != r.ok) {
		// a type unknown to the reference build is new, not incompatible
		bool known = false;
		for (unsigned i = 0; i < ref_type_count(); i++)
			if (type == ref_type_name(i))
				known = true;
		if (!known) {
			run.exclude("type not registered in the reference build");
			return OK;
		}
		return run.fail(sigBase + ":trace", detail(std::string("synthesis ") + (c.ok ? "succeeds" : "aborts") + " in the current build and " + (r.ok ? "succeeds" : "aborts") + " in the reference build for the same tape", ""));
	}
	if (!c.ok) {
		run.exclude("synthesis aborted in both builds");
		return OK;
	}
	if (run.wantSample())
		run.sample(J().s("type", type).s("version", version).u("payload_bytes", c.payload.size()).u("reads", c.trace.size() / kTE).s("payload_hex_prefix", to_hex(c.payload.substr(0, 40))).str());
	if (c.payload.size() > 0) {
		uint64_t h = fnv1a(c.payload, fnv1a(type));
		run.nontriv(hash_mix(h, vi));
	}
	if (shapeOf(c.trace) != shapeOf(r.trace))
		return run.fail(sigBase + ":trace", detail("the two builds read the block with a different field sequence", traceDiff(r.trace, c.trace)));
	{
		auto fr = fieldRanks(r.trace), fc = fieldRanks(c.trace);
		for (size_t i = 0; i < fr.size() && i < fc.size(); i++)
			if (fr[i] != fc[i])
				return run.fail(sigBase + ":field-identity",
								detail("same kinds and widths, but read #" + std::to_string(i) + " is stored into a different member (reference: allocation " + std::to_string(fr[i] >> 32) + " field-rank "
										   + std::to_string(fr[i] & 0xffffffff) + ", current: allocation " + std::to_string(fc[i] >> 32) + " field-rank " + std::to_string(fc[i] & 0xffffffff)
										   + "): two same-typed fields are read in the other order",
									   ""));
	}
	if (c.payload != r.payload)
		return run.fail(sigBase + ":trace", detail("same read sequence but different recorded payload", ""));
	if (traceOnly) {
		run.cls("trace-only");
		return OK;
	}
	run.cls("trace+cross-read");
	return crossRead(c.file, type, version, run, sigBase);
}

void deterministic(Run& run, const std::function<void(const std::vector<uint8_t>&)>& feed) {
	size_t n = corpus(run.args.corpus).size();
	for (size_t i = 0; i < n; i++)
		feed({1, static_cast<uint8_t>(i)});
	static const uint8_t patterns[] = {0xA1, 0xC9, 0x00, 0x95, 0xE1, 0xFF, 0x61, 0xF9};
	size_t np = run.args.tier == "thorough" ? 8 : 3;
	auto& types = curTypes();
	for (size_t ti = 0; ti < types.size(); ti++)
		for (unsigned vi = 0; vi < kNumVersions; vi++)
			for (size_t p = 0; p < np; p++) {
				std::vector<uint8_t> tape = {0, static_cast<uint8_t>(ti & 255), static_cast<uint8_t>(ti >> 8), static_cast<uint8_t>(vi)};
				tape.resize(4 + (patterns[p] ? 600 : 0), patterns[p]);
				feed(tape);
			}
	// forced-read sweep over the CURRENT build's reading code (tapes that reach read sites the pattern tapes do not)
	const bool th = run.args.tier == "thorough";
	unsigned long long tried = 0, novel = 0;
	struct Ctx {
		const std::function<void(const std::vector<uint8_t>&)>* feed;
		Run* run;
	} ctx{&feed, &run};
	run.feedAll = true;
	cur_sweep(
		run.args.shard, run.args.nshards, th ? 24 : 10, th ? 32 : 24, static_cast<unsigned>(np),
		[](void* c, const unsigned char* p, size_t n) { (*static_cast<Ctx*>(c)->feed)(std::vector<uint8_t>(p, p + n)); },
		[](void* c, const unsigned char* p, size_t n) {
			auto r = static_cast<Ctx*>(c)->run;
			if (r->noteCurrent)
				r->noteCurrent(p, n);
		},
		&ctx, &tried, &novel);
	run.feedAll = false;
	run.cls("sweep:forced-reads-tried", tried);
	run.cls("sweep:tapes-reaching-new-read-sites", novel);
}

} // namespace

int main(int argc, char** argv) {
	Harness h{};
	h.id = "C08";
	h.prop = prop;
	h.deterministic = deterministic;
	h.maxTape = 2000;
	h.quickCases = 120000;
	h.thoroughCases = 1500000;
	h.rule = "case = (block type, version, tape) synthesised by BOTH builds, or a sample file; checked: identical read "
			 "trace and payload in both builds, then cross read: files written by either build are accepted and "
			 "re-encoded byte-identically by the other. Non-trivial = non-empty subject payload / sample file; distinct = "
			 "hash(type, version, payload).";
	return harnessMain(argc, argv, h);
}
