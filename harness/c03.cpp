// C03 — blocks of unknown type survive load and save untouched.
//
// Domain: files with a block-size table (20.2.0.5+): samples and synthesised files,
// x a non-empty subset of their block TYPES relabelled to unregistered names by
// MiniNif (sizes untouched) x save options {raw, default}.
// Oracle (MiniNif only reads the output): same block count; same type name at every
// position; every relabelled block has the same declared size and identical payload
// bytes; every string index of the input table still denotes the same string
// (append-only table); HasUnknown() is true.
#include "cases.hpp"

using namespace nifly;
using namespace vf;

namespace {

// Does a default save reorder or prune the unlabelled file? (non-triviality rule)
bool defaultSaveMovesBlocks(const std::string& bytes) {
	NifFile nif;
	if (loadBytes(nif, bytes) != 0)
		return false;
	auto before = mini::parse(bytes);
	std::string out;
	if (saveBytes(nif, out, defOpts()) != 0)
		return false;
	auto after = mini::parse(out);
	if (!before.ok || !after.ok)
		return false;
	if (before.numBlocks != after.numBlocks)
		return true;
	for (uint32_t i = 0; i < before.numBlocks; i++)
		if (before.typeOf(i) != after.typeOf(i) || before.sizes[i] != after.sizes[i])
			return true;
	return false;
}

Verdict prop(Tape& t, Run& run) {
	FileCase c = decodeFileCase(t, run);
	if (!c.ok) {
		run.exclude(c.why);
		return OK;
	}
	auto in = mini::parse(c.bytes);
	if (!in.ok || !in.ver.hasSizes()) {
		run.exclude("version without block-size table (unknown blocks cannot be loaded)");
		return OK;
	}
	const size_t nTypes = in.typeNames.size();
	if (nTypes == 0)
		return OK;
	// subset of types to relabel
	std::vector<bool> pick(nTypes, false);
	uint8_t how = t.u8() % 4;
	size_t picked = 0;
	if (how == 0) { // singleton
		pick[t.range(0, static_cast<uint32_t>(nTypes - 1))] = true;
	}
	else if (how == 1) { // all
		for (size_t i = 0; i < nTypes; i++)
			pick[i] = true;
	}
	else { // random subset
		for (size_t i = 0; i < nTypes; i++)
			pick[i] = t.coin();
	}
	for (auto b : pick)
		picked += b;
	if (picked == 0) {
		pick[0] = true;
		picked = 1;
	}
	const bool useDefault = t.coin();

	// the file must be accepted as it is
	{
		NifFile probe;
		if (loadBytes(probe, c.bytes) != 0) {
			run.exclude("file not accepted by Load");
			return OK;
		}
	}

	mini::File rel = in;
	for (size_t i = 0; i < nTypes; i++)
		if (pick[i])
			rel.typeNames[i] = "Zq" + in.typeNames[i];
	// every fourth case also carries a near-empty opaque block (0..3 payload bytes) of an unregistered type at
	// the end and one more header string that nothing known refers to
	const bool tiny = (c.hash % 4) == 2;
	if (tiny) {
		mini::addBlock(rel, "ZqTinyMarker", std::string(static_cast<size_t>((c.hash >> 4) % 4), '\x5a'));
		if (rel.ver.stringIndices())
			rel.strings.push_back("ZqOnlyOpaqueBlocksUseThis");
		run.cls("with-tiny-opaque-block");
	}
	// and every fourth case has ONLY that one (no relabelled type): the file's single unknown block is tiny
	if (tiny && (c.hash % 8) == 2)
		for (size_t i = 0; i < nTypes; i++)
			if (pick[i]) {
				rel.typeNames[i] = in.typeNames[i];
				pick[i] = false;
			}
	const std::string relBytes = mini::write(rel);

	const std::string mode = useDefault ? "default" : "raw";
	run.cls("mode:" + mode);
	run.cls("kind:" + c.kind);
	run.cls(how == 0 ? "subset:singleton" : how == 1 ? "subset:all" : "subset:random");
	auto detail = [&](const std::string& what) {
		std::string names;
		for (size_t i = 0; i < nTypes; i++)
			if (pick[i])
				names += in.typeNames[i] + " ";
		return J().s("kind", c.kind).s("subject", c.label).s("version", c.version).s("mode", mode).s("relabelled_types", names).s("what", what).s("nif_hex", to_hex(relBytes)).str();
	};

	NifFile nif;
	int rc = loadBytes(nif, relBytes);
	if (rc != 0)
		return run.fail("C03:load-rejected", detail("file with unknown block types (and a size table) was rejected, rc=" + std::to_string(rc)));
	if (!nif.HasUnknown())
		return run.fail("C03:hasunknown-false", detail("HasUnknown() is false although unregistered type names are present"));
	std::string out;
	if (saveBytes(nif, out, useDefault ? defOpts() : rawOpts()) != 0)
		return run.fail("C03:save-failed", detail("save failed"));
	auto of = mini::parse(out);
	if (!of.ok)
		return run.fail("C03:output-unparsable", detail("output cannot be walked with its own tables: " + of.error));

	size_t opaqueBytes = 0;
	for (uint32_t i = 0; i < rel.numBlocks; i++)
		if (pick[rel.typeIndex[i]])
			opaqueBytes += rel.payloads[i].size();
	if (opaqueBytes > 0) {
		bool moves = useDefault && defaultSaveMovesBlocks(c.bytes);
		if (moves)
			run.cls("default-save-would-reorder-or-prune");
		if (!useDefault || moves) {
			uint64_t h = c.hash;
			for (auto b : pick)
				h = hash_mix(h, static_cast<uint8_t>(b));
			run.nontriv(hash_mix(h, useDefault));
		}
	}
	if (run.wantSample())
		run.sample(J().s("kind", c.kind).s("subject", c.label).s("version", c.version).s("mode", mode).u("types", nTypes).u("relabelled", picked).u("opaque_payload_bytes", opaqueBytes).str());

	if (of.numBlocks != rel.numBlocks)
		return run.fail("C03:block-count", detail("block count changed " + std::to_string(rel.numBlocks) + " -> " + std::to_string(of.numBlocks)));
	for (uint32_t i = 0; i < rel.numBlocks; i++) {
		if (of.typeOf(i) != rel.typeOf(i))
			return run.fail("C03:type-moved", detail("block " + std::to_string(i) + " has type " + of.typeOf(i) + ", was " + rel.typeOf(i)));
		if (pick[rel.typeIndex[i]]) {
			if (of.sizes[i] != rel.sizes[i])
				return run.fail("C03:opaque-size", detail("declared size of opaque block " + std::to_string(i) + " changed " + std::to_string(rel.sizes[i]) + " -> " + std::to_string(of.sizes[i])));
			if (of.payloads[i] != rel.payloads[i])
				return run.fail("C03:opaque-payload", detail("payload of opaque block " + std::to_string(i) + " (" + rel.typeOf(i) + ") changed"));
		}
	}
	if (of.strings.size() < rel.strings.size())
		return run.fail("C03:string-table-shrunk", detail("string table shrank " + std::to_string(rel.strings.size()) + " -> " + std::to_string(of.strings.size())));
	for (size_t j = 0; j < rel.strings.size(); j++) {
		// NiString stops at the first NUL; sample/synth strings contain none
		if (of.strings[j] != rel.strings[j])
			return run.fail("C03:string-index-moved", detail("string index " + std::to_string(j) + " denoted '" + rel.strings[j] + "', now '" + of.strings[j] + "'"));
	}
	return OK;
}

void deterministic(Run& run, const std::function<void(const std::vector<uint8_t>&)>& feed) {
	// every sample file: every singleton type, the full set; both save modes
	auto& cp = corpus(run.args.corpus);
	for (size_t i = 0; i < cp.size(); i++) {
		auto mf = mini::parse(cp[i].bytes);
		if (!mf.ok || !mf.ver.hasSizes())
			continue;
		for (uint8_t mode = 0; mode < 2; mode++) {
			for (size_t ty = 0; ty < mf.typeNames.size(); ty++)
				feed({1, static_cast<uint8_t>(i), 0, static_cast<uint8_t>(ty), mode});
			feed({1, static_cast<uint8_t>(i), 1, mode});
		}
	}
	// synthesised: every type x size-table versions, subject relabelled (singleton choice hits
	// a varying type; full set too)
	auto& types = registeredTypes();
	for (size_t ti = 0; ti < types.size(); ti++)
		for (size_t vi = 0; vi < versions().size(); vi++) {
			if (versions()[vi].file < 0x14020005)
				continue;
			std::vector<uint8_t> tape = {0, static_cast<uint8_t>(ti & 255), static_cast<uint8_t>(ti >> 8), static_cast<uint8_t>(vi)};
			// 0xA1: counts 1, bools true, all types relabelled; 0xA4: counts 2, bools false, one type relabelled
			tape.resize(4 + 300, 0xA1);
			feed(tape);
			std::fill(tape.begin() + 4, tape.end(), 0xA4);
			feed(tape);
		}
}

} // namespace

int main(int argc, char** argv) {
	Harness h{};
	h.id = "C03";
	h.prop = prop;
	h.deterministic = deterministic;
	h.maxTape = 2000;
	h.quickCases = 15000;
	h.thoroughCases = 300000;
	h.rule = "case = (file with size table: sample or synthesised; non-empty subset of its block types relabelled to "
			 "unregistered names by an independent writer; save options). Enumerated: every sample x every singleton "
			 "type and the full set x {raw, default}; every registered type x size-table versions. Non-trivial = >=1 "
			 "opaque block with non-empty payload and (raw save, or a default save that reorders/prunes the unlabelled "
			 "file); distinct = hash(file, subset, options).";
	return harnessMain(argc, argv, h);
}
