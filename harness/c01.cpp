// C01 — load/save round trip is exact and reaches a byte-level fixed point.
//
// Domain: sample files; single synthesised subjects for every registered type x
// version; multi-block synthesised files.
// Oracle (raw):     L(F)==0  =>  O1 = Wr(L(F)); L(O1)==0; O2 = Wr(L(O1)); O2 == O1.
// Oracle (default): S1 = Wd(L(F)); S2 = Wd(L(S1)); S3 = Wd(L(S2)); S4 = Wd(L(S3));
//                   S3 == S2 and S4 == S3 (fixed point within two rounds).
// Normalisation by the first write is allowed; only non-idempotent normalisation
// or a read/write asymmetry fails.
#include "cases.hpp"
#include "graph.hpp"

using namespace nifly;
using namespace vf;

namespace {

// One load + save; returns false if load or save refused
bool roundTrip(const std::string& in, std::string& out, const NifSaveOptions& opts, int& loadRc) {
	NifFile nif;
	loadRc = loadBytes(nif, in);
	if (loadRc != 0)
		return false;
	return saveBytes(nif, out, opts) == 0;
}

Verdict prop(Tape& t, Run& run) {
	FileCase c;
	if (t.peek() >= 0xE0 && t.peek() < 0xF0) {
		// a scene graph built through the API (node trees, shapes, collision, controllers, loose blocks
		// incl. a deep chain stored children-first, permuted order), raw-saved: the file F of this case
		t.u8();
		static const size_t vers[] = {4, 5, 6, 7, 8, 11};
		size_t vi = vers[t.u8() % 6];
		NifFile g;
		GraphInfo gi = buildGraph(g, t, vi);
		if (saveBytes(g, c.bytes, rawOpts()) == 0) {
			c.ok = true;
			c.kind = "graph";
			c.label = gi.str();
			c.vi = vi;
			c.version = versions()[vi].name;
			c.populated = true;
			c.hash = fnv1a(c.bytes);
			c.payloadSize = c.bytes.size();
		}
		else
			c.why = "generated graph cannot be saved";
	}
	else if (t.peek() >= 0xC0 && t.peek() < 0xD0) {
		// a sample whose first texture path was replaced by an untidy one (folder prefixes, doubled and mixed
		// separators, blanks) and raw-saved: loading cleans the path, and what is written must then be stable
		t.u8();
		auto& cp = corpus(run.args.corpus);
		if (!cp.empty()) {
			static const char* toks[] = {"Data", "data", "\\", "/", " ", "textures", "Textures", "a", "x.dds", ".", "\\\\", "C:"};
			const auto& f = cp[t.u8() % cp.size()];
			NifFile g;
			std::string path;
			uint32_t n = 1 + t.u8() % 7;
			for (uint32_t i = 0; i < n; i++)
				path += toks[t.u8() % 12];
			if (loadBytes(g, f.bytes) == 0) {
				auto shapes = g.GetShapes();
				if (!shapes.empty())
					g.SetTextureSlot(shapes[0], path, 0);
				if (!shapes.empty() && saveBytes(g, c.bytes, rawOpts()) == 0) {
					c.ok = true;
					c.kind = "sample+path";
					c.label = f.name;
					auto mf = mini::parse(c.bytes);
					c.version = mf.ver.tag();
					c.populated = true;
					c.hash = fnv1a(c.bytes);
					c.payloadSize = c.bytes.size();
					c.forced = "texture path '" + path + "'";
				}
			}
		}
		if (!c.ok)
			c.why = "sample without shapes";
	}
	else
		c = decodeFileCase(t, run, true, true);
	if (!c.ok) {
		run.exclude(c.why);
		return OK;
	}
	run.cls("kind:" + c.kind);
	run.cls("version:" + c.version);
	if (run.wantSample())
		run.sample(caseJson(c));

	auto detail = [&](const std::string& what, const std::string& diff) {
		return J().s("kind", c.kind).s("subject", c.label).s("version", c.version).s("what", what).s("first_difference", diff).s("nif_hex", to_hex(c.bytes)).str();
	};
	const std::string sigBase = "C01:" + (c.kind.rfind("synthN", 0) == 0 ? std::string("multi") : c.kind == "graph" ? std::string("graph") : c.label.substr(0, c.label.find(" ["))) + (c.kind.find("+unknown") != std::string::npos ? "+unknown" : "") + "@" + c.version;

	// ---- raw
	int rc = 0;
	std::string o1, o2;
	if (!roundTrip(c.bytes, o1, rawOpts(), rc)) {
		if (rc != 0) {
			run.exclude("file not accepted by Load");
			return OK;
		}
		return run.fail(sigBase + ":raw-save-failed", detail("raw save of an accepted file failed", ""));
	}
	if (c.populated) {
		run.nontriv(c.hash);
		run.cls("populated");
	}
	if (!roundTrip(o1, o2, rawOpts(), rc))
		return run.fail(sigBase + ":raw-reload", detail("the library's own raw output is not accepted/saved again, load rc=" + std::to_string(rc), ""));
	if (o1 != o2)
		return run.fail(sigBase + ":raw", detail("raw save is not a fixed point: Wr(L(O1)) != O1", firstDiff(o1, o2)));

	// ---- default
	std::string s1, s2, s3, s4;
	if (!roundTrip(c.bytes, s1, defOpts(), rc))
		return run.fail(sigBase + ":default-save-failed", detail("default save failed", ""));
	if (!roundTrip(s1, s2, defOpts(), rc))
		return run.fail(sigBase + ":default-reload", detail("default output not accepted again (round 2), load rc=" + std::to_string(rc), ""));
	if (!roundTrip(s2, s3, defOpts(), rc))
		return run.fail(sigBase + ":default-reload", detail("default output not accepted again (round 3), load rc=" + std::to_string(rc), ""));
	if (getenv("VF_DEBUG"))
	{
		fprintf(stderr, "case %s %s: F=%zu S1=%zu S2=%zu S3=%zu bytes\n", c.kind.c_str(), c.label.c_str(), c.bytes.size(), s1.size(), s2.size(), s3.size());
		for (const std::string* f : {&c.bytes, &s1, &s2, &s3}) {
			auto m = mini::parse(*f);
			std::string ty;
			for (uint32_t i = 0; i < m.numBlocks; i++)
				ty += m.typeOf(i) + " ";
			fprintf(stderr, "  blocks=%u: %s\n", m.numBlocks, ty.c_str());
		}
	}
	if (s3 != s2)
		return run.fail(sigBase + ":default", detail("default save has not converged after two rounds: S3 != S2", firstDiff(s2, s3)));
	if (!roundTrip(s3, s4, defOpts(), rc))
		return run.fail(sigBase + ":default-reload", detail("default output not accepted again (round 4)", ""));
	if (s4 != s3)
		return run.fail(sigBase + ":default", detail("default save fixed point is not stable: S4 != S3", firstDiff(s3, s4)));
	if (s1 != s2)
		run.cls("default-needed-second-round");
	return OK;
}

void deterministic(Run& run, const std::function<void(const std::vector<uint8_t>&)>& feed) {
	const bool th = run.args.tier == "thorough";
	enumerateFileCases(run, feed, th ? 8 : 3);
	enumerateSweep(run, feed, th ? 24 : 8, th ? 32 : 24, th ? 8 : 3);
	enumerateUnknownCases(run, feed);
	// every sample x a few untidy texture paths (token indices into the table of the 0xC0 source)
	{
		size_t n = corpus(run.args.corpus).size();
		static const std::vector<std::vector<uint8_t>> paths = {
			{0, 2, 0, 2, 7}, {1, 2, 4, 7}, {11, 2, 0, 2, 5, 2, 7}, {5, 10, 7}, {2, 4, 6, 2, 8}, {0, 3, 5, 2, 2, 8}, {4, 5, 2, 7, 4}};
		for (size_t i = 0; i < n; i++)
			for (auto& p : paths) {
				std::vector<uint8_t> tape = {0xC0, static_cast<uint8_t>(i), static_cast<uint8_t>(p.size() - 1)};
				tape.insert(tape.end(), p.begin(), p.end());
				feed(tape);
			}
	}
	// generated scene graphs: six versions x constant-byte tapes (the ones = 3 mod 4 carry the deep loose chain)
	for (uint8_t v = 0; v < 6; v++)
		for (uint8_t pat : {0x00, 0x03, 0x07, 0x63, 0xA3, 0xC7, 0xFF, 0x55, 0x9B}) {
			std::vector<uint8_t> tape = {0xE0, v};
			tape.resize(400, pat);
			feed(tape);
		}
}

} // namespace

int main(int argc, char** argv) {
	Harness h{};
	h.id = "C01";
	h.prop = prop;
	h.deterministic = deterministic;
	h.maxTape = 2000;
	h.quickCases = 25000;
	h.thoroughCases = 400000;
	h.rule = "case = file F (26 samples; single synthesised subject of every registered type x 14 versions from pattern "
			 "and rapidcheck tapes; multi-block synthesised files); checked: raw fixed point O2==O1 and default-save "
			 "convergence S3==S2==S4. Non-trivial = accepted file whose subject payload is longer than the all-zero-tape "
			 "payload of that (type, version) (>=1 array/optional section populated) or a sample file; distinct = "
			 "hash(type, version, payload).";
	return harnessMain(argc, argv, h);
}
