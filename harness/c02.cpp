// C02 — saving is repeatable and never alters the in-memory model.
//
// One live model M is saved up to three times, with the query battery run before the
// first and after every save.
//   raw saves:     B1 == B2 == B3 byte for byte; indexed battery identical throughout.
//   default saves: logical battery (reachable part, order-insensitive, no bounds) equal
//                  before and after the first save (which may permute/prune, C04);
//                  indexed battery identical after saves 1, 2, 3; B1, B2, B3 equal after
//                  canonicalising string indices to text (the table order may differ
//                  between the first and later saves; its content may not).
#include "battery.hpp"
#include "cases.hpp"
#include "graph.hpp"
#include "observe.hpp"

#include "Particles.hpp"

using namespace nifly;
using namespace vf;

namespace {

// canonical rendering of a saved file, using the live model for string-field offsets
bool canonFile(const std::string& bytes, NifFile& live, std::string& out, std::string& why) {
	auto mf = mini::parse(bytes);
	if (!mf.ok) {
		why = "output not parsable: " + mf.error;
		return false;
	}
	auto& hdr = live.GetHeader();
	out.clear();
	out += "blocks=" + std::to_string(mf.numBlocks) + "\n";
	std::vector<std::string> sorted = mf.strings;
	std::sort(sorted.begin(), sorted.end());
	for (auto& s : sorted)
		out += "str:" + s + "\n";
	if (!mf.ver.hasSizes() || !mf.ver.stringIndices() || mf.payloads.size() != hdr.GetNumBlocks()) {
		// no size table / inline strings: block bytes are compared as a whole
		out += bytes.substr(mf.headerEnd);
		return true;
	}
	CanonOpts co;
	co.strings = &mf.strings;
	for (uint32_t i = 0; i < mf.numBlocks; i++) {
		auto blk = hdr.GetBlock<NiObject>(i);
		PutObs po = observedPutClone(*blk, hdr);
		out += "#" + std::to_string(i) + " " + mf.typeOf(i) + " ";
		if (po.payload != mf.payloads[i]) {
			why = "block " + std::to_string(i) + " " + mf.typeOf(i) + ": bytes of a fresh clone differ from the bytes just written";
			return false;
		}
		out += canonPayload(po, co);
		out += "\n";
	}
	return true;
}

// Edits applied to the loaded/built model before the first save ("loaded or edited model"):
// detaching sub-graphs, deleting blocks, rotating the block order, adding nodes.
std::string editModel(NifFile& nif, Tape& t) {
	auto& hdr = nif.GetHeader();
	std::string log;
	uint32_t n = t.u8() % 3;
	for (uint32_t e = 0; e < n; e++) {
		uint32_t nb = hdr.GetNumBlocks();
		if (nb < 2)
			break;
		switch (t.u8() % 10) {
			case 0: { // clear one non-empty child reference: the sub-graph behind it becomes loose
				uint32_t start = t.u16() % nb;
				for (uint32_t k = 0; k < nb; k++) {
					auto b = hdr.GetBlock<NiObject>((start + k) % nb);
					if (b->HasType<NiShape>() || b->HasType<NiParticleSystem>())
						continue; // shapes cache pointers to their data; particle systems mirror one reference in two members
					std::set<NiRef*> refs;
					b->GetChildRefs(refs);
					std::vector<NiRef*> ne;
					for (auto r : refs)
						if (!r->IsEmpty())
							ne.push_back(r);
					if (ne.empty())
						continue;
					// choose by index value (set order is by address)
					std::sort(ne.begin(), ne.end(), [](NiRef* a, NiRef* b2) { return a->index < b2->index; });
					ne[t.u8() % ne.size()]->Clear();
					log += "clear-ref(" + std::string(b->GetBlockName()) + "); ";
					break;
				}
				break;
			}
			case 1: { // delete a block (never geometry data: NiGeometry caches a raw pointer to it)
				uint32_t id = 1 + t.u16() % (nb - 1);
				auto b = hdr.GetBlock<NiObject>(id);
				// (Oblivion tangent-space extra data is re-created by the writer when missing: not deleted here)
				if (!b || b->HasType<NiGeometryData>() || b->HasType<NiBinaryExtraData>() || b == nif.GetRootNode())
					break;
				hdr.DeleteBlock(id);
				log += "delete-block; ";
				break;
			}
			case 2: { // rename a node (new header string, the old one may become unused)
				auto nodes = nif.GetNodes();
				if (nodes.empty())
					break;
				nif.SetNodeName(nif.GetBlockID(nodes[t.u8() % nodes.size()]), "renamed_by_edit");
				log += "rename-node; ";
				break;
			}
			case 4: { // give a shader a material name (FO4+ files keep their values in the material file then)
				auto shapes = nif.GetShapes();
				if (shapes.empty())
					break;
				auto sh = nif.GetShader(shapes[t.u8() % shapes.size()]);
				if (!sh)
					break;
				sh->name.get() = t.coin() ? "materials\\edit\\named.bgsm" : "";
				log += "name-shader(" + std::string(sh->GetBlockName()) + "); ";
				break;
			}
			case 5: { // change a texture path
				auto shapes = nif.GetShapes();
				if (shapes.empty())
					break;
				std::string tex = "textures\\edit\\slot.dds";
				nif.SetTextureSlot(shapes[t.u8() % shapes.size()], tex, t.u8() % 4);
				log += "set-texture-slot; ";
				break;
			}
			case 6: { // add or remove an alpha property
				auto shapes = nif.GetShapes();
				if (shapes.empty())
					break;
				auto s = shapes[t.u8() % shapes.size()];
				if (nif.GetAlphaProperty(s)) {
					nif.RemoveAlphaProperty(s);
					log += "remove-alpha; ";
				}
				else {
					auto ap = std::make_unique<NiAlphaProperty>();
					ap->flags = 4844;
					ap->threshold = 100;
					nif.AssignAlphaProperty(s, std::move(ap));
					log += "assign-alpha; ";
				}
				break;
			}
			case 8: { // move a vertex to coordinates that no 16-bit half can hold exactly
				auto shapes = nif.GetShapes();
				if (shapes.empty())
					break;
				auto s = shapes[t.u8() % shapes.size()];
				if (s->GetNumVertices() == 0)
					break;
				// inside the shape, or far outside it (then the bounding sphere has to follow)
				const bool far = t.coin();
				nif.MoveVertex(s, far ? Vector3(4321.0123f, -3.3333333f, 987.65431f) : Vector3(0.12345678f, -3.3333333f, 7.0000019f), t.u16() % s->GetNumVertices());
				log += far ? "move-vertex(far outside, non-half values); " : "move-vertex(non-half values); ";
				break;
			}
			case 9: { // texture coordinates that no 16-bit half can hold exactly
				auto shapes = nif.GetShapes();
				if (shapes.empty())
					break;
				auto s = shapes[t.u8() % shapes.size()];
				std::vector<Vector2> uv(s->GetNumVertices());
				for (size_t i = 0; i < uv.size(); i++)
					uv[i] = Vector2(0.1f + 0.00137f * static_cast<float>(i % 97), 0.7f - 0.00091f * static_cast<float>(i % 89));
				if (!uv.empty()) {
					nif.SetUvsForShape(s, uv);
					log += "set-uvs(non-half values); ";
				}
				break;
			}
			case 7: { // rename a shape
				auto shapes = nif.GetShapes();
				if (shapes.empty())
					break;
				shapes[t.u8() % shapes.size()]->name.get() = "shape_renamed_by_edit";
				log += "rename-shape; ";
				break;
			}
			default:
				if (nif.AddNode("edit_node", MatTransform()))
					log += "add-node; ";
				break;
		}
	}
	return log;
}

Verdict prop(Tape& t, Run& run) {
	FileCase c;
	NifFile nif;
	const uint8_t srcKind = t.u8() % 4;
	if (srcKind == 3) {
		// generated scene graph (collision chains, controller chains, loose blocks, permuted order)
		static const size_t vers[] = {4, 5, 6, 7, 8, 11};
		size_t vi = vers[t.u8() % 6];
		GraphInfo gi = buildGraph(nif, t, vi);
		c.ok = true;
		c.kind = "graph";
		c.label = gi.str();
		c.version = versions()[vi].name;
		c.populated = true;
		c.hash = fnv1a(std::string(reinterpret_cast<const char*>(run.curTape), run.curTapeLen));
		saveBytes(nif, c.bytes, rawOpts());
		// continue with a freshly loaded model so that the case is a plain file + edits
		if (loadBytes(nif, c.bytes) != 0) {
			run.exclude("generated graph not accepted by Load");
			return OK;
		}
	}
	else {
		c = decodeFileCase(t, run, true, true);
		if (!c.ok) {
			run.exclude(c.why);
			return OK;
		}
		if (loadBytes(nif, c.bytes) != 0) {
			run.exclude("file not accepted by Load");
			return OK;
		}
	}
	const bool useDefault = t.coin();
	const bool interleave = !t.chance(64); // mostly query between saves
	const int saves = 3;
	std::string edits;
	if (c.kind == "graph" || c.kind == "corpus") {
		// queries before the edits as well: what a getter caches must not outlive an edit
		if (interleave) {
			BatteryOpts warm;
			warm.withPartitions = c.kind != "synth1" && c.kind != "synthN";
			battery(nif, warm);
			for (auto s : nif.GetShapes()) {
				std::vector<Vector3> v;
				nif.GetVertsForShape(s, v);
				nif.GetVertsForShape(s);
			}
			run.cls("queried-before-editing");
		}
		edits = editModel(nif, t);
	}
	if (!edits.empty())
		run.cls("edited-before-saving");
	const std::string mode = useDefault ? "default" : "raw";
	run.cls("mode:" + mode);
	run.cls("kind:" + c.kind);
	run.cls("version:" + c.version);
	const std::string sigBase = "C02:" + (c.kind == "synthN" ? std::string("multi") : c.kind == "graph" ? std::string("graph") : c.label) + "@" + c.version + ":" + mode;
	auto detail = [&](const std::string& what, const std::string& diff) {
		return J().s("kind", c.kind).s("subject", c.label).s("version", c.version).s("mode", mode).s("edits", edits).s("what", what).s("first_difference", diff).s("nif_hex", to_hex(c.bytes)).str();
	};
	const size_t nShapes = nif.GetShapes().size();
	if (nShapes >= 1 || nif.GetHeader().GetNumBlocks() >= 3) {
		if (c.populated) {
			run.nontriv(hash_mix(c.hash, useDefault));
			run.cls("populated");
		}
	}
	if (nShapes)
		run.cls("has-shape");
	if (run.wantSample())
		run.sample(J().s("kind", c.kind).s("subject", c.label).s("version", c.version).s("mode", mode).u("shapes", nShapes).u("blocks", nif.GetHeader().GetNumBlocks()).b("queries_between_saves", interleave).str());

	BatteryOpts idx;
	BatteryOpts logical;
	logical.indexed = false;
	logical.withBounds = false;
	// Partition/segment queries index into skin and segment tables without validating them;
	// hook-synthesised blocks carry arbitrary (internally inconsistent) tables, so these two
	// queries are only asked of sample files (DESIGN.md section 4, observations).
	idx.withPartitions = logical.withPartitions = (c.kind == "corpus");

	const NifSaveOptions& so = useDefault ? defOpts() : rawOpts();
	std::string qPrevIdx, qLogical0;
	// Mostly the reference answers are taken before the first save; sometimes (edited models) the first
	// save follows the edit directly, with the first queries only after it: nothing may refresh what an
	// earlier getter cached in between. (Read last, after every other tape byte of the case.)
	const bool preQuery = edits.empty() || !t.chance(96);
	if (!preQuery)
		run.cls("first-save-directly-after-the-edit");
	else if (useDefault)
		qLogical0 = battery(nif, logical);
	else
		qPrevIdx = battery(nif, idx);

	std::string prevBytes, prevCanon;
	for (int k = 1; k <= saves; k++) {
		std::string b;
		if (saveBytes(nif, b, so) != 0)
			return run.fail(sigBase + ":save-failed", detail("save #" + std::to_string(k) + " failed", ""));
		if (const char* dd = getenv("VF_DUMP_DIR")) { // triage aid
			std::ofstream df(std::string(dd) + "/save" + std::to_string(k) + ".nif", std::ios::binary);
			df << b;
		}
		// bytes
		if (useDefault) {
			std::string canon, why;
			if (!canonFile(b, nif, canon, why)) {
				run.exclude("canonicalisation not possible: " + why.substr(0, 60));
			}
			else {
				if (const char* dd = getenv("VF_DUMP_DIR")) {
					std::ofstream df(std::string(dd) + "/canon" + std::to_string(k) + ".txt", std::ios::binary);
					df << canon;
				}
				if (k > 1 && !prevCanon.empty() && canon != prevCanon)
					return run.fail(sigBase + ":save#" + std::to_string(k) + ":bytes",
									detail("default save #" + std::to_string(k) + " differs from save #" + std::to_string(k - 1) + " in content (string order canonicalised)", firstDiff(prevBytes, b)));
				prevCanon = canon;
			}
		}
		else if (k > 1 && b != prevBytes)
			return run.fail(sigBase + ":save#" + std::to_string(k) + ":bytes",
							detail("raw save #" + std::to_string(k) + " differs from save #" + std::to_string(k - 1), firstDiff(prevBytes, b)));
		prevBytes = b;

		// queries
		if (interleave || k == saves) {
			if (useDefault && k == 1 && preQuery) {
				std::string q = battery(nif, logical);
				if (q != qLogical0)
					return run.fail(sigBase + ":save#1:query", detail("a query answers differently after the first default save (reachable part, order-insensitive)", batteryDiff(qLogical0, q)));
			}
			std::string q = battery(nif, idx);
			if (!qPrevIdx.empty() && q != qPrevIdx)
				return run.fail(sigBase + ":save#" + std::to_string(k) + ":query", detail("a query answers differently after save #" + std::to_string(k), batteryDiff(qPrevIdx, q)));
			qPrevIdx = q;
		}
	}
	return OK;
}

void deterministic(Run& run, const std::function<void(const std::vector<uint8_t>&)>& feed) {
	// every corpus file in both modes, with and without interleaved queries
	size_t n = corpus(run.args.corpus).size();
	for (size_t i = 0; i < n; i++)
		for (uint8_t mode = 0; mode < 2; mode++)
			feed({0, 1, static_cast<uint8_t>(i), mode, 0, 0});
	// samples with one / all block types unregistered (opaque blocks), both modes
	for (size_t i = 0; i < n; i++)
		for (uint8_t which : {0, 3, 0xFF})
			for (uint8_t mode = 0; mode < 2; mode++)
				feed({0, 0xD0, 1, static_cast<uint8_t>(i), which, mode, 0, 0});
	// every type x version x patterns; mode alternates with the pattern byte
	auto& types = registeredTypes();
	static const uint8_t patterns[] = {0xA1, 0xC8, 0x00, 0x95, 0xE1, 0xFE};
	size_t np = run.args.tier == "thorough" ? 6 : 2;
	for (size_t ti = 0; ti < types.size(); ti++)
		for (size_t vi = 0; vi < versions().size(); vi++)
			for (size_t p = 0; p < np; p++) {
				std::vector<uint8_t> tape = {0, 0, static_cast<uint8_t>(ti & 255), static_cast<uint8_t>(ti >> 8), static_cast<uint8_t>(vi)};
				tape.resize(5 + 400, patterns[p]);
				feed(tape);
			}
}

} // namespace

int main(int argc, char** argv) {
	Harness h{};
	h.id = "C02";
	h.prop = prop;
	h.deterministic = deterministic;
	h.maxTape = 2000;
	h.quickCases = 20000;
	h.thoroughCases = 400000;
	h.rule = "case = (file F as in C01, save options raw|default, queries between saves yes|no); the same live model is "
			 "saved three times. Non-trivial = accepted populated file with >=1 shape or >=3 blocks; distinct = hash(type, "
			 "version, payload, options).";
	return harnessMain(argc, argv, h);
}
