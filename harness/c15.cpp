// C15 — corrupted block references never crash loading, querying or saving (fault enumeration).
//
// Fault model: a valid file (sample or synthesised) is written once; the byte offset of EVERY
// block-reference field is known from hook H3; 1-3 of them are overwritten with: empty, the block
// count, beyond the count (count+1, 0x7FFFFFFE), the owner itself, one of its ancestors, an
// arbitrary in-range index (incl. a block of the wrong type).
// Oracle (forked child per fault): the file loads, the whole query battery runs, the model can be
// copied, a default save returns 0 and terminates, its output loads again - with no sanitizer
// report, signal, unbounded recursion or hang.
#include "battery.hpp"
#include "cases.hpp"
#include "isolate.hpp"
#include "observe.hpp"

using namespace nifly;
using namespace vf;

namespace {

struct RefField {
	uint32_t owner;
	uint32_t ordinal;
	size_t fileOffset;
	uint32_t value;
};

struct Target {
	bool ok = false;
	std::string bytes; // raw-saved valid file
	std::vector<RefField> refs;
	uint32_t numBlocks = 0;
	std::vector<std::string> types;
	std::vector<std::vector<uint32_t>> parents; // reverse reference graph
};

// Raw-save the file and locate every reference field in the saved bytes.
Target prepare(const std::string& fileBytes) {
	Target tg;
	NifFile nif;
	if (loadBytes(nif, fileBytes) != 0)
		return tg;
	if (saveBytes(nif, tg.bytes, rawOpts()) != 0)
		return tg;
	auto mf = mini::parse(tg.bytes);
	if (!mf.ok)
		return tg;
	auto& hdr = nif.GetHeader();
	tg.numBlocks = hdr.GetNumBlocks();
	size_t pos = mf.headerEnd;
	tg.parents.resize(tg.numBlocks);
	for (uint32_t i = 0; i < tg.numBlocks; i++) {
		auto blk = hdr.GetBlock<NiObject>(i);
		tg.types.push_back(blk->GetBlockName());
		PutObs po = observedPutClone(*blk, hdr);
		// the clone's bytes must be the bytes in the file, otherwise offsets are meaningless
		if (tg.bytes.compare(pos, po.payload.size(), po.payload) != 0)
			return tg;
		for (size_t k = 0; k < po.refOffsets.size(); k++) {
			RefField rf;
			rf.owner = i;
			rf.ordinal = static_cast<uint32_t>(k);
			rf.fileOffset = pos + static_cast<size_t>(po.refOffsets[k]);
			rf.value = rd32(po.payload, static_cast<size_t>(po.refOffsets[k]));
			tg.refs.push_back(rf);
			if (rf.value < tg.numBlocks)
				tg.parents[rf.value].push_back(i);
		}
		pos += po.payload.size();
	}
	tg.ok = true;
	return tg;
}

std::vector<uint32_t> ancestorsOf(const Target& tg, uint32_t b) {
	std::vector<uint32_t> out;
	std::vector<bool> seen(tg.numBlocks, false);
	std::vector<uint32_t> stack = {b};
	while (!stack.empty()) {
		uint32_t x = stack.back();
		stack.pop_back();
		for (auto p : tg.parents[x])
			if (!seen[p]) {
				seen[p] = true;
				out.push_back(p);
				stack.push_back(p);
			}
	}
	return out;
}

const char* kindNames[] = {"empty", "count", "count+1", "0x7FFFFFFE", "self", "ancestor", "in-range"};

struct Fault {
	size_t field;
	uint8_t kind;
	uint32_t value;
};

uint32_t faultValue(const Target& tg, const RefField& rf, uint8_t kind, uint32_t pick) {
	switch (kind) {
		case 0: return 0xFFFFFFFFu;
		case 1: return tg.numBlocks;
		case 2: return tg.numBlocks + 1;
		case 3: return 0x7FFFFFFEu;
		case 4: return rf.owner;
		case 5: {
			auto anc = ancestorsOf(tg, rf.owner);
			if (anc.empty())
				return rf.owner;
			return anc[pick % anc.size()];
		}
		default: return tg.numBlocks ? pick % tg.numBlocks : 0;
	}
}

// Child body: exit codes 0 fine, 10.. = property-level failures
int childBody(const std::string& faulty, bool withParts) {
	NifFile nif;
	int rc = loadBytes(nif, faulty);
	if (rc != 0) {
		printf("CHILD-FAIL load rc=%d\n", rc);
		return 10;
	}
	BatteryOpts bo;
	bo.withPartitions = withParts;
	std::string q = battery(nif, bo);
	// transforms through the parent chain and skin (they walk references)
	for (auto n : nif.GetNodes()) {
		MatTransform t;
		nif.GetNodeTransformToGlobal(n->name.get(), t);
	}
	for (auto s : nif.GetShapes()) {
		MatTransform t;
		nif.CalcShapeTransformGlobalToSkin(s, t);
		nif.GetTexturePathRefs(s);
	}
	{
		NifFile copy(nif);
		std::string q2 = battery(copy, bo);
		(void) q2;
	}
	std::string out;
	if (saveBytes(nif, out, defOpts()) != 0) {
		printf("CHILD-FAIL save returned non-zero\n");
		return 11;
	}
	NifFile re;
	rc = loadBytes(re, out);
	if (rc != 0) {
		printf("CHILD-FAIL reload rc=%d\n", rc);
		return 12;
	}
	return 0;
}

Verdict runFaults(const Target& tg, const std::vector<Fault>& faults, const FileCase& c, Run& run) {
	std::string faulty = tg.bytes;
	std::string desc;
	bool meaningful = false;
	for (auto& f : faults) {
		const RefField& rf = tg.refs[f.field];
		memcpy(&faulty[rf.fileOffset], &f.value, 4);
		desc += tg.types[rf.owner] + "#" + std::to_string(rf.ordinal) + "@block" + std::to_string(rf.owner) + ":" + kindNames[f.kind] + "=" + std::to_string(f.value) + " ";
		if (rf.value != 0xFFFFFFFFu || f.value < tg.numBlocks)
			meaningful = true;
		run.cls(std::string("fault:") + kindNames[f.kind]);
	}
	run.cls("faults:" + std::to_string(faults.size()));
	if (meaningful) {
		uint64_t h = c.hash;
		for (auto& f : faults) {
			h = hash_mix(h, tg.refs[f.field].fileOffset);
			h = hash_mix(h, f.value);
		}
		run.nontriv(h);
	}
	const bool isSample = c.kind == "corpus";
	// once this process has seen a hang (reported, and confirmed separately by replays with the long
	// limit) further hangs are only counted: a shorter limit keeps a tree that hangs often within the budget
	static bool sawHang = false;
	ChildResult r = runIsolated([&]() { return childBody(faulty, isSample); }, run.replaying ? 40 : sawHang ? 6 : 20);
	if (r.timeout)
		sawHang = true;
	if (!r.ok && !isSample) {
		// Synthesised blocks carry arbitrary, internally inconsistent tables: only failures that the
		// unfaulted file does not show are attributed to the reference fault.
		ChildResult base = runIsolated([&]() { return childBody(tg.bytes, false); }, 20);
		if (!base.ok) {
			run.exclude("synthesised file fails without any fault (outside this property)");
			return OK;
		}
	}
	if (run.wantSample())
		run.sample(J().s("file", c.kind + ":" + c.label).s("version", c.version).s("faults", desc).u("reference_fields_in_file", tg.refs.size()).s("result", r.ok ? "absorbed" : r.kind).str());
	if (r.ok)
		return OK;
	std::string sig, what;
	if (r.timeout) {
		sig = "C15:hang";
		what = "load/query/copy/save did not terminate within the limit";
	}
	else if (r.crashed) {
		sig = "C15:" + r.kind + ":" + (r.frame.empty() ? "?" : r.frame);
		what = "sanitizer report or signal";
	}
	else if (r.exitCode == 10) {
		sig = "C15:load-rejected";
		what = "file with a corrupted reference does not load";
	}
	else if (r.exitCode == 11) {
		sig = "C15:save-failed";
		what = "default save returns an error";
	}
	else if (r.exitCode == 12) {
		sig = "C15:output-rejected";
		what = "saved output does not load";
	}
	else {
		sig = "C15:child-exit-" + std::to_string(r.exitCode);
		what = "unexpected child exit";
	}
	return run.fail(sig, J().s("file", c.kind + ":" + c.label).s("version", c.version).s("faults", desc).s("what", what).s("report", r.output.substr(0, 2500)).s("nif_hex", to_hex(faulty)).str());
}

// tape layout after the file case: nfaults(1..3), then per fault: field(u16), kind, pick(u16)
Verdict prop(Tape& t, Run& run) {
	FileCase c = decodeFileCase(t, run);
	if (!c.ok) {
		run.exclude(c.why);
		return OK;
	}
	// cache prepared targets of sample files
	static std::map<uint64_t, Target> cache;
	Target local;
	const Target* tg = nullptr;
	if (c.kind == "corpus") {
		auto it = cache.find(c.hash);
		if (it == cache.end())
			it = cache.emplace(c.hash, prepare(c.bytes)).first;
		tg = &it->second;
	}
	else {
		local = prepare(c.bytes);
		tg = &local;
	}
	if (!tg->ok) {
		run.exclude("file not accepted or reference fields not locatable");
		return OK;
	}
	if (tg->refs.empty()) {
		run.exclude("file without reference fields");
		return OK;
	}
	uint32_t nf = 1 + t.u8() % 3;
	std::vector<Fault> faults;
	for (uint32_t i = 0; i < nf; i++) {
		Fault f;
		f.field = t.u16() % tg->refs.size();
		f.kind = t.u8() % 7;
		f.value = faultValue(*tg, tg->refs[f.field], f.kind, t.u16());
		faults.push_back(f);
	}
	run.cls("kind:" + c.kind);
	return runFaults(*tg, faults, c, run);
}

// All single faults on the sample files (quick: files below 16 KB; thorough: all)
void deterministic(Run& run, const std::function<void(const std::vector<uint8_t>&)>& feed) {
	auto& cp = corpus(run.args.corpus);
	const bool thorough = run.args.tier == "thorough";
	uint64_t gidx = 0;
	run.feedAll = true; // sharded here, by fault
	for (size_t i = 0; i < cp.size(); i++) {
		Target tg = prepare(cp[i].bytes);
		if (!tg.ok)
			continue;
		const bool all = thorough || cp[i].bytes.size() <= 16 * 1024;
		// larger files in the quick tier: the first two instances of every (owner type, field ordinal)
		std::map<std::pair<std::string, uint32_t>, int> seen;
		struct One {
			size_t f;
			uint8_t kind;
			uint16_t pick;
		};
		std::vector<One> mine;
		for (size_t f = 0; f < tg.refs.size(); f++) {
			if (!all && seen[{tg.types[tg.refs[f].owner], tg.refs[f].ordinal}]++ >= 2)
				continue;
			for (uint8_t kind = 0; kind < 7; kind++) {
				// in-range faults: a few picks, incl. block 0 and the last block
				std::vector<uint16_t> picks = {0};
				if (kind == 6)
					picks = {0, static_cast<uint16_t>(tg.numBlocks - 1), static_cast<uint16_t>(f * 7 + 3)};
				if (kind == 5)
					picks = {0, 1};
				for (auto pick : picks)
					if (static_cast<int>(gidx++ % static_cast<uint64_t>(run.args.nshards)) == run.args.shard)
						mine.push_back({f, kind, pick});
			}
		}
		auto tapeOf = [&](const One& o) {
			return std::vector<uint8_t>{1, static_cast<uint8_t>(i), 0 /*one fault*/, static_cast<uint8_t>(o.f & 255), static_cast<uint8_t>(o.f >> 8), o.kind, static_cast<uint8_t>(o.pick & 255),
										static_cast<uint8_t>(o.pick >> 8)};
		};
		auto faultyOf = [&](const One& o) {
			std::string faulty = tg.bytes;
			uint32_t v = faultValue(tg, tg.refs[o.f], o.kind, o.pick);
			memcpy(&faulty[tg.refs[o.f].fileOffset], &v, 4);
			return faulty;
		};
		// 32 faults to a forked child; one that does not complete is decided on its own (feed -> prop -> runFaults)
		const uint64_t fileHash = fnv1a(cp[i].bytes);
		size_t at = 0;
		while (at < mine.size()) {
			size_t n = std::min<size_t>(32, mine.size() - at);
			size_t firstBad = runBatchIsolated(n, [&](size_t k) { return childBody(faultyOf(mine[at + k]), true); }, 20);
			for (size_t k = 0; k < firstBad && k < n; k++) {
				const One& o = mine[at + k];
				const RefField& rf = tg.refs[o.f];
				uint32_t v = faultValue(tg, rf, o.kind, o.pick);
				run.evaluations++;
				run.bulkEnumerated++;
				run.cls(std::string("fault:") + kindNames[o.kind]);
				run.cls("faults:1");
				run.cls("kind:corpus(batched)");
				if (rf.value != 0xFFFFFFFFu || v < tg.numBlocks)
					run.nontriv(hash_mix(hash_mix(fileHash, rf.fileOffset), v));
			}
			if (firstBad < n) {
				feed(tapeOf(mine[at + firstBad]));
				at += firstBad + 1;
			}
			else
				at += n;
		}
	}
	run.feedAll = false;
}

} // namespace

int main(int argc, char** argv) {
	Harness h{};
	h.id = "C15";
	h.prop = prop;
	h.deterministic = deterministic;
	h.maxTape = 2000;
	h.quickCases = 12000;
	h.thoroughCases = 400000;
	h.rule = "fault = overwrite of 1-3 reference fields (located exactly through hook H3) of a valid file by empty / count / "
			 "count+1 / 0x7FFFFFFE / self / an ancestor / an arbitrary in-range index. Enumerated: every reference field x "
			 "every fault kind of the sample files (quick: every field of files <= 16 KB and the first two instances of "
			 "every (block type, field ordinal) of the larger ones; thorough: every field of all 26), 32 faults to a forked child; random: 1-3 simultaneous faults "
			 "on samples and synthesised files. Each fault runs load + query battery + copy + default save + reload in a "
			 "forked child. Non-trivial = the overwritten field was non-empty or the new target exists; distinct = "
			 "hash(file, offsets, values).";
	return harnessMain(argc, argv, h);
}
