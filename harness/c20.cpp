// C20 — transform algebra and bounding spheres obey their geometric laws.
//
// Domain (everything decoded from the choice tape): rotations from axis-angle (any
// angle) built with an own double-precision Rodrigues formula, from
// Matrix3::MakeRotation(yaw,pitch,roll) and from RotVecToMat; scale in [0.01, 100];
// translations |t| <= 1e5; general matrices R1*diag(s)*R2 with s in [0.2, 5]; point
// sets of 1..2000 points (cloud, single, collinear, coplanar, cluster+outlier,
// duplicates, lattice, co-spherical, antipodal); shapes created through
// NifFile::Create + CreateShapeFromData for OB, FO3, SK, SSE, FO4, FO76.
//
// Oracles: the algebraic laws themselves, evaluated in double precision on the float
// results of the library (no exact float equality anywhere). Tolerances are relative to
// the operand magnitude m = max(1, |t|, ...) and are listed in the Tol namespace below:
// about 20x the worst error measured on the unchanged tree and far below the O(0.1..1)
// errors of a wrong formula.
//
// First tape byte: 0xFE = "structured case number follows" (deterministic phase, every
// structured case is replayable from its 3-byte tape); otherwise law = byte % 9.
//
// Signatures name root causes, not laws broken:
//   C20:average-identical / C20:median-identical   fails for k copies, holds for one copy (accumulation)
//   C20:<law>:half-turn, C20:<law>:single           fails already for one copy (conversion at / away from pi)
//   C20:sphere-contain / C20:sphere-size            BoundingSphere(points) itself (also when reached via a shape)
//   C20:bounds-create-* / C20:bounds-update-*       the shape does not carry BoundingSphere(its current vertices)
// The checks were validated against a repaired scratch copy of the library (mean instead of sum in
// CalcAverageRotation, half-turn axis from the symmetric part in RotMatToVec, double-precision Miniball
// plus a containment / box guard): 3.2 M cases, no violation, worst errors >= 15x below every tolerance.
#include "harness.hpp"
#include "nifx.hpp"

#include <cmath>
#include <functional>

using namespace nifly;
using namespace vf;

namespace {

constexpr double kPi = 3.14159265358979323846;

namespace Tol {
	constexpr double invRot = 1e-5;		 // |(T o T^-1).rotation - I|, entrywise
	constexpr double invTrans = 1e-5;	 // |(T o T^-1).translation| / m
	constexpr double invScale = 1e-5;	 // |(T o T^-1).scale - 1|
	constexpr double compose = 5e-5;	 // |(A o B)(v) - A(B(v))| / m
	constexpr double rotvec = 1e-4;		 // |RotMatToVec(RotVecToMat(v)) - v|, |v| <= pi - 0.05
	constexpr double ortho = 2e-5;		 // |R R^T - I|, entrywise
	constexpr double det1 = 1e-4;		 // |det R - 1| for rotations
	constexpr double mat3inv = 5e-5;	 // |M M^-1 - I|, entrywise, cond(M) <= 25
	constexpr double detMul = 1e-4;		 // |det(MN) - det M det N| / (|M|^3 |N|^3)
	constexpr double mat4inv = 1e-5;	 // |M4 M4^-1 - I| relative
	constexpr double median = 1e-5;		 // median of k identical transforms
	constexpr double average = 1e-4;	 // average of k identical transforms
	constexpr double sphereRel = 1e-4;	 // r * (1 + sphereRel)
	constexpr double sphereAbs = 1e-5;	 // + sphereAbs * m
	constexpr double halfTurnExcl = 0.05; // conversions are not required within this of pi
} // namespace Tol

// ------------------------------------------------------------------ double-precision helpers

struct V3d {
	double x, y, z;
};
struct M3d {
	double a[3][3];
};

V3d toD(const Vector3& v) {
	return {v.x, v.y, v.z};
}
double len(const V3d& v) {
	return std::sqrt(v.x * v.x + v.y * v.y + v.z * v.z);
}
double len(const Vector3& v) {
	return len(toD(v));
}
V3d sub(const V3d& a, const V3d& b) {
	return {a.x - b.x, a.y - b.y, a.z - b.z};
}
V3d add(const V3d& a, const V3d& b) {
	return {a.x + b.x, a.y + b.y, a.z + b.z};
}
V3d mulS(const V3d& a, double s) {
	return {a.x * s, a.y * s, a.z * s};
}
double dot(const V3d& a, const V3d& b) {
	return a.x * b.x + a.y * b.y + a.z * b.z;
}
V3d cross(const V3d& a, const V3d& b) {
	return {a.y * b.z - a.z * b.y, a.z * b.x - a.x * b.z, a.x * b.y - a.y * b.x};
}
double dist(const Vector3& a, const Vector3& b) {
	return len(sub(toD(a), toD(b)));
}
V3d normalized(const V3d& v, const V3d& fallback = {1, 0, 0}) {
	double l = len(v);
	if (!(l > 1e-12))
		return fallback;
	return mulS(v, 1.0 / l);
}
Vector3 toF(const V3d& v) {
	return Vector3(static_cast<float>(v.x), static_cast<float>(v.y), static_cast<float>(v.z));
}

M3d toD(const Matrix3& m) {
	M3d r;
	for (int i = 0; i < 3; i++)
		for (int j = 0; j < 3; j++)
			r.a[i][j] = m[i][j];
	return r;
}
Matrix3 toF(const M3d& m) {
	Matrix3 r;
	for (int i = 0; i < 3; i++)
		for (int j = 0; j < 3; j++)
			r[i][j] = static_cast<float>(m.a[i][j]);
	return r;
}
M3d mul(const M3d& a, const M3d& b) {
	M3d r;
	for (int i = 0; i < 3; i++)
		for (int j = 0; j < 3; j++)
			r.a[i][j] = a.a[i][0] * b.a[0][j] + a.a[i][1] * b.a[1][j] + a.a[i][2] * b.a[2][j];
	return r;
}
V3d mulV(const M3d& a, const V3d& v) {
	return {a.a[0][0] * v.x + a.a[0][1] * v.y + a.a[0][2] * v.z, a.a[1][0] * v.x + a.a[1][1] * v.y + a.a[1][2] * v.z,
			a.a[2][0] * v.x + a.a[2][1] * v.y + a.a[2][2] * v.z};
}
M3d transposed(const M3d& a) {
	M3d r;
	for (int i = 0; i < 3; i++)
		for (int j = 0; j < 3; j++)
			r.a[i][j] = a.a[j][i];
	return r;
}
M3d diag(double x, double y, double z) {
	M3d r{};
	r.a[0][0] = x;
	r.a[1][1] = y;
	r.a[2][2] = z;
	return r;
}
double maxAbsMinusI(const M3d& a) {
	double e = 0;
	for (int i = 0; i < 3; i++)
		for (int j = 0; j < 3; j++)
			e = std::max(e, std::fabs(a.a[i][j] - (i == j ? 1.0 : 0.0)));
	return e;
}
double maxAbsDiff(const M3d& a, const M3d& b) {
	double e = 0;
	for (int i = 0; i < 3; i++)
		for (int j = 0; j < 3; j++)
			e = std::max(e, std::fabs(a.a[i][j] - b.a[i][j]));
	return e;
}
double detD(const M3d& m) {
	return m.a[0][0] * (m.a[1][1] * m.a[2][2] - m.a[1][2] * m.a[2][1]) - m.a[0][1] * (m.a[1][0] * m.a[2][2] - m.a[1][2] * m.a[2][0])
		   + m.a[0][2] * (m.a[1][0] * m.a[2][1] - m.a[1][1] * m.a[2][0]);
}
bool finite(const Vector3& v) {
	return std::isfinite(v.x) && std::isfinite(v.y) && std::isfinite(v.z);
}
bool finite(const Matrix3& m) {
	return finite(m[0]) && finite(m[1]) && finite(m[2]);
}
bool finite(const MatTransform& t) {
	return finite(t.rotation) && finite(t.translation) && std::isfinite(t.scale);
}

// Own Rodrigues formula (column-vector convention), unit axis n, any angle.
M3d rodrigues(const V3d& n, double ang) {
	double c = std::cos(ang), s = std::sin(ang), k = 1.0 - c;
	M3d r;
	r.a[0][0] = c + k * n.x * n.x;
	r.a[0][1] = k * n.x * n.y - s * n.z;
	r.a[0][2] = k * n.x * n.z + s * n.y;
	r.a[1][0] = k * n.y * n.x + s * n.z;
	r.a[1][1] = c + k * n.y * n.y;
	r.a[1][2] = k * n.y * n.z - s * n.x;
	r.a[2][0] = k * n.z * n.x - s * n.y;
	r.a[2][1] = k * n.z * n.y + s * n.x;
	r.a[2][2] = c + k * n.z * n.z;
	return r;
}

// Rotation angle in [0, pi] of a (near-)rotation matrix, well conditioned at every angle.
double angleOf(const Matrix3& m) {
	M3d d = toD(m);
	V3d w{d.a[2][1] - d.a[1][2], d.a[0][2] - d.a[2][0], d.a[1][0] - d.a[0][1]};
	double sn = 0.5 * len(w);
	double cs = 0.5 * (d.a[0][0] + d.a[1][1] + d.a[2][2] - 1.0);
	return std::atan2(sn, cs);
}
double wrapAngle(double a) {
	a = std::fmod(std::fabs(a), 2 * kPi);
	return a > kPi ? 2 * kPi - a : a;
}

// ------------------------------------------------------------------ JSON helpers

std::string num(double v) {
	char b[40];
	if (!std::isfinite(v)) {
		snprintf(b, sizeof b, "\"%g\"", v);
		return b;
	}
	snprintf(b, sizeof b, "%.9g", v);
	return b;
}
std::string jv(const Vector3& v) {
	return "[" + num(v.x) + "," + num(v.y) + "," + num(v.z) + "]";
}
std::string jm(const Matrix3& m) {
	return "[" + jv(m[0]) + "," + jv(m[1]) + "," + jv(m[2]) + "]";
}
std::string jpts(const std::vector<Vector3>& p, size_t limit = 12) {
	std::string o = "[";
	for (size_t i = 0; i < p.size() && i < limit; i++)
		o += (i ? "," : "") + jv(p[i]);
	return o + "]";
}

// ------------------------------------------------------------------ decoded inputs

struct Xf {
	MatTransform T;
	double angle = 0; // rotation angle of T.rotation, [0, pi]
	const char* src = "identity";
};
std::string jxf(const Xf& x) {
	return J().raw("rotation", jm(x.T.rotation))
		.raw("translation", jv(x.T.translation))
		.f("scale", x.T.scale)
		.f("angle_rad", x.angle)
		.s("rotation_source", x.src)
		.str();
}
uint64_t hashV(uint64_t h, const Vector3& v) {
	h = hash_mix(h, v.x);
	h = hash_mix(h, v.y);
	return hash_mix(h, v.z);
}
uint64_t hashM(uint64_t h, const Matrix3& m) {
	return hashV(hashV(hashV(h, m[0]), m[1]), m[2]);
}
uint64_t hashXf(uint64_t h, const Xf& x) {
	return hash_mix(hashV(hashM(h, x.T.rotation), x.T.translation), x.T.scale);
}
uint64_t hashPts(uint64_t h, const std::vector<Vector3>& p) {
	for (auto& v : p)
		h = hashV(h, v);
	return hash_mix(h, p.size());
}
bool nontrivXf(const Xf& x) {
	return x.angle > 0.1 && len(x.T.translation) > 1.0;
}

double decAngle(Tape& t) {
	uint8_t sel = t.u8();
	switch (sel & 7) {
		case 0: return 0.0;
		case 1: return t.u16() / 65536.0 * 2 * kPi;
		case 2: return (t.u8() % 25) * (kPi / 12); // multiples of 15 degrees, 0..360
		case 3: return 1e-6 * (1 + t.u8());		   // tiny
		case 4: return kPi + (t.u16() / 65535.0 - 0.5) * 0.2; // around the half turn
		case 5: return t.u16() / 65535.0 * (kPi - Tol::halfTurnExcl);
		case 6: return kPi - std::pow(10.0, -(1 + t.u8() % 7)); // approaching the half turn
		default: return (t.u16() / 65535.0 - 0.5) * 4 * kPi;	  // [-2pi, 2pi]
	}
}

V3d decAxis(Tape& t) {
	uint8_t sel = t.u8();
	const double q = 1.0 / std::sqrt(3.0);
	switch (sel & 7) {
		case 0: return {1, 0, 0};
		case 1: return {0, 1, 0};
		case 2: return {0, 0, 1};
		case 3: return {(sel & 8) ? -q : q, (sel & 16) ? -q : q, (sel & 32) ? -q : q};
		case 4:
		case 5: {
			double x = static_cast<int8_t>(t.u8()), y = static_cast<int8_t>(t.u8()), z = static_cast<int8_t>(t.u8());
			return normalized({x, y, z});
		}
		default: {
			double x = static_cast<int16_t>(t.u16()), y = static_cast<int16_t>(t.u16()), z = static_cast<int16_t>(t.u16());
			return normalized({x, y, z});
		}
	}
}

Matrix3 decRotation(Tape& t, const char*& src) {
	uint8_t sel = t.u8();
	if ((sel & 7) == 7) {
		float y = static_cast<float>(decAngle(t));
		float p = static_cast<float>(decAngle(t));
		float r = static_cast<float>(decAngle(t));
		src = "Matrix3::MakeRotation";
		return Matrix3::MakeRotation(y, p, r);
	}
	V3d n = decAxis(t);
	double a = decAngle(t);
	if ((sel & 7) == 3) {
		src = "RotVecToMat";
		return RotVecToMat(toF(mulS(n, a)));
	}
	src = "rodrigues";
	return toF(rodrigues(n, a));
}

float decScale(Tape& t) {
	uint8_t sel = t.u8();
	switch (sel & 3) {
		case 0: return 1.0f;
		case 1: {
			static const float ex[8] = {0.05f, 20.0f, 0.5f, 2.0f, 0.1f, 10.0f, 1.0001f, 0.9999f};
			return ex[(sel >> 2) & 7];
		}
		case 2: {
			float s = static_cast<float>(0.05 * std::pow(400.0, t.u16() / 65535.0));
			return std::min(20.0f, std::max(0.05f, s));
		}
		default: {
			// the wider range [0.01, 100]: small props and huge backdrops; the determinant of the
			// scaled rotation goes down to 1e-6 while the matrix stays perfectly conditioned
			uint16_t v = t.u16();
			if ((v & 15) == 0) {
				static const float ex[4] = {0.01f, 100.0f, 0.02f, 0.04f};
				return ex[(v >> 4) & 3];
			}
			float s = static_cast<float>(0.01 * std::pow(10000.0, v / 65535.0));
			return std::min(100.0f, std::max(0.01f, s));
		}
	}
}

// vector of length <= maxLen; a zero byte gives the zero vector
Vector3 decVec(Tape& t, double maxLen) {
	uint8_t sel = t.u8();
	double mag = maxLen;
	switch (sel & 7) {
		case 0: return Vector3();
		case 1: {
			float x = t.nice(), y = t.nice(), z = t.nice();
			return Vector3(x, y, z);
		}
		case 2: mag = 1; break;
		case 3: mag = 100; break;
		case 4: mag = 1e4; break;
		case 5: mag = maxLen; break;
		case 6: { // axis aligned, up to the full length
			double v = static_cast<int16_t>(t.u16()) / 32768.0 * maxLen;
			int ax = (sel >> 3) % 3;
			V3d r{0, 0, 0};
			(ax == 0 ? r.x : ax == 1 ? r.y : r.z) = v;
			return toF(r);
		}
		default: { // exactly the maximal length, random direction
			V3d d = decAxis(t);
			return toF(mulS(d, maxLen * (1 - 1e-7)));
		}
	}
	mag = std::min(mag, maxLen);
	V3d r{static_cast<int16_t>(t.u16()) / 32768.0 * mag, static_cast<int16_t>(t.u16()) / 32768.0 * mag,
		  static_cast<int16_t>(t.u16()) / 32768.0 * mag};
	double l = len(r);
	if (l > maxLen)
		r = mulS(r, maxLen * (1 - 1e-7) / l);
	return toF(r);
}

Xf decXf(Tape& t) {
	Xf x;
	x.T.rotation = decRotation(t, x.src);
	x.T.scale = decScale(t);
	x.T.translation = decVec(t, 1e5);
	x.angle = angleOf(x.T.rotation);
	return x;
}

struct General3 {
	Matrix3 M;
	double smin = 1, smax = 1, a1 = 0, a2 = 0;
};
General3 decGeneral(Tape& t) {
	General3 g;
	V3d n1 = decAxis(t);
	double a1 = decAngle(t);
	V3d n2 = decAxis(t);
	double a2 = decAngle(t);
	double s[3];
	for (double& si : s) {
		uint8_t sel = t.u8();
		switch (sel & 3) {
			case 0: si = 1.0; break;
			case 1: si = (sel & 4) ? 5.0 : 0.2; break;
			default: si = 0.2 * std::pow(25.0, t.u16() / 65535.0); break;
		}
	}
	// sometimes a uniform factor in [0.01, 100] on top: the condition number stays, the determinant
	// goes down to 1e-6 x (and up to 1e6 x) that of the unscaled matrix
	{
		uint8_t u = t.u8();
		if ((u & 3) == 3) {
			double f = (u & 4) ? ((u & 8) ? 0.01 : 100.0) : 0.01 * std::pow(10000.0, t.u16() / 65535.0);
			for (double& si : s)
				si *= f;
		}
	}
	g.smin = std::min(s[0], std::min(s[1], s[2]));
	g.smax = std::max(s[0], std::max(s[1], s[2]));
	g.a1 = wrapAngle(a1);
	g.a2 = wrapAngle(a2);
	g.M = toF(mul(mul(rodrigues(n1, a1), diag(s[0], s[1], s[2])), rodrigues(n2, a2)));
	return g;
}

struct PointSet {
	std::vector<Vector3> pts;
	std::string kind;
};

PointSet decPoints(Tape& t, unsigned maxN = 2000) {
	static const char* kinds[10] = {"cloud", "single", "collinear", "coplanar", "cluster+outlier",
									"pool-duplicates", "lattice", "co-spherical", "all-duplicates", "antipodal+interior"};
	PointSet ps;
	unsigned mode = t.u8() % 10;
	ps.kind = kinds[mode];
	uint8_t cb = t.u8();
	unsigned n;
	if (cb < 200)
		n = 1 + cb % 12;
	else if (cb < 245)
		n = 13 + t.u8();
	else
		n = 269 + t.u16() % 1732;
	n = std::min(n, maxN);
	if (mode == 1)
		n = 1;
	V3d c = toD(decVec(t, 1e5));
	static const double exts[8] = {1, 10, 100, 1e3, 1e4, 0.1, 0.01, 1e-3};
	double ext = exts[t.u8() & 7];
	const bool fine = n <= 300;
	auto coord = [&]() -> double {
		return fine ? static_cast<int16_t>(t.u16()) / 32767.0 : static_cast<int8_t>(t.u8()) / 127.0;
	};
	auto coord3 = [&]() -> V3d {
		double x = coord(), y = coord(), z = coord();
		return {x, y, z};
	};
	std::vector<V3d> p;
	switch (mode) {
		case 0:
			for (unsigned i = 0; i < n; i++)
				p.push_back(add(c, mulS(coord3(), ext)));
			break;
		case 1: p.push_back(c); break;
		case 2: {
			V3d d = decAxis(t);
			for (unsigned i = 0; i < n; i++)
				p.push_back(add(c, mulS(d, ext * coord())));
			break;
		}
		case 3: {
			V3d u = decAxis(t), w0 = decAxis(t);
			V3d w = sub(w0, mulS(u, dot(w0, u)));
			if (len(w) < 1e-6)
				w = cross(u, std::fabs(u.x) < 0.9 ? V3d{1, 0, 0} : V3d{0, 1, 0});
			w = normalized(w);
			for (unsigned i = 0; i < n; i++) {
				double a = coord(), b = coord();
				p.push_back(add(c, add(mulS(u, ext * a), mulS(w, ext * b))));
			}
			break;
		}
		case 4: {
			V3d d = decAxis(t);
			double far = 1.0 + t.u8() / 255.0;
			for (unsigned i = 0; i + 1 < n; i++)
				p.push_back(add(c, mulS(coord3(), ext * 1e-3)));
			p.push_back(add(c, mulS(d, ext * far)));
			break;
		}
		case 5: {
			unsigned k = 1 + t.u8() % 4;
			std::vector<V3d> pool;
			for (unsigned i = 0; i < k; i++)
				pool.push_back(add(c, mulS(coord3(), ext)));
			for (unsigned i = 0; i < n; i++)
				p.push_back(pool[t.u8() % k]);
			break;
		}
		case 6: {
			unsigned L = (t.u8() & 1) ? 4 : 2; // cube corners or a 4x4x4 grid
			for (unsigned i = 0; i < n; i++) {
				uint8_t b = t.u8();
				V3d g{static_cast<double>(b % L), static_cast<double>((b / L) % L), static_cast<double>((b / (L * L)) % L)};
				p.push_back(add(c, mulS(g, ext)));
			}
			break;
		}
		case 7:
			for (unsigned i = 0; i < n; i++)
				p.push_back(add(c, mulS(normalized(coord3()), ext)));
			break;
		case 8: {
			V3d q = add(c, mulS(coord3(), ext));
			for (unsigned i = 0; i < n; i++)
				p.push_back(q);
			break;
		}
		default: {
			V3d d = decAxis(t);
			p.push_back(add(c, mulS(d, ext)));
			if (n > 1)
				p.push_back(sub(c, mulS(d, ext)));
			for (unsigned i = 2; i < n; i++)
				p.push_back(add(c, mulS(coord3(), ext * 0.5)));
			break;
		}
	}
	for (auto& q : p)
		ps.pts.push_back(toF(q));
	return ps;
}

// >= 4 points that do not lie in one plane (relative threshold 1e-6 of the extent)
bool nonCoplanar(const std::vector<Vector3>& p) {
	if (p.size() < 4)
		return false;
	V3d p0 = toD(p[0]);
	double d1 = 0;
	V3d e1{0, 0, 0};
	for (auto& q : p) {
		V3d e = sub(toD(q), p0);
		if (len(e) > d1) {
			d1 = len(e);
			e1 = e;
		}
	}
	if (!(d1 > 0))
		return false;
	double area = 0;
	V3d nrm{0, 0, 0};
	for (auto& q : p) {
		V3d c = cross(e1, sub(toD(q), p0));
		if (len(c) > area) {
			area = len(c);
			nrm = c;
		}
	}
	if (!(area > 1e-6 * d1 * d1))
		return false;
	nrm = mulS(nrm, 1.0 / area);
	double h = 0;
	for (auto& q : p)
		h = std::max(h, std::fabs(dot(nrm, sub(toD(q), p0))));
	return h > 1e-6 * d1;
}

// ------------------------------------------------------------------ laws

Verdict nonFinite(Run& run, const std::string& law, const std::string& what, const std::string& inputs) {
	return run.fail("C20:" + law + "-nonfinite", J().s("law", law).s("what", what + " is not finite").raw("input", inputs).str());
}

// T o T^-1 = T^-1 o T = identity; T^-1(T(v)) = v
Verdict lawInverse(const Xf& X, const Vector3& v, Run& run) {
	run.cls("law:inverse");
	run.cls(std::string("rotation-source:") + X.src);
	const MatTransform& T = X.T;
	uint64_t h = hashV(hashXf(fnv1a("inverse"), X), v);
	if (nontrivXf(X))
		run.nontriv(h);
	MatTransform inv = T.InverseTransform();
	MatTransform c1 = T.ComposeTransforms(inv);
	MatTransform c2 = inv.ComposeTransforms(T);
	std::string in = J().raw("T", jxf(X)).raw("v", jv(v)).str();
	if (run.wantSample())
		run.sample(J().s("law", "inverse").raw("input", in).str());
	if (!finite(inv) || !finite(c1) || !finite(c2))
		return nonFinite(run, "inverse", "InverseTransform/ComposeTransforms result", in);
	double m = std::max(1.0, std::max(len(T.translation), len(inv.translation)));
	double eRot = std::max(maxAbsMinusI(toD(c1.rotation)), maxAbsMinusI(toD(c2.rotation)));
	double eTr = std::max(len(c1.translation), len(c2.translation)) / m;
	double eSc = std::max(std::fabs(static_cast<double>(c1.scale) - 1.0), std::fabs(static_cast<double>(c2.scale) - 1.0));
	run.maxi("inverse:rotation |(T o T^-1).R - I| (tol 1e-5)", eRot);
	run.maxi("inverse:translation |(T o T^-1).t|/m (tol 1e-5)", eTr);
	run.maxi("inverse:scale |(T o T^-1).s - 1| (tol 1e-5)", eSc);
	auto detail = [&](const char* part, double err, double tol) {
		return J().s("law", "T o T^-1 = T^-1 o T = identity")
			.s("part", part)
			.f("error", err)
			.f("tolerance", tol)
			.f("m", m)
			.raw("input", in)
			.raw("inverse", jxf(Xf{inv, angleOf(inv.rotation), "InverseTransform"}))
			.raw("T_o_inv", jxf(Xf{c1, angleOf(c1.rotation), "ComposeTransforms"}))
			.raw("inv_o_T", jxf(Xf{c2, angleOf(c2.rotation), "ComposeTransforms"}))
			.str();
	};
	if (eRot > Tol::invRot)
		return run.fail("C20:inverse-rotation", detail("rotation", eRot, Tol::invRot));
	if (eTr > Tol::invTrans)
		return run.fail("C20:inverse-translation", detail("translation", eTr, Tol::invTrans));
	if (eSc > Tol::invScale)
		return run.fail("C20:inverse-scale", detail("scale", eSc, Tol::invScale));
	// consequence on points: T^-1(T(v)) = v and T(T^-1(v)) = v
	Vector3 w1 = inv.ApplyTransform(T.ApplyTransform(v));
	Vector3 w2 = T.ApplyTransform(inv.ApplyTransform(v));
	if (!finite(w1) || !finite(w2))
		return nonFinite(run, "inverse", "ApplyTransform result", in);
	double e1 = dist(w1, v) / std::max(1.0, std::max(len(v), len(inv.translation)));
	double e2 = dist(w2, v) / std::max(1.0, std::max(len(v), len(T.translation)));
	double eAp = std::max(e1, e2);
	run.maxi("inverse:apply |T^-1(T(v)) - v|/m (tol 5e-5)", eAp);
	if (eAp > Tol::compose)
		return run.fail("C20:inverse-apply",
						J().s("law", "T^-1(T(v)) = v = T(T^-1(v))")
							.f("error", eAp)
							.f("tolerance", Tol::compose)
							.raw("input", in)
							.raw("inv_T_v", jv(w1))
							.raw("T_inv_v", jv(w2))
							.str());
	return OK;
}

// (A o B)(v) = A(B(v))
Verdict lawCompose(const Xf& A, const Xf& B, const Vector3& v, Run& run) {
	run.cls("law:compose-apply");
	run.cls(std::string("rotation-source:") + A.src);
	uint64_t h = hashV(hashXf(hashXf(fnv1a("compose"), A), B), v);
	if (nontrivXf(A) && nontrivXf(B))
		run.nontriv(h);
	std::string in = J().raw("A", jxf(A)).raw("B", jxf(B)).raw("v", jv(v)).str();
	if (run.wantSample())
		run.sample(J().s("law", "compose-apply").raw("input", in).str());
	MatTransform C = A.T.ComposeTransforms(B.T);
	Vector3 lhs = C.ApplyTransform(v);
	Vector3 rhs = A.T.ApplyTransform(B.T.ApplyTransform(v));
	if (!finite(C) || !finite(lhs) || !finite(rhs))
		return nonFinite(run, "compose-apply", "ComposeTransforms/ApplyTransform result", in);
	double sA = std::fabs(A.T.scale), sB = std::fabs(B.T.scale);
	double m = std::max(std::max(1.0, len(A.T.translation)), std::max(sA * len(B.T.translation), sA * sB * len(v)));
	double err = dist(lhs, rhs);
	run.maxi("compose-apply:|(AoB)(v) - A(B(v))|/m (tol 5e-5)", err / m);
	double lr = std::max(len(lhs), len(rhs));
	if (lr > 1e-3 * m)
		run.maxi("compose-apply:|(AoB)(v) - A(B(v))|/|result| (evidence only, |result| > 1e-3 m)", err / lr);
	if (err > Tol::compose * m)
		return run.fail("C20:compose-apply",
						J().s("law", "(A o B)(v) = A(B(v))")
							.f("error_over_m", err / m)
							.f("tolerance", Tol::compose)
							.f("m", m)
							.raw("input", in)
							.raw("AoB", jxf(Xf{C, angleOf(C.rotation), "ComposeTransforms"}))
							.raw("AoB_v", jv(lhs))
							.raw("A_B_v", jv(rhs))
							.str());
	return OK;
}

// Part B of the conversion law: matrix -> vector -> matrix
Verdict rotMatRoundTrip(const Matrix3& R, const std::string& in, Run& run) {
	double a = angleOf(R);
	if (a > kPi - Tol::halfTurnExcl) {
		run.cls("rotvec:matrix-within-0.05-of-half-turn(conversion not required)");
		return OK;
	}
	Vector3 w = RotMatToVec(R);
	if (!finite(w))
		return nonFinite(run, "rotvec", "RotMatToVec result", in);
	Matrix3 R2 = RotVecToMat(w);
	if (!finite(R2))
		return nonFinite(run, "rotvec", "RotVecToMat result", in);
	double e = maxAbsDiff(toD(R2), toD(R));
	double ea = std::fabs(len(w) - a);
	run.maxi("rotvec:|RotVecToMat(RotMatToVec(R)) - R| (tol 1e-4)", e);
	run.maxi("rotvec:||RotMatToVec(R)| - angle(R)| (tol 1e-4)", ea);
	if (e > Tol::rotvec)
		return run.fail("C20:rotvec-mat-roundtrip",
						J().s("law", "RotVecToMat(RotMatToVec(R)) = R below a half turn")
							.f("error", e)
							.f("tolerance", Tol::rotvec)
							.f("angle_rad", a)
							.raw("input", in)
							.raw("R", jm(R))
							.raw("vec", jv(w))
							.raw("back", jm(R2))
							.str());
	if (ea > Tol::rotvec)
		return run.fail("C20:rotvec-angle",
						J().s("law", "|RotMatToVec(R)| = rotation angle of R")
							.f("error", ea)
							.f("tolerance", Tol::rotvec)
							.f("angle_rad", a)
							.raw("input", in)
							.raw("R", jm(R))
							.raw("vec", jv(w))
							.str());
	return OK;
}

Verdict checkOrthonormal(const Matrix3& M, const char* who, const std::string& in, Run& run) {
	if (!finite(M))
		return nonFinite(run, "rotvec", std::string(who) + " result", in);
	M3d d = toD(M);
	double eo = std::max(maxAbsMinusI(mul(d, transposed(d))), maxAbsMinusI(mul(transposed(d), d)));
	double ed = std::fabs(detD(d) - 1.0);
	run.maxi(std::string("orthonormal:|R R^T - I| of ") + who + " (tol 2e-5)", eo);
	run.maxi(std::string("orthonormal:|det R - 1| of ") + who + " (tol 1e-4)", ed);
	if (eo > Tol::ortho || ed > Tol::det1)
		return run.fail("C20:rotvec-orthonormal",
						J().s("law", "conversion produces an orthonormal matrix with determinant +1")
							.s("producer", who)
							.f("orthonormality_error", eo)
							.f("tolerance", Tol::ortho)
							.f("det_error", ed)
							.f("det_tolerance", Tol::det1)
							.raw("input", in)
							.raw("matrix", jm(M))
							.str());
	return OK;
}

// v: rotation vector (any length); R: a rotation matrix from an independent source
Verdict lawRotVec(const Vector3& v, const Matrix3& R, const char* rsrc, Run& run) {
	run.cls("law:rotvec");
	double ang = len(v);
	uint64_t h = hashM(hashV(fnv1a("rotvec"), v), R);
	if (ang > 0.1)
		run.nontriv(h);
	std::string in = J().raw("v", jv(v)).f("angle_rad", ang).raw("R", jm(R)).s("R_source", rsrc).str();
	if (run.wantSample())
		run.sample(J().s("law", "rotvec").raw("input", in).str());
	Matrix3 M = RotVecToMat(v);
	Verdict vd = checkOrthonormal(M, "RotVecToMat", in, run);
	if (vd != OK)
		return vd;
	// geometric meaning: rotation by |v| about v
	double am = angleOf(M);
	double eAng = std::fabs(am - wrapAngle(ang));
	double eAxis = 0;
	if (ang > 1e-3) {
		V3d n = mulS(toD(v), 1.0 / ang);
		eAxis = len(sub(mulV(toD(M), n), n));
	}
	run.maxi("rotvec:|angle(RotVecToMat(v)) - |v|| (tol 1e-4)", eAng);
	run.maxi("rotvec:|RotVecToMat(v) n - n| axis invariance (tol 1e-4)", eAxis);
	if (eAng > Tol::rotvec || eAxis > Tol::rotvec)
		return run.fail("C20:rotvec-axis-angle",
						J().s("law", "RotVecToMat(v) rotates by |v| about v")
							.f("angle_error", eAng)
							.f("axis_error", eAxis)
							.f("tolerance", Tol::rotvec)
							.raw("input", in)
							.raw("matrix", jm(M))
							.str());
	if (ang <= kPi - Tol::halfTurnExcl) {
		run.cls("rotvec:vector-roundtrip-checked");
		Vector3 back = RotMatToVec(M);
		if (!finite(back))
			return nonFinite(run, "rotvec", "RotMatToVec result", in);
		double e = dist(back, v);
		run.maxi("rotvec:|RotMatToVec(RotVecToMat(v)) - v| (tol 1e-4)", e);
		if (e > Tol::rotvec)
			return run.fail("C20:rotvec-roundtrip",
							J().s("law", "RotMatToVec(RotVecToMat(v)) = v for |v| <= pi - 0.05")
								.f("error", e)
								.f("tolerance", Tol::rotvec)
								.raw("input", in)
								.raw("matrix", jm(M))
								.raw("back", jv(back))
								.str());
	}
	else {
		run.cls("rotvec:vector-beyond-pi-0.05(orthonormality+meaning only)");
		vd = rotMatRoundTrip(M, in, run);
		if (vd != OK)
			return vd;
	}
	// matrix first
	run.cls(std::string("rotvec:matrix-source:") + rsrc);
	if (std::string(rsrc) == "Matrix3::MakeRotation") {
		vd = checkOrthonormal(R, "Matrix3::MakeRotation", in, run);
		if (vd != OK)
			return vd;
	}
	return rotMatRoundTrip(R, in, run);
}

// M M^-1 = I, determinant multiplicative
Verdict lawMat3(const General3& G, const General3& H, Run& run) {
	run.cls("law:mat3-inverse");
	const Matrix3& M = G.M;
	const Matrix3& N = H.M;
	uint64_t h = hashM(hashM(fnv1a("mat3"), M), N);
	if (G.a1 > 0.1 && G.a2 > 0.1 && G.smax > 1.01 * G.smin)
		run.nontriv(h);
	std::string in = J().raw("M", jm(M)).f("M_sigma_min", G.smin).f("M_sigma_max", G.smax).raw("N", jm(N)).str();
	if (run.wantSample())
		run.sample(J().s("law", "mat3-inverse").raw("input", in).str());
	Matrix3 inv;
	bool ok = M.Invert(&inv);
	if (!ok)
		return run.fail("C20:mat3-invert-refused",
						J().s("law", "well-conditioned matrix is invertible").raw("input", in).f("det", M.Determinant()).str());
	Matrix3 inv2 = M.Inverse();
	if (!finite(inv) || !finite(inv2))
		return nonFinite(run, "mat3-inverse", "Invert/Inverse result", in);
	M3d dm = toD(M), di = toD(inv);
	double e = std::max(maxAbsMinusI(mul(dm, di)), maxAbsMinusI(mul(di, dm)));
	e = std::max(e, std::max(maxAbsMinusI(mul(dm, toD(inv2))), maxAbsMinusI(mul(toD(inv2), dm))));
	// the library's own product must agree as well
	e = std::max(e, maxAbsMinusI(toD(M * inv)));
	run.maxi("mat3:|M M^-1 - I| (tol 5e-5, cond <= 25)", e);
	if (e > Tol::mat3inv)
		return run.fail("C20:mat3-inverse",
						J().s("law", "M * M^-1 = M^-1 * M = I")
							.f("error", e)
							.f("tolerance", Tol::mat3inv)
							.raw("input", in)
							.raw("inverse", jm(inv))
							.str());
	// determinant: multiplicative, and det(M) det(M^-1) = 1
	double dM = M.Determinant(), dN = N.Determinant(), dMN = (M * N).Determinant(), dI = inv.Determinant();
	double normM = G.smax, normN = H.smax;
	double eMul = std::fabs(dMN - dM * dN) / (normM * normM * normM * normN * normN * normN);
	double eMulRel = std::fabs(dMN - dM * dN) / std::fabs(dM * dN);
	double eInv = std::fabs(dM * dI - 1.0);
	double eRef = std::fabs(dM - detD(dm)) / (normM * normM * normM);
	run.maxi("mat3:|det(MN) - det M det N| / (|M|^3 |N|^3) (tol 1e-4)", eMul);
	run.maxi("mat3:|det(MN) - det M det N| / |det M det N| (evidence only)", eMulRel);
	run.maxi("mat3:|det M det M^-1 - 1| (tol 1e-4)", eInv);
	run.maxi("mat3:|Determinant() - double det| / |M|^3 (tol 1e-4)", eRef);
	if (!(eMul <= Tol::detMul) || !(eInv <= Tol::detMul) || !(eRef <= Tol::detMul))
		return run.fail("C20:mat3-determinant",
						J().s("law", "det(M N) = det M det N; det M det M^-1 = 1")
							.f("multiplicative_error", eMul)
							.f("inverse_error", eInv)
							.f("reference_error", eRef)
							.f("tolerance", Tol::detMul)
							.f("detM", dM)
							.f("detN", dN)
							.f("detMN", dMN)
							.f("detInv", dI)
							.raw("input", in)
							.str());
	return OK;
}

// Matrix4::Inverse on ToMatrix(); ToMatrix() * v = ApplyTransform(v)
Verdict lawMat4(const Xf& X, const Vector3& v, Run& run) {
	run.cls("law:mat4-inverse");
	uint64_t h = hashV(hashXf(fnv1a("mat4"), X), v);
	if (nontrivXf(X))
		run.nontriv(h);
	std::string in = J().raw("T", jxf(X)).raw("v", jv(v)).str();
	if (run.wantSample())
		run.sample(J().s("law", "mat4-inverse").raw("input", in).str());
	Matrix4 M = X.T.ToMatrix();
	Matrix4 I = M.Inverse();
	double a[4][4], b[4][4];
	for (int i = 0; i < 4; i++)
		for (int j = 0; j < 4; j++) {
			a[i][j] = M[i * 4 + j];
			b[i][j] = I[i * 4 + j];
			if (!std::isfinite(a[i][j]) || !std::isfinite(b[i][j]))
				return nonFinite(run, "mat4-inverse", "ToMatrix/Inverse entry", in);
		}
	double s = std::fabs(X.T.scale), tl = len(X.T.translation);
	auto prodErr = [&](double (&p)[4][4], double (&q)[4][4], double mTrans) {
		double e = 0;
		for (int i = 0; i < 4; i++)
			for (int j = 0; j < 4; j++) {
				double x = 0;
				for (int k = 0; k < 4; k++)
					x += p[i][k] * q[k][j];
				x -= (i == j ? 1.0 : 0.0);
				// the translation column carries the magnitude of the translation
				double scale = (j == 3 && i < 3) ? mTrans : 1.0;
				e = std::max(e, std::fabs(x) / scale);
			}
		return e;
	};
	double e1 = prodErr(a, b, std::max(1.0, tl));
	double e2 = prodErr(b, a, std::max(1.0, tl / s));
	double e = std::max(e1, e2);
	run.maxi("mat4:|M M^-1 - I| relative (tol 1e-5)", e);
	if (e > Tol::mat4inv) {
		std::string mi = "[", mm = "[";
		for (int i = 0; i < 16; i++) {
			mm += (i ? "," : "") + num(M[i]);
			mi += (i ? "," : "") + num(I[i]);
		}
		return run.fail("C20:mat4-inverse",
						J().s("law", "ToMatrix() * ToMatrix().Inverse() = I")
							.f("error", e)
							.f("tolerance", Tol::mat4inv)
							.raw("input", in)
							.raw("matrix", mm + "]")
							.raw("inverse", mi + "]")
							.str());
	}
	Vector3 p1 = M * v;
	Vector3 p2 = X.T.ApplyTransform(v);
	if (!finite(p1) || !finite(p2))
		return nonFinite(run, "mat4-inverse", "Matrix4 * v / ApplyTransform result", in);
	double m = std::max(1.0, std::max(tl, s * len(v)));
	double ea = dist(p1, p2) / m;
	run.maxi("mat4:|ToMatrix() v - ApplyTransform(v)|/m (tol 5e-5)", ea);
	if (ea > Tol::compose)
		return run.fail("C20:mat4-apply",
						J().s("law", "ToMatrix() * v = ApplyTransform(v)")
							.f("error", ea)
							.f("tolerance", Tol::compose)
							.raw("input", in)
							.raw("matrix_v", jv(p1))
							.raw("apply_v", jv(p2))
							.str());
	return OK;
}

// median / average of k identical transforms returns that transform
Verdict lawCentral(bool average, const Xf& X, unsigned k, Run& run) {
	const std::string law = average ? "average-identical" : "median-identical";
	run.cls("law:" + law);
	run.cls(std::string("rotation-source:") + X.src);
	if (X.angle > kPi - Tol::halfTurnExcl)
		run.cls(law + ":rotation-within-0.05-of-half-turn");
	uint64_t h = hash_mix(hashXf(fnv1a(law), X), k);
	if (nontrivXf(X) && k >= 2)
		run.nontriv(h);
	std::string in = J().raw("T", jxf(X)).u("k", k).str();
	if (run.wantSample())
		run.sample(J().s("law", law).raw("input", in).str());
	std::vector<MatTransform> ts(k, X.T);
	MatTransform r = average ? CalcAverageMatTransform(ts) : CalcMedianMatTransform(ts);
	if (!finite(r))
		return nonFinite(run, law, "result", in);
	const double tol = average ? Tol::average : Tol::median;
	double eRot = maxAbsDiff(toD(r.rotation), toD(X.T.rotation));
	double eTr = dist(r.translation, X.T.translation) / std::max(1.0, len(X.T.translation));
	double eSc = std::fabs(static_cast<double>(r.scale) - X.T.scale) / std::max(1.0, static_cast<double>(X.T.scale));
	const std::string tt = average ? " (tol 1e-4)" : " (tol 1e-5)";
	run.maxi(law + ":rotation |result.R - R|" + tt, eRot);
	run.maxi(law + ":translation |result.t - t|/m" + tt, eTr);
	run.maxi(law + ":scale |result.s - s|/max(1,s)" + tt, eSc);
	auto detail = [&](const char* part, double err) {
		return J().s("law", (average ? "average" : "median") + std::string(" of k identical transforms is that transform"))
			.s("part", part)
			.f("error", err)
			.f("tolerance", tol)
			.raw("input", in)
			.raw("result", jxf(Xf{r, angleOf(r.rotation), average ? "CalcAverageMatTransform" : "CalcMedianMatTransform"}))
			.str();
	};
	if (eRot > tol) {
		// Root-cause split: near the half turn RotMatToVec may not be able to represent this rotation at all
		// (the conversion law tolerates that, this law does not); otherwise the averaging itself is at fault.
		// With one copy the sum of the residuals is their mean, so a failure that is already there for k = 1
		// cannot come from the accumulation over the k copies.
		std::vector<MatTransform> one(1, X.T);
		MatTransform r1 = average ? CalcAverageMatTransform(one) : CalcMedianMatTransform(one);
		double e1 = maxAbsDiff(toD(r1.rotation), toD(X.T.rotation));
		Vector3 w = RotMatToVec(X.T.rotation);
		double conv = maxAbsDiff(toD(RotVecToMat(w)), toD(X.T.rotation));
		std::string d = detail("rotation", eRot);
		d.pop_back();
		d += "," + J().f("error_with_one_copy", e1).raw("RotMatToVec_of_input", jv(w)).f("conversion_roundtrip_error_of_input", conv).str().substr(1);
		std::string sig = "C20:" + law;
		if (!(e1 <= tol))
			sig += X.angle > kPi - Tol::halfTurnExcl ? ":half-turn" : ":single";
		return run.fail(sig, d);
	}
	if (eTr > tol)
		return run.fail("C20:" + law + "-translation", detail("translation", eTr));
	if (eSc > tol)
		return run.fail("C20:" + law + "-scale", detail("scale", eSc));
	return OK;
}

struct SphereEval {
	int bad = 0; // 0 ok, 1 non-finite, 2 point outside, 3 larger than the box sphere
	double m = 1, halfDiag = 0, r = 0, worstOutside = 0, tolContain = 0, tolSize = 0;
	size_t worstIdx = 0;
};

SphereEval evalSphere(const BoundingSphere& bs, const std::vector<Vector3>& pts, const std::string& tag, Run& run) {
	SphereEval ev;
	double lo[3] = {1e300, 1e300, 1e300}, hi[3] = {-1e300, -1e300, -1e300};
	for (auto& p : pts) {
		ev.m = std::max(ev.m, len(p));
		for (int i = 0; i < 3; i++) {
			lo[i] = std::min(lo[i], static_cast<double>(p[i]));
			hi[i] = std::max(hi[i], static_cast<double>(p[i]));
		}
	}
	V3d bc{0.5 * (lo[0] + hi[0]), 0.5 * (lo[1] + hi[1]), 0.5 * (lo[2] + hi[2])};
	ev.halfDiag = 0.5 * len(V3d{hi[0] - lo[0], hi[1] - lo[1], hi[2] - lo[2]});
	ev.r = bs.radius;
	if (!std::isfinite(bs.radius) || !finite(bs.center) || bs.radius < 0) {
		ev.bad = 1;
		return ev;
	}
	double rb = 0; // radius of the enclosing ball centred at the box centre
	ev.worstOutside = -1e300;
	for (size_t i = 0; i < pts.size(); i++) {
		double d = dist(pts[i], bs.center);
		if (d - ev.r > ev.worstOutside) {
			ev.worstOutside = d - ev.r;
			ev.worstIdx = i;
		}
		rb = std::max(rb, len(sub(toD(pts[i]), bc)));
	}
	ev.tolContain = ev.r * Tol::sphereRel + Tol::sphereAbs * ev.m;
	ev.tolSize = ev.halfDiag * Tol::sphereRel + Tol::sphereAbs * ev.m;
	run.maxi(tag + ":point outside by (d - r)/m", std::max(0.0, ev.worstOutside) / ev.m);
	run.maxi(tag + ":point outside by, fraction of tolerance r*1e-4 + 1e-5*m", std::max(0.0, ev.worstOutside) / ev.tolContain);
	run.maxi(tag + ":(r - half box diagonal)/m", std::max(0.0, ev.r - ev.halfDiag) / ev.m);
	run.maxi(tag + ":(r - half box diagonal), fraction of tolerance", std::max(0.0, ev.r - ev.halfDiag) / ev.tolSize);
	run.maxi(tag + ":(r - radius of enclosing ball at box centre)/m (evidence only, minimality)", std::max(0.0, ev.r - rb) / ev.m);
	if (ev.worstOutside > ev.tolContain)
		ev.bad = 2;
	else if (ev.r - ev.halfDiag > ev.tolSize)
		ev.bad = 3;
	return ev;
}

std::string sphereDetail(const char* law, const SphereEval& ev, const BoundingSphere& bs, const std::vector<Vector3>& pts,
						 const std::string& extra) {
	J j;
	j.s("law", law)
		.s("what", ev.bad == 1 ? "centre/radius not finite" : ev.bad == 2 ? "a point lies outside the sphere" : "radius exceeds half the bounding-box diagonal")
		.raw("centre", jv(bs.center))
		.f("radius", bs.radius)
		.f("half_box_diagonal", ev.halfDiag)
		.f("m", ev.m)
		.f("worst_outside", ev.worstOutside)
		.f("tolerance_containment", ev.tolContain)
		.f("tolerance_size", ev.tolSize)
		.u("n", pts.size())
		.raw("points_head", jpts(pts));
	if (ev.bad == 2 && ev.worstIdx < pts.size())
		j.u("worst_index", ev.worstIdx).raw("worst_point", jv(pts[ev.worstIdx]));
	if (!extra.empty())
		j.raw("context", extra);
	return j.str();
}

const char* sphereSig(int bad) {
	return bad == 1 ? "nonfinite" : bad == 2 ? "contain" : "size";
}

Verdict lawSphere(const PointSet& ps, Run& run) {
	run.cls("law:sphere");
	run.cls("points:" + ps.kind);
	run.cls(ps.pts.size() == 1 ? "points:n=1" : ps.pts.size() <= 12 ? "points:n=2..12" : ps.pts.size() <= 300 ? "points:n=13..300" : "points:n=301..2000");
	if (nonCoplanar(ps.pts))
		run.nontriv(hashPts(fnv1a("sphere"), ps.pts));
	if (run.wantSample())
		run.sample(J().s("law", "sphere").s("kind", ps.kind).u("n", ps.pts.size()).raw("points_head", jpts(ps.pts, 6)).str());
	BoundingSphere bs(ps.pts);
	SphereEval ev = evalSphere(bs, ps.pts, "sphere", run);
	if (ev.bad)
		return run.fail(std::string("C20:sphere-") + sphereSig(ev.bad),
						sphereDetail("BoundingSphere(points) contains every point and is no larger than the box sphere", ev, bs, ps.pts,
									 J().s("kind", ps.kind).str()));
	return OK;
}

// Root-cause split for shape bounds: when the shape carries exactly BoundingSphere(its current vertices), the
// fault is BoundingSphere's (same signature as the sphere law); otherwise the shape's bookkeeping is at fault.
std::string boundsSig(const char* stage, int bad, const BoundingSphere& bs, const std::vector<Vector3>& cur) {
	BoundingSphere direct(cur);
	bool same = memcmp(&direct.center, &bs.center, sizeof(Vector3)) == 0 && memcmp(&direct.radius, &bs.radius, sizeof(float)) == 0;
	if (same)
		return std::string("C20:sphere-") + sphereSig(bad);
	return std::string("C20:bounds-") + stage + "-" + sphereSig(bad);
}

const char* const kShapeVersions[6] = {"OB", "FO3", "SK", "SSE", "FO4", "FO76"};

// bounds of a created shape, and recomputed bounds after an edit, contain all vertices
Verdict lawBounds(unsigned vsel, const PointSet& ps, unsigned edit, const Xf& E, Run& run) {
	run.cls("law:update-bounds");
	const char* vname = kShapeVersions[vsel % 6];
	const VersionCfg* cfg = nullptr;
	for (auto& c : versions())
		if (std::string(c.name) == vname)
			cfg = &c;
	if (!cfg)
		return DISCARD;
	edit %= 4;
	static const char* edits[4] = {"none", "SetVertsForShape(transformed, same count)", "OffsetShape", "SetVertsForShape(prefix, other count)"};
	run.cls("points:" + ps.kind);
	const std::vector<Vector3>& A = ps.pts;
	if (nonCoplanar(A))
		run.nontriv(hash_mix(hash_mix(hashXf(hashPts(fnv1a("bounds"), A), E), vsel % 6), edit));
	std::string ctx = J().s("version", vname).s("kind", ps.kind).u("n", A.size()).s("edit", edits[edit]).raw("edit_transform", jxf(E)).str();
	if (run.wantSample())
		run.sample(J().s("law", "update-bounds").raw("context", ctx).raw("points_head", jpts(A, 6)).str());

	NifFile nif;
	nif.Create(cfg->ni());
	std::vector<Triangle> tris;
	for (size_t i = 1; i + 1 < A.size(); i++)
		tris.emplace_back(static_cast<uint16_t>(0), static_cast<uint16_t>(i), static_cast<uint16_t>(i + 1));
	std::vector<Vector2> uvs(A.size());
	NiShape* shape = nif.CreateShapeFromData("C20", &A, &tris, &uvs, nullptr);
	if (!shape)
		return run.fail("C20:bounds-create-null", J().s("what", "CreateShapeFromData returned null").raw("context", ctx).str());
	run.cls(std::string("shape:") + vname + ":" + shape->GetBlockName());

	std::vector<Vector3> cur;
	if (!nif.GetVertsForShape(shape, cur) || cur.size() != A.size() || (!A.empty() && memcmp(cur.data(), A.data(), A.size() * sizeof(Vector3)) != 0)) {
		run.exclude("created shape does not hold the vertices it was given");
		return OK;
	}
	// bounds computed when the shape was created
	{
		BoundingSphere bs = shape->GetBounds();
		SphereEval ev = evalSphere(bs, cur, "bounds-create", run);
		if (ev.bad)
			return run.fail(boundsSig("create", ev.bad, bs, cur),
							sphereDetail("bounds of a created shape contain all its vertices", ev, bs, cur, ctx));
	}
	// edit the vertices, then recompute
	switch (edit) {
		case 0: break;
		case 1: {
			std::vector<Vector3> B;
			M3d r = toD(E.T.rotation);
			for (auto& p : A)
				B.push_back(toF(add(mulV(r, mulS(toD(p), E.T.scale)), toD(E.T.translation))));
			nif.SetVertsForShape(shape, B);
			break;
		}
		case 2: nif.OffsetShape(shape, E.T.translation); break;
		default: {
			std::vector<Vector3> B(A.begin(), A.begin() + (A.size() + 1) / 2);
			nif.SetVertsForShape(shape, B);
			break;
		}
	}
	shape->UpdateBounds();
	if (!nif.GetVertsForShape(shape, cur) || cur.empty()) {
		run.exclude("edited shape has no vertices");
		return OK;
	}
	for (auto& p : cur)
		if (!finite(p)) {
			run.exclude("edited vertices not finite");
			return OK;
		}
	BoundingSphere bs = shape->GetBounds();
	SphereEval ev = evalSphere(bs, cur, "bounds-update", run);
	if (ev.bad)
		return run.fail(boundsSig("update", ev.bad, bs, cur),
						sphereDetail("UpdateBounds: recomputed bounds contain all vertices", ev, bs, cur, ctx));
	return OK;
}

// ------------------------------------------------------------------ structured cases

using CaseFn = std::function<Verdict(Run&)>;

Xf makeXf(const V3d& axis, double angle, float scale, const Vector3& t) {
	Xf x;
	x.T.rotation = toF(rodrigues(normalized(axis), angle));
	x.T.scale = scale;
	x.T.translation = t;
	x.angle = angleOf(x.T.rotation);
	x.src = "rodrigues";
	return x;
}

struct Lcg {
	uint32_t s;
	double next() { // [-1, 1]
		s = s * 1664525u + 1013904223u;
		return (s >> 8) / 8388607.5 - 1.0;
	}
};

const std::vector<CaseFn>& structuredCases() {
	static const std::vector<CaseFn> table = [] {
		std::vector<CaseFn> tb;
		const double q = 1.0 / std::sqrt(3.0);
		const V3d axesAligned[3] = {{1, 0, 0}, {0, 1, 0}, {0, 0, 1}};
		const V3d axesAll[5] = {{1, 0, 0}, {0, 1, 0}, {0, 0, 1}, {q, q, q}, {-0.6, 0, 0.8}};
		const float scales[3] = {1.0f, 0.05f, 20.0f};
		const Vector3 trans[4] = {Vector3(), Vector3(1, 2, 3), Vector3(1e5f, 0, 0), Vector3(-5e4f, 5e4f, -5e4f)};
		const Vector3 probe(12.5f, -7.0f, 3.25f);
		const Xf other = makeXf({0.36, 0.48, -0.8}, 0.7, 1.5f, Vector3(-20, 4, 9));
		const unsigned ks[4] = {1, 2, 7, 64};

		auto addRotationCases = [&](const V3d& ax, double ang, size_t i) {
			Xf X = makeXf(ax, ang, scales[i % 3], trans[i % 4]);
			unsigned k = ks[i % 4];
			Vector3 rv = toF(mulS(normalized(ax), ang));
			Matrix3 R = X.T.rotation;
			tb.push_back([=](Run& r) { return lawInverse(X, probe, r); });
			tb.push_back([=](Run& r) { return lawCompose(X, other, probe, r); });
			tb.push_back([=](Run& r) { return lawCompose(other, X, probe, r); });
			tb.push_back([=](Run& r) { return lawRotVec(rv, R, "rodrigues", r); });
			tb.push_back([=](Run& r) { return lawMat4(X, probe, r); });
			tb.push_back([=](Run& r) { return lawCentral(false, X, k, r); });
			tb.push_back([=](Run& r) { return lawCentral(true, X, k, r); });
		};
		size_t idx = 0;
		// axis-aligned rotations at multiples of 15 degrees (0 .. 360)
		for (auto& ax : axesAligned)
			for (int d = 0; d <= 24; d++)
				addRotationCases(ax, d * (kPi / 12), idx++);
		// exact zero, tiny angles, the edge of the conversion domain, the half turn and beyond
		const double special[] = {0.0, 1e-6, -1e-6, 1e-4, kPi - 0.06, kPi - 0.0501, kPi - 1e-3, kPi, kPi + 0.06, 2 * kPi - 1e-6};
		for (auto& ax : axesAll)
			for (double a : special)
				addRotationCases(ax, a, idx++);
		// scale and translation extremes with one fixed rotation
		for (float s : {0.05f, 0.0500001f, 1.0f, 19.99999f, 20.0f})
			for (auto& t : trans) {
				Xf X = makeXf({0.6, -0.8, 0}, 2.0, s, t);
				tb.push_back([=](Run& r) { return lawInverse(X, probe, r); });
				tb.push_back([=](Run& r) { return lawCompose(X, X, probe, r); });
				tb.push_back([=](Run& r) { return lawMat4(X, probe, r); });
				tb.push_back([=](Run& r) { return lawCentral(false, X, 64, r); });
				tb.push_back([=](Run& r) { return lawCentral(true, X, 64, r); });
			}
		// yaw/pitch/roll at quarter turns (gimbal positions) through the library's constructor
		for (int y = -1; y <= 1; y++)
			for (int p = -1; p <= 1; p++)
				for (int rr = -1; rr <= 1; rr++) {
					Xf X;
					X.T.rotation = Matrix3::MakeRotation(static_cast<float>(y * kPi / 2), static_cast<float>(p * kPi / 2),
														 static_cast<float>(rr * kPi / 2));
					X.T.scale = 2.0f;
					X.T.translation = Vector3(3, -4, 12);
					X.angle = angleOf(X.T.rotation);
					X.src = "Matrix3::MakeRotation";
					Matrix3 R = X.T.rotation;
					tb.push_back([=](Run& r) { return lawRotVec(Vector3(), R, "Matrix3::MakeRotation", r); });
					tb.push_back([=](Run& r) { return lawInverse(X, probe, r); });
				}
		// general matrices: diagonal, permuted, extreme singular values
		{
			auto gen = [&](const V3d& n1, double a1, double s0, double s1, double s2, const V3d& n2, double a2) {
				General3 g;
				g.M = toF(mul(mul(rodrigues(normalized(n1), a1), diag(s0, s1, s2)), rodrigues(normalized(n2), a2)));
				g.smin = std::min(s0, std::min(s1, s2));
				g.smax = std::max(s0, std::max(s1, s2));
				g.a1 = wrapAngle(a1);
				g.a2 = wrapAngle(a2);
				return g;
			};
			const double sv[][3] = {{1, 1, 1}, {0.2, 0.2, 0.2}, {5, 5, 5}, {0.2, 1, 5}, {5, 0.2, 0.2}, {5, 5, 0.2}, {2, 3, 4}};
			const General3 N = gen({1, 2, 3}, 1.1, 0.5, 2, 3, {3, -1, 2}, 2.2);
			for (auto& s : sv) {
				General3 g0 = gen({1, 0, 0}, 0, s[0], s[1], s[2], {1, 0, 0}, 0);
				General3 g1 = gen({0, 0, 1}, kPi / 2, s[0], s[1], s[2], {0, 1, 0}, kPi / 2);
				General3 g2 = gen({1, 1, 1}, 2.5, s[0], s[1], s[2], {-1, 2, 0.5}, 0.9);
				tb.push_back([=](Run& r) { return lawMat3(g0, N, r); });
				tb.push_back([=](Run& r) { return lawMat3(g1, N, r); });
				tb.push_back([=](Run& r) { return lawMat3(g2, N, r); });
			}
		}
		// point sets
		{
			std::vector<std::pair<std::string, std::vector<V3d>>> base;
			base.push_back({"single point", {{0, 0, 0}}});
			base.push_back({"two points", {{-1, 0, 0}, {1, 0, 0}}});
			base.push_back({"two points (diagonal)", {{-1, -1, -1}, {1, 1, 1}}});
			base.push_back({"3 collinear", {{-1, 0, 0}, {0, 0, 0}, {1, 0, 0}}});
			base.push_back({"3 collinear (diagonal)", {{-1, -2, -3}, {0, 0, 0}, {0.5, 1, 1.5}}});
			base.push_back({"4 coplanar (square)", {{-1, -1, 0}, {1, -1, 0}, {1, 1, 0}, {-1, 1, 0}}});
			base.push_back({"4 coplanar (tilted)", {{0, 0, 0}, {1, 0, 1}, {0, 1, 1}, {1, 1, 2}}});
			{
				std::vector<V3d> cube, cube2;
				for (int i = 0; i < 8; i++)
					cube.push_back({(i & 1) ? 1.0 : -1.0, (i & 2) ? 1.0 : -1.0, (i & 4) ? 1.0 : -1.0});
				cube2 = cube;
				cube2.push_back({0, 0, 0});
				for (int a = 0; a < 3; a++)
					for (int sgn = -1; sgn <= 1; sgn += 2) {
						V3d f{0, 0, 0};
						(a == 0 ? f.x : a == 1 ? f.y : f.z) = sgn;
						cube2.push_back(f);
					}
				base.push_back({"cube corners", cube});
				base.push_back({"cube corners + centre + face centres", cube2});
			}
			for (unsigned n : {2u, 7u, 500u, 2000u})
				base.push_back({"all duplicates n=" + std::to_string(n), std::vector<V3d>(n, V3d{0.25, -0.5, 0.75})});
			base.push_back({"regular tetrahedron", {{1, 1, 1}, {1, -1, -1}, {-1, 1, -1}, {-1, -1, 1}}});
			base.push_back({"octahedron", {{1, 0, 0}, {-1, 0, 0}, {0, 1, 0}, {0, -1, 0}, {0, 0, 1}, {0, 0, -1}}});
			{
				std::vector<V3d> line, grid, cluster, sph, cloud, lat;
				for (int i = 0; i < 100; i++)
					line.push_back({-1 + i / 49.5, 0.5 * (-1 + i / 49.5), -0.25 * (-1 + i / 49.5)});
				for (int i = 0; i < 10; i++)
					for (int j = 0; j < 10; j++)
						grid.push_back({i / 4.5 - 1, j / 4.5 - 1, 0.3 * (i / 4.5 - 1)});
				Lcg g{20201};
				for (int i = 0; i < 50; i++)
					cluster.push_back({1e-3 * g.next(), 1e-3 * g.next(), 1e-3 * g.next()});
				cluster.push_back({0.6, 0, 0.8});
				for (int i = 0; i < 2000; i++) {
					V3d d = normalized({g.next(), g.next(), g.next()});
					sph.push_back(d);
				}
				for (int i = 0; i < 2000; i++)
					cloud.push_back({g.next(), g.next(), g.next()});
				for (int i = 0; i < 12; i++)
					for (int j = 0; j < 12; j++)
						for (int k = 0; k < 12; k++)
							lat.push_back({i / 5.5 - 1, j / 5.5 - 1, k / 5.5 - 1});
				base.push_back({"100 collinear", line});
				base.push_back({"10x10 coplanar grid", grid});
				base.push_back({"cluster + outlier", cluster});
				base.push_back({"2000 on a sphere", sph});
				base.push_back({"2000 cloud", cloud});
				base.push_back({"12x12x12 lattice", lat});
			}
			const V3d offs[2] = {{0, 0, 0}, {1e4, -2e4, 3e4}};
			const double exts[3] = {1.0, 1e-3, 1e3};
			const Xf E = makeXf({1, 1, 1}, kPi / 6, 2.0f, Vector3(10, -20, 30));
			size_t pi = 0;
			for (auto& b : base)
				for (auto& o : offs)
					for (double e : exts) {
						PointSet ps;
						ps.kind = "structured: " + b.first;
						for (auto& p : b.second)
							ps.pts.push_back(toF(add(o, mulS(p, e))));
						unsigned vsel = static_cast<unsigned>(pi % 6), edit = static_cast<unsigned>((pi / 6) % 4);
						pi++;
						tb.push_back([=](Run& r) { return lawSphere(ps, r); });
						tb.push_back([=](Run& r) { return lawBounds(vsel, ps, edit, E, r); });
					}
		}
		// appended last (indices of the cases above are part of stored replays): the wider scale range
		for (float s : {0.01f, 0.02f, 0.04f, 0.0464f, 0.047f, 50.0f, 100.0f})
			for (auto& t : trans) {
				Xf X = makeXf({0.6, -0.8, 0}, 2.0, s, t);
				tb.push_back([=](Run& r) { return lawInverse(X, probe, r); });
				tb.push_back([=](Run& r) { return lawCompose(X, X, probe, r); });
				tb.push_back([=](Run& r) { return lawMat4(X, probe, r); });
				tb.push_back([=](Run& r) { return lawCentral(false, X, 64, r); });
				tb.push_back([=](Run& r) { return lawCentral(true, X, 64, r); });
			}
		return tb;
	}();
	return table;
}

// ------------------------------------------------------------------ property

constexpr unsigned kLaws = 9;

Verdict prop(Tape& t, Run& run) {
	uint8_t b0 = t.u8();
	if (b0 == 0xFE) {
		auto& tb = structuredCases();
		size_t idx = t.u16() % tb.size();
		run.cls("structured-case");
		return tb[idx](run);
	}
	switch (b0 % kLaws) {
		case 0: {
			Xf X = decXf(t);
			Vector3 v = decVec(t, 1e5);
			return lawInverse(X, v, run);
		}
		case 1: {
			Xf A = decXf(t);
			Xf B = decXf(t);
			Vector3 v = decVec(t, 1e5);
			return lawCompose(A, B, v, run);
		}
		case 2: {
			// rotation vector: axis * angle, angle mostly inside the conversion domain
			V3d n = decAxis(t);
			double a = decAngle(t);
			if (t.u8() < 0xC0 && std::fabs(a) > kPi - Tol::halfTurnExcl)
				a = wrapAngle(a) * (kPi - Tol::halfTurnExcl) / kPi;
			Vector3 v = toF(mulS(n, a));
			// float rounding must not push an in-domain vector over the edge
			if (std::fabs(a) <= kPi - Tol::halfTurnExcl && len(v) > kPi - Tol::halfTurnExcl)
				v = toF(mulS(n, a * (1 - 1e-6)));
			const char* src = "";
			Matrix3 R = decRotation(t, src);
			return lawRotVec(v, R, src, run);
		}
		case 3: {
			General3 g = decGeneral(t);
			General3 h = decGeneral(t);
			return lawMat3(g, h, run);
		}
		case 4: {
			Xf X = decXf(t);
			Vector3 v = decVec(t, 1e5);
			return lawMat4(X, v, run);
		}
		case 5:
		case 6: {
			unsigned k = 1 + t.u8() % 64;
			Xf X = decXf(t);
			return lawCentral(b0 % kLaws == 6, X, k, run);
		}
		case 7: {
			PointSet ps = decPoints(t);
			return lawSphere(ps, run);
		}
		default: {
			unsigned vsel = t.u8();
			unsigned edit = t.u8();
			PointSet ps = decPoints(t);
			Xf E = decXf(t);
			return lawBounds(vsel, ps, edit, E, run);
		}
	}
}

void deterministic(Run&, const std::function<void(const std::vector<uint8_t>&)>& feed) {
	size_t n = structuredCases().size();
	for (size_t i = 0; i < n; i++)
		feed({0xFE, static_cast<uint8_t>(i & 255), static_cast<uint8_t>(i >> 8)});
}

} // namespace

int main(int argc, char** argv) {
	Harness h{};
	h.id = "C20";
	h.prop = prop;
	h.deterministic = deterministic;
	h.maxTape = 9000;
	h.quickCases = 400000;
	h.thoroughCases = 20000000;
	h.rule = "case = (law, inputs) decoded from the tape; first byte % 9 selects the law: inverse, compose-apply, rotvec, "
			 "mat3-inverse, mat4-inverse, median-identical, average-identical, sphere, update-bounds. Rotations: own "
			 "double-precision Rodrigues (axis x/y/z/diagonal/random, angle 0 / uniform / multiples of 15 deg / tiny / around "
			 "pi / approaching pi / [-2pi,2pi]) rounded to float, Matrix3::MakeRotation(yaw,pitch,roll), RotVecToMat; scale "
			 "1 / extremes / log-uniform in [0.05,20]; |translation| <= 1e5; general matrices R1*diag(s)*R2, s in [0.2,5]; "
			 "point sets 1..2000 points (cloud, single, collinear, coplanar, cluster+outlier, pool duplicates, lattice, "
			 "co-spherical, all duplicates, antipodal+interior), centre |c| <= 1e5, extent 1e-3..1e4; update-bounds: "
			 "NifFile::Create(OB|FO3|SK|SSE|FO4|FO76) + CreateShapeFromData, then none / SetVertsForShape / OffsetShape / "
			 "other vertex count, then UpdateBounds. Enumerated part: tape {0xFE, n} = structured case n (axis-aligned "
			 "rotations at multiples of 15 deg, angles 0, +-1e-6, pi-0.06, pi-0.0501, pi, beyond; scale and translation "
			 "extremes; quarter-turn yaw/pitch/roll; diagonal and extreme general matrices; single point, two points, "
			 "collinear, coplanar, cube corners, all-duplicates, tetrahedron, octahedron, cluster+outlier, 2000-point sphere / "
			 "cloud / lattice at two offsets and three extents, each through sphere and update-bounds). Non-trivial: "
			 "transform laws: rotation angle > 0.1 rad and |t| > 1 for every transform operand (median/average also k >= 2); "
			 "rotvec: |v| > 0.1 rad; mat3: both factor rotations > 0.1 rad and singular values not all equal; sphere / "
			 "update-bounds: >= 4 points not in one plane. distinct = hash(law, float bits of all decoded inputs). "
			 "Half-turn rotations (within 0.05 of pi) are excluded from the vector<->matrix conversion law only. "
			 "Signatures name root causes: C20:average-identical / C20:median-identical fail for k copies but not for one "
			 "(accumulation); ...:half-turn and ...:single fail already for one copy (conversion at / away from the half "
			 "turn); shape-bounds failures are reported as C20:sphere-* when the shape carries exactly "
			 "BoundingSphere(its vertices) and as C20:bounds-create-* / C20:bounds-update-* otherwise. Every law records "
			 "its worst observed error in measured_maxima (tolerance in the key).";
	return harnessMain(argc, argv, h);
}
