// C10 — skin partitions always cover the shape's triangles exactly once.
//
// Domain: skinned shapes for OB/FO3/SK/SSE built through the API (1..120 bones, 0..6
// weights per vertex, distinct triangles) and skinned sample shapes x sequences of
// partition operations (reassign with labels over {-1, 0..p-1, out of range}; rebuild;
// default partition; delete partitions followed by get+set; remove empty partitions).
// Oracle: invariants after every rebuild / reassignment, again after save and reload.
#include "gen.hpp"
#include "harness.hpp"

using namespace nifly;
using namespace vf;

namespace {

struct Ctx {
	NifFile nif;
	NiShape* shape = nullptr;
	std::string kind, version;
	uint32_t stream = 0;
	bool isOBFO3 = false, isSSE = false;
	uint32_t skinBones = 0;
};

std::multiset<uint64_t> triSet(const std::vector<Triangle>& ts) {
	std::multiset<uint64_t> s;
	for (auto& t : ts)
		s.insert(triKey(t));
	return s;
}

NiSkinPartition* skinPartOf(NifFile& nif, NiShape* s, NiSkinInstance** inst = nullptr) {
	auto& hdr = nif.GetHeader();
	auto si = hdr.GetBlock<NiSkinInstance>(s->SkinInstanceRef());
	if (inst)
		*inst = si;
	return si ? hdr.GetBlock(si->skinPartitionRef) : nullptr;
}

// true triangles of a partition, derived from what is stored
std::vector<Triangle> partTrueTris(const NiSkinPartition& sp, const NiSkinPartition::PartitionBlock& p, bool& validMapped) {
	validMapped = true;
	if (!p.trueTriangles.empty())
		return p.trueTriangles;
	std::vector<Triangle> out;
	if (p.triangles.empty() && p.numStrips > 0) {
		// faces kept as strips (Oblivion / Fallout 3 files): expanded here, independently of the library
		for (auto& st : p.strips)
			for (size_t i = 0; i + 2 < st.size(); i++) {
				uint16_t a = st[i], b = st[i + 1], c = st[i + 2];
				if (a == b || b == c || a == c)
					continue;
				if (i & 1)
					std::swap(b, c);
				if (sp.bMappedIndices) {
					if (a >= p.vertexMap.size() || b >= p.vertexMap.size() || c >= p.vertexMap.size()) {
						validMapped = false;
						continue;
					}
					out.emplace_back(p.vertexMap[a], p.vertexMap[b], p.vertexMap[c]);
				}
				else
					out.emplace_back(a, b, c);
			}
		return out;
	}
	if (sp.bMappedIndices) {
		for (auto& t : p.triangles) {
			if (t.p1 >= p.vertexMap.size() || t.p2 >= p.vertexMap.size() || t.p3 >= p.vertexMap.size()) {
				validMapped = false;
				continue;
			}
			out.emplace_back(p.vertexMap[t.p1], p.vertexMap[t.p2], p.vertexMap[t.p3]);
		}
		return out;
	}
	return p.triangles;
}

enum Level { COVERAGE_ONLY, FULL };

// returns "" or a description; clause receives the invariant name
std::string checkInvariants(NifFile& nif, NiShape* shape, Level level, bool triSetOnly, const Ctx& c, std::string& clause) {
	NiSkinInstance* si = nullptr;
	auto sp = skinPartOf(nif, shape, &si);
	clause = "partition-block";
	if (!sp)
		return "shape has no skin partition block";
	std::vector<Triangle> shapeTris;
	shape->GetTriangles(shapeTris);
	const uint32_t nv = shape->GetNumVertices();

	clause = "coverage";
	std::multiset<uint64_t> uni;
	std::vector<std::map<uint32_t, double>> skinW; // per vertex: bone -> weight in the skin data (filled on demand)
	for (auto& p : sp->partitions) {
		bool ok = true;
		auto tt = partTrueTris(*sp, p, ok);
		if (!ok)
			return "a mapped partition triangle indexes past the vertex map";
		for (auto& t : tt)
			uni.insert(triKey(t));
	}
	(void) triSetOnly;
	if (uni != triSet(shapeTris)) {
		size_t inParts = uni.size();
		return "the partitions' triangles are not exactly the shape's triangles, each once (" + std::to_string(inParts) + " in partitions, " + std::to_string(shapeTris.size()) + " in shape)";
	}
	clause = "dismember-alignment";
	if (auto bsd = dynamic_cast<BSDismemberSkinInstance*>(si))
		if (bsd->partitions.size() != sp->partitions.size())
			return "dismember partition list has " + std::to_string(bsd->partitions.size()) + " entries for " + std::to_string(sp->partitions.size()) + " partitions";
	clause = "partition-count";
	if (sp->numPartitions != sp->partitions.size())
		return "numPartitions " + std::to_string(sp->numPartitions) + " != " + std::to_string(sp->partitions.size());
	if (level == COVERAGE_ONLY)
		return "";

	for (size_t pi = 0; pi < sp->partitions.size(); pi++) {
		auto& p = sp->partitions[pi];
		bool ok = true;
		auto tt = partTrueTris(*sp, p, ok);
		std::string P = "partition " + std::to_string(pi) + ": ";
		clause = "vertex-map";
		std::set<uint16_t> used;
		for (auto& t : tt) {
			used.insert(t.p1);
			used.insert(t.p2);
			used.insert(t.p3);
		}
		std::vector<uint16_t> usedSorted(used.begin(), used.end());
		if (p.vertexMap != usedSorted)
			return P + "vertex map does not list exactly the vertices its triangles use (" + std::to_string(p.vertexMap.size()) + " vs " + std::to_string(usedSorted.size()) + ")";
		if (p.numVertices != p.vertexMap.size())
			return P + "numVertices " + std::to_string(p.numVertices) + " != vertex map size " + std::to_string(p.vertexMap.size());
		for (auto v : p.vertexMap)
			if (v >= nv)
				return P + "vertex map refers to a vertex that does not exist";
		clause = "mapped-triangles";
		if (sp->bMappedIndices) {
			if (p.numStrips == 0 && p.triangles.size() != tt.size())
				return P + "mapped triangle list has " + std::to_string(p.triangles.size()) + " entries for " + std::to_string(tt.size()) + " triangles";
			std::multiset<uint64_t> back;
			for (auto& t : p.triangles) {
				if (t.p1 >= p.vertexMap.size() || t.p2 >= p.vertexMap.size() || t.p3 >= p.vertexMap.size())
					return P + "mapped triangle indexes past the vertex map";
				back.insert(triKey(Triangle(p.vertexMap[t.p1], p.vertexMap[t.p2], p.vertexMap[t.p3])));
			}
			if (p.numStrips == 0 && back != triSet(tt))
				return P + "mapped triangles do not translate back to the true triangles";
		}
		clause = "triangle-count";
		if (p.numStrips == 0 && p.numTriangles != tt.size())
			return P + "numTriangles " + std::to_string(p.numTriangles) + " != " + std::to_string(tt.size());
		clause = "bone-limit";
		uint32_t limit = c.isOBFO3 ? 18 : c.isSSE ? 80 : 0xFFFF;
		if (p.numBones > limit)
			return P + "uses " + std::to_string(p.numBones) + " bones, limit of the target game is " + std::to_string(limit);
		if (p.numBones != p.bones.size())
			return P + "numBones " + std::to_string(p.numBones) + " != bone list size " + std::to_string(p.bones.size());
		clause = "bone-index";
		for (auto b : p.bones)
			if (b >= c.skinBones)
				return P + "bone list entry " + std::to_string(b) + " >= skin bone count " + std::to_string(c.skinBones);
		if (p.hasBoneIndices) {
			if (p.boneIndices.size() != p.vertexMap.size())
				return P + "bone index array length != vertex count";
			for (size_t i = 0; i < p.boneIndices.size(); i++) {
				const uint8_t* bi = &p.boneIndices[i].i1;
				const float* w = p.hasVertexWeights && i < p.vertexWeights.size() ? &p.vertexWeights[i].w1 : nullptr;
				for (int k = 0; k < 4; k++)
					if (bi[k] >= std::max<uint32_t>(p.numBones, 1) && (!w || w[k] != 0.0f))
						return P + "bone slot " + std::to_string(bi[k]) + " >= numBones " + std::to_string(p.numBones);
			}
		}
		clause = "weights";
		if (p.hasVertexWeights) {
			if (p.vertexWeights.size() != p.vertexMap.size())
				return P + "weight array length != vertex count";
			for (auto& vw : p.vertexWeights) {
				const float* w = &vw.w1;
				double sum = 0;
				for (int k = 0; k < 4; k++) {
					if (!(w[k] >= 0.0f))
						return P + "negative (or NaN) weight";
					sum += w[k];
				}
				if (sum != 0.0 && std::fabs(sum - 1.0) > 1e-5)
					return P + "weights sum to " + std::to_string(sum);
			}
		}
		// The per-vertex (bone, weight) pairs of a partition are a copy of the skin's weights (NiSkinData):
		// every weighted slot must name a bone that really weights that vertex there, and where the skin
		// has at most four weights for the vertex the normalised values must agree.
		clause = "weights-match-skin";
		if (level == FULL && !c.isSSE && p.hasVertexWeights && p.hasBoneIndices && p.vertexWeights.size() == p.vertexMap.size() && p.boneIndices.size() == p.vertexMap.size()) {
			if (skinW.empty()) {
				skinW.resize(nv);
				std::vector<std::string> bones;
				uint32_t nb = static_cast<uint32_t>(nif.GetShapeBoneList(shape, bones));
				for (uint32_t b = 0; b < nb; b++) {
					std::unordered_map<uint16_t, float> w;
					nif.GetShapeBoneWeights(shape, b, w);
					for (auto& kv : w)
						if (kv.first < nv && kv.second > 0.0f)
							skinW[kv.first][b] += kv.second;
				}
			}
			for (size_t i = 0; i < p.vertexMap.size(); i++) {
				const uint16_t v = p.vertexMap[i];
				if (v >= nv)
					continue;
				const float* w = &p.vertexWeights[i].w1;
				const uint8_t* bi = &p.boneIndices[i].i1;
				double skinSum = 0;
				for (auto& kv : skinW[v])
					skinSum += kv.second;
				for (int k = 0; k < 4; k++) {
					if (!(w[k] > 0.0f))
						continue;
					if (bi[k] >= p.bones.size())
						continue; // reported by the bone-index clause
					const uint32_t gb = p.bones[bi[k]];
					auto it = skinW[v].find(gb);
					if (it == skinW[v].end())
						return P + "vertex " + std::to_string(v) + " is weighted to bone " + std::to_string(gb) + " (" + std::to_string(w[k]) + "), which does not weight it in the skin data";
					if (skinW[v].size() <= 4 && skinSum > 0 && std::fabs(it->second / skinSum - w[k]) > 2e-3)
						return P + "vertex " + std::to_string(v) + ", bone " + std::to_string(gb) + ": partition weight " + std::to_string(w[k]) + " vs normalised skin weight " + std::to_string(it->second / skinSum);
				}
			}
		}
	}
	return "";
}

Verdict prop(Tape& t, Run& run) {
	Ctx c;
	static const size_t vers[] = {4, 5, 6, 7}; // OB FO3 SK SSE
	uint8_t src = t.u8();
	auto& cp = corpus(run.args.corpus);
	bool fromCorpus = false;
	if (src < 0x20 && !cp.empty()) {
		// skinned sample shapes of the four games
		std::vector<std::pair<size_t, size_t>> cands;
		static std::vector<std::pair<size_t, size_t>> cache;
		static bool built = false;
		if (!built) {
			built = true;
			for (size_t i = 0; i < cp.size(); i++) {
				NifFile f;
				if (loadBytes(f, cp[i].bytes) != 0)
					continue;
				auto& v = f.GetHeader().GetVersion();
				if (!(v.IsOB() || v.IsFO3() || v.IsSK() || v.IsSSE()))
					continue;
				auto shapes = f.GetShapes();
				for (size_t s = 0; s < shapes.size(); s++)
					if (skinPartOf(f, shapes[s]))
						cache.push_back({i, s});
			}
		}
		if (!cache.empty()) {
			auto pr = cache[t.u8() % cache.size()];
			loadBytes(c.nif, cp[pr.first].bytes);
			c.shape = c.nif.GetShapes()[pr.second];
			c.kind = "sample:" + cp[pr.first].name;
			fromCorpus = true;
		}
	}
	if (!fromCorpus) {
		size_t vi = vers[t.u8() % 4];
		c.nif.Create(versions()[vi].ni());
		GenShapeOpts o;
		o.allowSpecialKinds = false;
		o.allowStrips = false;
		o.allowSegments = false;
		o.allowLockedNorm = false;
		o.allowSkin = false; // skin applied below with its own parameters
		o.mesh.maxVerts = 150;
		o.mesh.maxTris = 400;
		o.mesh.minTris = 4;
		GenShape g = buildGenShape(c.nif, t, vi, "Body", o);
		if (!g.shape || g.mesh.tris.empty()) {
			run.exclude("shape without triangles (domain: skinned shapes with >= 1 triangle)");
			return OK;
		}
		uint32_t maxBones = t.chance(48) ? 120 : 12;
		SkinSpec sk = genSkin(t, static_cast<uint32_t>(g.mesh.verts.size()), maxBones, 6, false);
		applySkin(c.nif, g.shape, sk, true);
		c.shape = g.shape;
		c.kind = g.kind + "+skin" + (sk.numBones > 18 ? "(>18 bones)" : "");
	}
	auto& v = c.nif.GetHeader().GetVersion();
	c.version = versionName(v);
	c.isOBFO3 = v.IsOB() || v.IsFO3();
	c.isSSE = v.IsSSE();
	{
		std::vector<std::string> bones;
		c.skinBones = c.nif.GetShapeBoneList(c.shape, bones);
		std::vector<int> ids;
		c.nif.GetShapeBoneIDList(c.shape, ids);
		c.skinBones = std::max<uint32_t>(c.skinBones, static_cast<uint32_t>(ids.size()));
	}
	std::vector<std::string> ops;
	bool interesting = false;
	auto failIf = [&](const std::string& err, const std::string& clause, const std::string& when) -> Verdict {
		std::string all;
		for (auto& o : ops)
			all += o + "; ";
		return run.fail("C10:" + std::string(fromCorpus ? "sample" : c.shape->GetBlockName()) + "@" + c.version + ":" + clause,
						J().s("shape", c.kind).s("version", c.version).s("ops", all).s("when", when).s("what", err).u("vertices", c.shape->GetNumVertices()).u("triangles", c.shape->GetNumTriangles()).u("skin_bones", c.skinBones).str());
	};

	// initial state: generated shapes were rebuilt by applySkin; sample shapes are as loaded
	{
		std::string clause;
		std::string err = checkInvariants(c.nif, c.shape, fromCorpus ? COVERAGE_ONLY : FULL, false, c, clause);
		if (!err.empty()) {
			if (fromCorpus) {
				run.exclude("sample shape does not satisfy the invariants as loaded");
				return OK;
			}
			ops.push_back("initial UpdateSkinPartitions");
			return failIf(err, clause, "after initial rebuild");
		}
	}
	uint32_t nops = 1 + t.u8() % 4;
	for (uint32_t k = 0; k < nops; k++) {
		uint8_t op = t.u8() % 7;
		Level level = FULL;
		std::string when;
		switch (op) {
			case 0:
			case 1: { // get -> relabel -> set [-> update]
				NiVector<BSDismemberSkinInstance::PartitionInfo> info;
				std::vector<int> parts;
				// "foreign tool layout" (no tape bytes: first op of a four-op sequence on an un-mapped skin):
				// the stored partition triangles start at another corner than their lowest index, as other
				// tools write them, and the triangle->partition cache is gone, so the answer has to be derived
				// from the partitions. It must then name, for every triangle, the partition that lists it.
				bool foreign = false;
				if (k == 0 && nops == 4) {
					auto spf = skinPartOf(c.nif, c.shape, nullptr);
					if (spf && !spf->bMappedIndices && spf->partitions.size() >= 2) {
						for (auto& pb : spf->partitions) {
							for (auto& tr : pb.triangles)
								tr = Triangle(tr.p2, tr.p3, tr.p1);
							for (auto& tr : pb.trueTriangles)
								tr = Triangle(tr.p2, tr.p3, tr.p1);
						}
						spf->triParts.clear();
						foreign = true;
						run.cls("foreign-layout-partitions");
					}
				}
				if (!c.nif.GetShapePartitions(c.shape, info, parts))
					break;
				if (foreign) {
					auto spf = skinPartOf(c.nif, c.shape, nullptr);
					std::vector<Triangle> st;
					c.shape->GetTriangles(st);
					std::map<uint64_t, std::vector<int>> where; // triangle -> partitions listing it
					std::map<uint64_t, int> timesInShape;
					for (auto& tr : st)
						timesInShape[triKey(tr)]++;
					for (size_t pi = 0; spf && pi < spf->partitions.size(); pi++) {
						bool okm = true;
						for (auto& tr : partTrueTris(*spf, spf->partitions[pi], okm))
							where[triKey(tr)].push_back(static_cast<int>(pi));
					}
					for (size_t i = 0; spf && i < st.size() && i < parts.size(); i++) {
						auto w = where.find(triKey(st[i]));
						if (timesInShape[triKey(st[i])] != 1 || w == where.end() || w->second.size() != 1)
							continue; // ambiguous: listed twice or nowhere
						if (parts[i] != w->second[0])
							return failIf("GetShapePartitions assigns triangle " + std::to_string(i) + " to partition " + std::to_string(parts[i]) + " but only partition " + std::to_string(w->second[0]) + " lists it (partition triangles stored starting at another corner, cache dropped)", "derived-assignment", "foreign layout");
					}
				}
				int p = static_cast<int>(info.size());
				std::vector<int> req(parts.size());
				bool hadSpecial = false;
				for (auto& r : req) {
					uint8_t b = t.u8();
					if (b < 0x18) {
						r = -1;
						hadSpecial = true;
					}
					else if (b < 0x28) {
						r = p + static_cast<int>(b % 3);
						hadSpecial = true;
					}
					else
						r = p > 0 ? static_cast<int>(b) % p : 0;
				}
				c.nif.SetShapePartitions(c.shape, info, req);
				ops.push_back("SetShapePartitions(" + std::to_string(p) + " infos" + (hadSpecial ? ", with -1/out-of-range" : "") + ")");
				if (hadSpecial)
					interesting = true;
				// read-back
				NiVector<BSDismemberSkinInstance::PartitionInfo> info2;
				std::vector<int> back;
				c.nif.GetShapePartitions(c.shape, info2, back);
				int numParts = p;
				bool unassigned = false;
				for (auto r : req) {
					if (r >= numParts)
						numParts = r + 1;
					if (r < 0)
						unassigned = true;
				}
				if (unassigned)
					numParts++;
				std::vector<int> expect = req;
				for (auto& e : expect)
					if (e < 0)
						e = numParts - 1;
				if (back != expect)
					return failIf("GetShapePartitions does not return the assignment that was set (up to the documented renumbering of unassigned ids)", "readback", "after SetShapePartitions");
				if (op == 1) {
					c.nif.UpdateSkinPartitions(c.shape);
					ops.push_back("UpdateSkinPartitions");
					when = "after SetShapePartitions + UpdateSkinPartitions";
				}
				else {
					level = COVERAGE_ONLY;
					when = "after SetShapePartitions";
				}
				break;
			}
			case 2:
				c.nif.UpdateSkinPartitions(c.shape);
				ops.push_back("UpdateSkinPartitions");
				when = "after UpdateSkinPartitions";
				break;
			case 3:
				c.nif.SetDefaultPartition(c.shape);
				c.nif.UpdateSkinPartitions(c.shape);
				ops.push_back("SetDefaultPartition; UpdateSkinPartitions");
				when = "after SetDefaultPartition + UpdateSkinPartitions";
				break;
			case 4: { // delete some partitions, then the caller protocol get -> set -> update
				auto sp = skinPartOf(c.nif, c.shape);
				if (!sp || sp->partitions.empty())
					break;
				std::vector<uint32_t> del;
				for (uint32_t i = 0; i < sp->partitions.size(); i++)
					if (t.chance(96))
						del.push_back(i);
				if (del.empty())
					del.push_back(t.range(0, static_cast<uint32_t>(sp->partitions.size() - 1)));
				// make sure the triangle->partition table exists before deleting (as GetShapePartitions does)
				NiVector<BSDismemberSkinInstance::PartitionInfo> info0;
				std::vector<int> parts0;
				c.nif.GetShapePartitions(c.shape, info0, parts0);
				c.nif.DeletePartitions(c.shape, del);
				NiVector<BSDismemberSkinInstance::PartitionInfo> info;
				std::vector<int> parts;
				c.nif.GetShapePartitions(c.shape, info, parts);
				c.nif.SetShapePartitions(c.shape, info, parts);
				c.nif.UpdateSkinPartitions(c.shape);
				ops.push_back("DeletePartitions(" + std::to_string(del.size()) + "); Get; Set; UpdateSkinPartitions");
				when = "after DeletePartitions + get/set + UpdateSkinPartitions";
				interesting = true;
				break;
			}
			case 6: { // the triangle list was edited since the partitions were built; then the rebuild
				std::vector<Triangle> tris;
				c.shape->GetTriangles(tris);
				if (tris.empty())
					break;
				uint8_t how = t.u8() % 4;
				std::string what;
				if (how == 0 && tris.size() < 60000) {
					Triangle x = tris[t.u16() % tris.size()];
					tris.push_back(Triangle(x.p1, x.p3, x.p2)); // a back face: new winding of known vertices
					what = "append a reversed triangle";
				}
				else if (how == 1 && tris.size() > 1) {
					tris.pop_back();
					what = "drop the last triangle";
				}
				else if (how == 2) {
					std::reverse(tris.begin(), tris.end());
					what = "reverse the list";
				}
				else {
					size_t a = t.u16() % tris.size();
					tris.insert(tris.begin(), Triangle(tris[a].p2, tris[a].p3, tris[a].p1)); // rotated copy in front
					what = "insert a rotated copy in front";
				}
				c.shape->SetTriangles(tris);
				c.nif.UpdateSkinPartitions(c.shape);
				ops.push_back("SetTriangles(" + what + "); UpdateSkinPartitions");
				when = "after editing the triangle list + UpdateSkinPartitions";
				interesting = true;
				break;
			}
			case 5:
				c.nif.RemoveEmptyPartitions(c.shape);
				ops.push_back("RemoveEmptyPartitions");
				level = COVERAGE_ONLY;
				when = "after RemoveEmptyPartitions";
				break;
		}
		if (when.empty())
			continue;
		std::string clause;
		std::string err = checkInvariants(c.nif, c.shape, level, false, c, clause);
		if (!err.empty())
			return failIf(err, clause, when);
	}
	{
		auto sp = skinPartOf(c.nif, c.shape);
		if (sp && sp->partitions.size() >= 2)
			interesting = true;
		if (c.skinBones > 18 && c.isOBFO3)
			run.cls("bone-limit-split-possible");
	}
	run.cls("version:" + c.version);
	run.cls(fromCorpus ? "source:sample" : "source:generated");
	for (auto& o : ops)
		run.cls("op:" + o.substr(0, o.find('(')));
	if (interesting)
		run.nontriv(fnv1a(std::string(reinterpret_cast<const char*>(run.curTape), run.curTapeLen)));
	if (run.wantSample()) {
		std::string all;
		for (auto& o : ops)
			all += o + "; ";
		auto sp = skinPartOf(c.nif, c.shape);
		run.sample(J().s("shape", c.kind).s("version", c.version).s("ops", all).u("partitions", sp ? sp->partitions.size() : 0).u("skin_bones", c.skinBones).u("triangles", c.shape->GetNumTriangles()).str());
	}

	// save + reload: maps and weights are (re)built by the writer; everything must hold on the file
	const std::string name = c.shape->name.get();
	const uint32_t nvBefore = c.shape->GetNumVertices();
	std::string bytes;
	if (saveBytes(c.nif, bytes, defOpts()) != 0)
		return failIf("default save failed", "save", "save");
	NifFile re;
	int rc = loadBytes(re, bytes);
	if (rc != 0)
		return failIf("saved file rejected on reload, rc=" + std::to_string(rc), "reload", "reload");
	NiShape* rs = nullptr;
	for (auto s : re.GetShapes())
		if (s->name.get() == name && s->GetNumVertices() == nvBefore)
			rs = s;
	if (!rs)
		return failIf("shape not found after reload", "reload", "reload");
	Ctx c2;
	c2.isOBFO3 = c.isOBFO3;
	c2.isSSE = c.isSSE;
	c2.skinBones = c.skinBones;
	std::string clause;
	// after UpdateSkinPartitions was the last step everything was rebuilt; otherwise the writer only fills maps
	bool lastWasUpdate = !ops.empty() && ops.back().find("UpdateSkinPartitions") != std::string::npos;
	std::string err = checkInvariants(re, rs, lastWasUpdate || ops.empty() ? FULL : COVERAGE_ONLY, true, c2, clause);
	if (!err.empty() && !(fromCorpus && ops.empty()))
		return failIf(err, clause, "after save and reload");
	return OK;
}

} // namespace

int main(int argc, char** argv) {
	Harness h{};
	h.id = "C10";
	h.prop = prop;
	h.deterministic = nullptr;
	h.maxTape = 4000;
	h.quickCases = 12000;
	h.thoroughCases = 300000;
	h.rule = "case = (skinned shape for OB/FO3/SK/SSE built through the API with 1..120 bones and 0..6 weights per vertex, or a "
			 "skinned sample shape; 1-4 partition operations). Non-trivial = >=2 partitions at the end, or an "
			 "unassigned/out-of-range label or a partition deletion occurred; distinct = hash(tape).";
	return harnessMain(argc, argv, h);
}
