// C11 — a copied model is equal to and fully independent of its source.
//
// Domain: sample files, generated scene graphs, synthesised files; copy by constructor or by
// assignment (into an empty or a non-empty target); then a generated edit sequence on ONE side;
// then destruction of one side (either order).
// Oracle: raw-saved bytes of the copy equal those of the source right after copying; after every
// edit on X the other side's bytes and indexed query battery are unchanged; after destroying X
// the other side is queried and saved again. The run is under ASan, so state still shared
// through a cached pointer shows as a use-after-free or as a changed answer.
// Bytes of a model under observation are always taken by saving a fresh copy of it.
#include "battery.hpp"
#include "cases.hpp"
#include "graph.hpp"
#include "mininif.hpp"

using namespace nifly;
using namespace vf;

namespace {

std::string bytesOf(const NifFile& m) {
	NifFile tmp(m);
	std::string b;
	saveBytes(tmp, b, rawOpts());
	return b;
}

std::string applyEdit(NifFile& x, Tape& t, bool& geometryEdit) {
	auto shapes = x.GetShapes();
	uint8_t op = t.u8() % 15;
	NiShape* s = shapes.empty() ? nullptr : shapes[t.u8() % shapes.size()];
	switch (op) {
		case 0: {
			auto nodes = x.GetNodes();
			if (nodes.empty())
				return "noop";
			x.SetNodeName(x.GetBlockID(nodes[t.u8() % nodes.size()]), "renamed");
			return "SetNodeName";
		}
		case 1:
			if (!s || s->GetNumVertices() == 0)
				return "noop";
			x.MoveVertex(s, Vector3(9.0f, 8.0f, 7.0f), t.u16() % s->GetNumVertices());
			geometryEdit = true;
			return "MoveVertex";
		case 2: {
			if (!s)
				return "noop";
			std::vector<Vector2> uv(s->GetNumVertices(), Vector2(0.25f, 0.75f));
			x.SetUvsForShape(s, uv);
			geometryEdit = true;
			return "SetUvsForShape";
		}
		case 3: {
			if (!s)
				return "noop";
			std::vector<Vector3> n(s->GetNumVertices(), Vector3(0.0f, 0.0f, 1.0f));
			x.SetNormalsForShape(s, n);
			geometryEdit = true;
			return "SetNormalsForShape";
		}
		case 4: {
			if (!s || s->GetNumVertices() < 2)
				return "noop";
			std::vector<uint16_t> d = {static_cast<uint16_t>(t.u16() % s->GetNumVertices())};
			x.DeleteVertsForShape(s, d);
			geometryEdit = true;
			return "DeleteVertsForShape";
		}
		case 5:
			if (!s)
				return "noop";
			x.DeleteShape(s);
			geometryEdit = true;
			return "DeleteShape";
		case 6:
			x.AddNode("added", MatTransform());
			return "AddNode";
		case 7:
			if (!s)
				return "noop";
			x.CloneShape(s, "cloned");
			geometryEdit = true;
			return "CloneShape";
		case 8: {
			std::string b;
			saveBytes(x, b, t.coin() ? defOpts() : rawOpts());
			return "Save";
		}
		case 9: {
			if (!s)
				return "noop";
			std::vector<Vector3> v(s->GetNumVertices(), Vector3(1.0f, 2.0f, 3.0f));
			x.SetVertsForShape(s, v);
			geometryEdit = true;
			return "SetVertsForShape";
		}
		case 10: {
			if (!s)
				return "noop";
			s->name.get() = "shape-renamed";
			std::string tex = "textures\\changed.dds";
			x.SetTextureSlot(s, tex, 0);
			return "Rename+SetTextureSlot";
		}
		case 14: { // overwrite every field of one block in place (incl. nested objects the block owns)
			auto& hdr = x.GetHeader();
			uint32_t nb = hdr.GetNumBlocks();
			if (nb == 0)
				return "noop";
			auto b = hdr.GetBlock<NiObject>(t.u16() % nb);
			// geometry data and skin blocks are reached through cached pointers / sized by other blocks: left alone
			if (!b || b->HasType<NiGeometryData>() || b->HasType<NiShape>() || b->HasType<NiSkinData>() || b->HasType<NiSkinPartition>() || b->HasType<NiBoneContainer>())
				return "noop";
			std::string ty = b->GetBlockName();
			if (!resynthInPlace(*b, hdr, t))
				return "noop";
			return "re-read " + ty + " in place";
		}
		case 12: { // through the shape object itself (its cached data pointer), not through the model
			if (!s)
				return "noop";
			std::vector<Triangle> tr;
			s->GetTriangles(tr);
			if (tr.size() < 2)
				return "noop";
			tr.pop_back();
			std::reverse(tr.begin(), tr.end());
			s->SetTriangles(tr);
			geometryEdit = true;
			return "shape->SetTriangles";
		}
		case 13: {
			if (!s)
				return "noop";
			if (s->GetNumVertices() > 0)
				x.MoveVertex(s, Vector3(500.0f, -400.0f, 300.0f), 0);
			s->UpdateBounds();
			geometryEdit = true;
			return "MoveVertex+shape->UpdateBounds";
		}
		default: {
			auto& v = x.GetHeader().GetVersion();
			if (!(v.IsSK() || v.IsSSE()) || x.HasUnknown())
				return "noop";
			OptOptions oo;
			oo.targetVersion = v.IsSK() ? NiVersion::getSSE() : NiVersion::getSK();
			// conversion of skins without weights is a separate (C12) matter: only convert unskinned models
			for (auto sh : x.GetShapes())
				if (sh->IsSkinned())
					return "noop";
			x.OptimizeFor(oo);
			geometryEdit = true;
			return "OptimizeFor";
		}
	}
}

Verdict prop(Tape& t, Run& run) {
	auto src = std::make_unique<NifFile>();
	std::string desc, version;
	uint8_t from = t.u8() % 6;
	std::string srcBytes;
	uint8_t deepEditPattern = 0; // from == 5: the one edit is an in-place re-read of the subject block
	uint8_t deepBase = 0;
	int deepK = -1;
	uint64_t deepV = 0; // the file the source was loaded from (file sources)
	if (from == 0) {
		static const size_t vers[] = {4, 5, 6, 7, 8, 11};
		size_t vi = vers[t.u8() % 6];
		GraphInfo gi = buildGraph(*src, t, vi);
		desc = "graph: " + gi.str();
		version = versions()[vi].name;
	}
	else if (from == 5) {
		// deep-copy independence of every block type: a single synthesised subject (constant-byte body,
		// optionally one forced integer-like read as in the sweep of cases.hpp), copied, and then every field
		// of the subject overwritten in place on one side
		auto& types = registeredTypes();
		size_t ti = t.u16() % types.size();
		size_t vi = t.u8() % versions().size();
		uint8_t k = t.u8(), v = t.u8(), base = t.u8();
		deepEditPattern = t.u8() | 1;
		std::vector<uint8_t> body(base ? 600 : 0, base);
		Tape bt(body);
		if (k < kSweepMaxReads) {
			force().read = k;
			force().value = v % kSweepMaxValue;
			deepK = k;
			deepV = v % kSweepMaxValue;
		}
		deepBase = base;
		SynthFile sf = synthSingleFile(types[ti], vi, bt);
		force() = Force();
		if (!sf.ok || loadBytes(*src, sf.bytes) != 0) {
			run.exclude("start file not usable");
			return OK;
		}
		srcBytes = sf.bytes;
		desc = "synth1:" + types[ti] + (k < kSweepMaxReads ? " (read #" + std::to_string(k) + " = " + std::to_string(v % kSweepMaxValue) + ")" : "");
		version = versions()[vi].name;
		run.cls("source:every-type-deep-edit");
	}
	else if (from == 4) {
		// a newer-version file (SSE / FO4 / FO76) that still carries NiTriShape shapes with separate data
		// blocks (unusual, loadable): built through the block API the way CreateShapeFromData builds LE shapes
		static const size_t vers[] = {7, 8, 11};
		size_t vi = vers[t.u8() % 3];
		NifFile b;
		b.Create(versions()[vi].ni());
		auto& bh = b.GetHeader();
		uint32_t ns = 1 + t.u8() % 2;
		for (uint32_t i = 0; i < ns; i++) {
			MeshOpts mo;
			mo.maxVerts = 40;
			mo.maxTris = 60;
			mo.minTris = 2;
			Mesh m = genMesh(t, mo);
			auto shape = std::make_unique<NiTriShape>();
			shape->name.get() = "Legacy" + std::to_string(i);
			auto data = std::make_unique<NiTriShapeData>();
			data->Create(bh.GetVersion(), &m.verts, &m.tris, m.uvs.empty() ? nullptr : &m.uvs, m.norms.empty() ? nullptr : &m.norms);
			shape->SetGeomData(data.get());
			shape->DataRef()->index = bh.AddBlock(std::move(data));
			shape->SetSkinned(false);
			uint32_t sid = bh.AddBlock(std::move(shape));
			b.GetRootNode()->childRefs.AddBlockRef(sid);
		}
		if (saveBytes(b, srcBytes, rawOpts()) != 0 || loadBytes(*src, srcBytes) != 0) {
			run.exclude("legacy-geometry file not usable");
			return OK;
		}
		desc = "file: " + std::to_string(ns) + " NiTriShape+NiTriShapeData in a " + versions()[vi].name + " file";
		version = versions()[vi].name;
		run.cls("source:legacy-geometry-in-newer-version");
	}
	else {
		FileCase c = decodeFileCase(t, run);
		if (!c.ok) {
			run.exclude("start file not usable");
			return OK;
		}
		srcBytes = c.bytes;
		desc = c.kind + ":" + c.label;
		if (from == 3) {
			// a file with block types the library does not register (kept as opaque blocks): the same
			// file with one or all of its type names relabelled
			auto in = mini::parse(c.bytes);
			if (in.ok && in.ver.hasSizes() && !in.typeNames.empty()) {
				mini::File rel = in;
				uint8_t which = t.u8();
				std::string names;
				for (size_t i = 0; i < rel.typeNames.size(); i++)
					if (which == 0xFF || i == which % rel.typeNames.size()) {
						names += rel.typeNames[i] + " ";
						rel.typeNames[i] = "Zq" + rel.typeNames[i];
					}
				srcBytes = mini::write(rel);
				desc += " with unknown block types: " + names;
				run.cls("source:file-with-unknown-blocks");
			}
		}
		if (loadBytes(*src, srcBytes) != 0) {
			run.exclude("start file not usable");
			return OK;
		}
		version = c.version;
	}
	const bool synth = desc.rfind("synth", 0) == 0;
	BatteryOpts bo;
	bo.withPartitions = !synth;

	// ---- copy
	const uint8_t how = t.u8() % 3;
	auto copy = std::make_unique<NifFile>();
	std::string howName;
	if (how == 0) {
		copy = std::make_unique<NifFile>(*src);
		howName = "copy-constructor";
	}
	else if (how == 1) {
		*copy = *src;
		howName = "assign-into-empty";
	}
	else {
		copy->Create(NiVersion::getSSE());
		std::vector<Vector3> v = {Vector3(0, 0, 0), Vector3(1, 0, 0), Vector3(0, 1, 0)};
		std::vector<Triangle> tr = {Triangle(0, 1, 2)};
		copy->CreateShapeFromData("old", &v, &tr, nullptr);
		*copy = *src;
		howName = "assign-into-non-empty";
	}
	auto detail = [&](const std::string& what, const std::string& edits, const std::string& diff) {
		return J().s("model", desc).s("version", version).s("copy", howName).s("edits", edits).s("what", what).s("first_difference", diff).str();
	};
	run.cls("copy:" + howName);
	run.cls(from == 0 ? "source:graph" : "source:file");

	// Warm-up: some getters fill caches or convert partition strips to triangles lazily
	// (GetShapePartitions -> PrepareTriParts); that is a property of the getter, not of copying,
	// so both sides are queried once before the reference bytes are taken.
	battery(*src, bo);
	battery(*copy, bo);
	std::string b0 = bytesOf(*src);
	std::string bc = bytesOf(*copy);
	if (b0 != bc)
		return run.fail("C11:not-equal:" + howName, detail("the copy does not save to the same bytes as the source", "", firstDiff(b0, bc)));
	std::string q0 = battery(*src, bo);
	{
		std::string qc = battery(*copy, bo);
		if (qc != q0)
			return run.fail("C11:not-equal-queries:" + howName, detail("a query answers differently on the copy", "", batteryDiff(q0, qc)));
	}
	// "saves to the same bytes", through Save() itself with its default options and without a
	// further copy in between: a second copy is saved directly and compared with what an
	// independently loaded twin of the source saves (file sources only)
	if (!srcBytes.empty()) {
		NifFile twin;
		if (loadBytes(twin, srcBytes) == 0) {
			battery(twin, bo);
			NifFile copy2(*src);
			std::string dTwin, dCopy, rTwin, rCopy;
			int rc1 = saveBytes(twin, dTwin, defOpts()), rc2 = saveBytes(copy2, dCopy, defOpts());
			run.cls("default-save-compared-with-twin");
			if (rc1 != rc2 || dTwin != dCopy)
				return run.fail("C11:not-equal-default-save:" + howName, detail("a copy does not save (default options) to the bytes an identical, independently loaded model saves to", "", firstDiff(dTwin, dCopy)));
		}
	}

	// ---- edit one side
	const bool editCopy = t.coin();
	NifFile& X = editCopy ? *copy : *src;
	NifFile& Y = editCopy ? *src : *copy;
	uint32_t nEdits = 1 + t.u8() % 4;
	std::string edits;
	bool geomEdit = false;
	for (uint32_t i = 0; i < nEdits; i++) {
		std::string e;
		if (from == 5 && i == 0) {
			auto b = X.GetHeader().GetBlock<NiObject>(1u);
			// same structure as the source (same body and forced read), other leaf values - or, for odd
			// pattern bytes above 0x80, another structure altogether
			const bool sameStructure = deepEditPattern < 0x80;
			std::vector<uint8_t> pat(sameStructure ? (deepBase ? 600 : 0) : 600, sameStructure ? deepBase : deepEditPattern);
			Tape pt(pat);
			bool ok = b && (sameStructure ? resynthInPlace(*b, X.GetHeader(), pt, deepK, deepV, 1.5f) : resynthInPlace(*b, X.GetHeader(), pt));
			e = ok ? std::string("re-read ") + b->GetBlockName() + (sameStructure ? " in place (same structure, other values)" : " in place (other structure)") : std::string("noop");
		}
		else
			e = applyEdit(X, t, geomEdit);
		edits += e + "; ";
		run.cls("edit:" + e);
		std::string by = bytesOf(Y);
		if (by != b0)
			return run.fail("C11:edit-leaks:" + e, detail(std::string("editing the ") + (editCopy ? "copy" : "source") + " changed what the other model writes", edits, firstDiff(b0, by)));
		std::string qy = battery(Y, bo);
		if (qy != q0)
			return run.fail("C11:edit-leaks-query:" + e, detail(std::string("editing the ") + (editCopy ? "copy" : "source") + " changed what the other model answers", edits, batteryDiff(q0, qy)));
	}
	const size_t nGeom = Y.GetShapes().size();
	bool hasNiGeometry = false;
	for (auto s : Y.GetShapes())
		if (s->HasType<NiGeometry>())
			hasNiGeometry = true;
	if ((hasNiGeometry && geomEdit) || from == 5)
		run.nontriv(fnv1a(std::string(reinterpret_cast<const char*>(run.curTape), run.curTapeLen)));
	if (run.wantSample())
		run.sample(J().s("model", desc).s("version", version).s("copy", howName).s("edited_side", editCopy ? "copy" : "source").s("edits", edits).u("shapes", nGeom).str());

	// ---- destroy the edited side, then use the other
	if (editCopy)
		copy.reset();
	else
		src.reset();
	NifFile& Z = editCopy ? *src : *copy;
	std::string qz = battery(Z, bo);
	if (qz != q0)
		return run.fail("C11:destroy-leaks-query", detail("destroying one model changed what the other answers", edits, batteryDiff(q0, qz)));
	// touch geometry through the shapes (cached pointers)
	for (auto s : Z.GetShapes()) {
		std::vector<Vector3> v;
		Z.GetVertsForShape(s, v);
		std::vector<Triangle> tr;
		s->GetTriangles(tr);
	}
	std::string bz = bytesOf(Z);
	if (bz != b0)
		return run.fail("C11:destroy-leaks", detail("after destroying one model the other writes different bytes", edits, firstDiff(b0, bz)));
	std::string outz;
	if (saveBytes(Z, outz, defOpts()) != 0)
		return run.fail("C11:survivor-save", detail("the surviving model cannot be saved", edits, ""));
	return OK;
}

void deterministic(Run& run, const std::function<void(const std::vector<uint8_t>&)>& feed) {
	// every sample x every copy kind x every edit kind (single edit, shape 0), both sides
	size_t n = corpus(run.args.corpus).size();
	for (size_t i = 0; i < n; i++)
		for (uint8_t how = 0; how < 3; how++)
			for (uint8_t edit = 0; edit < 12; edit++)
				for (uint8_t side = 0; side < 2; side++)
					feed({1, 1, static_cast<uint8_t>(i), how, side, 0 /*one edit*/, edit, 0, 0, 0, 0});
	// every registered type x {OB, SSE} x two bodies, and every sweep tape that reaches a new read site:
	// copy, overwrite the subject in place on one side, compare the other
	{
		auto& types = registeredTypes();
		uint32_t n5 = 0;
		for (size_t ti = 0; ti < types.size(); ti++)
			for (uint8_t vi : {4, 7})
				for (uint8_t base : {0x61, 0xA1}) {
					uint8_t how = static_cast<uint8_t>(n5 % 3), side = static_cast<uint8_t>((n5 / 3) % 2);
					n5++;
					feed({5, static_cast<uint8_t>(ti & 255), static_cast<uint8_t>(ti >> 8), vi, 0xFF, 0, base, static_cast<uint8_t>((n5 & 1) ? 0xC9 : 0x01), how, side, 0, 0});
				}
		uint64_t tried = 0, novel = 0;
		run.feedAll = true;
		sweepCells(run.args.shard, run.args.nshards, 8, 24, 3, [&](const std::vector<uint8_t>& s) {
			// s = [0xF0, ti lo, ti hi, vi, k, v, body...] with a constant body byte
			uint8_t base = s.size() > 6 ? s[6] : 0;
			feed({5, s[1], s[2], s[3], s[4], s[5], base, 0x01, static_cast<uint8_t>(novel % 3), static_cast<uint8_t>(novel % 2), 0, 0});
		}, tried, novel);
		run.feedAll = false;
		run.cls("sweep:tapes-reaching-new-read-sites", novel);
	}
	// legacy geometry in newer versions x copy kind x shape-level edits x side
	for (uint8_t v = 0; v < 3; v++)
		for (uint8_t how = 0; how < 3; how++)
			for (uint8_t edit : {12, 13, 4, 1, 8})
				for (uint8_t side = 0; side < 2; side++) {
					std::vector<uint8_t> tape = {4, v, 1};
					tape.resize(3 + 120, static_cast<uint8_t>(0x47 + v * 3 + how));
					tape.insert(tape.end(), {how, side, 0, edit, 0, 0, 0, 0});
					feed(tape);
				}
	// every sample with one (each of the first eight) or all type names unknown x copy kind
	for (size_t i = 0; i < n; i++)
		for (uint8_t how = 0; how < 3; how++)
			for (uint8_t which : {0, 1, 2, 3, 4, 5, 6, 7, 0xFF})
				feed({3, 1, static_cast<uint8_t>(i), which, how, 1, 0, 8 /*Save*/, 1, 0, 0});
}

} // namespace

int main(int argc, char** argv) {
	Harness h{};
	h.id = "C11";
	h.prop = prop;
	h.deterministic = deterministic;
	h.maxTape = 4000;
	h.quickCases = 4000;
	h.thoroughCases = 100000;
	h.rule = "case = (model: sample, generated scene graph or synthesised file; copy by constructor / assignment into empty / "
			 "assignment into non-empty; 1-4 edits on one side; destruction of the edited side). Enumerated: every sample x "
			 "copy kind x edit kind x side. Non-trivial = the model has an NiGeometry-based shape (cached data pointer) and a "
			 "geometry edit happened; distinct = hash(tape).";
	return harnessMain(argc, argv, h);
}
