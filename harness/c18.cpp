// C18 — index-remapping and strip utilities agree with their mathematical definition.
//
// Code under test (all header templates in /repo/include/NifUtil.hpp):
//   EraseVectorIndices, InsertVectorIndices, GenerateIndexCollapseMap, GenerateIndexExpandMap,
//   ApplyMapToTriangles, ApplyIndexMapToMapKeys, GenerateTrianglesFromStrips.
// Oracle: for each utility a naive reference model written from the definition in the property
//   statement (never calling the library), plus the stated laws (erase then insert restores,
//   expand map is the inverse of the collapse map on survivors, ...). Memory safety is decided
//   by ASan: every input vector is built with size()==capacity() so that an access one past
//   the end lands in a redzone (the run uses detect_container_overflow=0).
//
// Preconditions taken from the callers (src/Geometry.cpp, src/Skin.cpp, src/NifFile.cpp):
//   * index lists are sorted ascending and unique (built by scanning 0..n-1); they are
//     CONSTRUCTED here (bitmask / gap / periodic / complement encodings), never filtered.
//   * Out-of-range entries at the tail of the list:
//       - EraseVectorIndices: guarded (`indices[0] >= v.size()` returns; later entries are never
//         matched because the scan stops at v.size()) -> generated; in-range semantics must hold.
//       - GenerateIndexCollapseMap / GenerateIndexExpandMap: entries >= mapSize are never matched;
//         NiSkinPartition::notifyVerticesDelete really passes such lists -> generated.
//       - InsertVectorIndices: guarded (`indices.back() >= v.size() + indices.size()` returns
//         without touching v) -> generated; the vector must stay unchanged.
//       - ApplyMapToTriangles: documented to drop triangles with a corner outside the map -> generated.
//       - ApplyIndexMapToMapKeys: keys outside the index map are documented (defaultOffset) -> generated.
//   * NOT generated (unchecked preconditions every caller respects): unsorted or duplicate
//     lists; negative entries for the signed instantiation; containers larger than the index
//     type can address (16-bit instantiations stop at 65535 elements, incl. the final size of
//     an insertion and mapSize + list length of an expand map); map values above 65535 for
//     ApplyMapToTriangles (results are stored in 16-bit corners); strip points are uint16_t
//     (both callers), so no wider strip element type is instantiated.
//   * Index types: uint16_t and uint32_t are what /repo's callers instantiate (vertex lists are
//     uint16_t, partition / vertex-map lists are uint32_t; map sizes uint16_t, uint32_t, size_t);
//     int and size_t are the remaining instantiations named by the property's quantifier.
//     InsertVectorIndices, GenerateIndexExpandMap and ApplyIndexMapToMapKeys have no caller
//     inside /repo (they are public API used by downstream tools); they get the same types.
#include "harness.hpp"

#include "NifUtil.hpp"
#include "NifFile.hpp"

#include <algorithm>
#include <array>
#include <climits>
#include <deque>
#include <limits>
#include <map>
#include <set>
#include <type_traits>
#include <unordered_map>

using namespace vf;

namespace {

enum Util : uint8_t { U_ERASE = 0, U_INSERT, U_COLLAPSE, U_EXPAND, U_TRIMAP, U_MAPKEYS, U_STRIPS, U_COUNT };
const char* const kUtilName[U_COUNT] = {"EraseVectorIndices",	   "InsertVectorIndices", "GenerateIndexCollapseMap",
										"GenerateIndexExpandMap",  "ApplyMapToTriangles", "ApplyIndexMapToMapKeys",
										"GenerateTrianglesFromStrips"};

template<typename T>
const char* tname();
template<>
const char* tname<uint16_t>() {
	return "uint16_t";
}
template<>
const char* tname<uint32_t>() {
	return "uint32_t";
}
template<>
const char* tname<int>() {
	return "int";
}
template<>
const char* tname<size_t>() {
	return "size_t";
}

// ---------------------------------------------------------------- small helpers
uint32_t mix(uint64_t i, uint32_t salt) {
	uint32_t x = static_cast<uint32_t>(i + 1) * 2654435761u ^ (salt * 0x9E3779B9u);
	x ^= x >> 15;
	x *= 0x85EBCA6Bu;
	x ^= x >> 13;
	return x;
}

template<typename T>
T makeElem(size_t i, uint32_t salt) {
	const uint32_t id = static_cast<uint32_t>(i + 1 + salt * 1000003u); // injective in i
	if constexpr (std::is_same_v<T, bool>)
		return ((id * 2654435761u) >> 16) & 1;
	else if constexpr (std::is_same_v<T, std::string>)
		return "e" + std::to_string(id) + (id % 3 == 0 ? std::string(24, 'x') : std::string());
	else
		return static_cast<T>(id);
}

template<typename V>
void tighten(V& v) {
	if constexpr (!std::is_same_v<V, std::deque<typename V::value_type>>)
		if (v.capacity() != v.size())
			v.shrink_to_fit();
}

// container of n distinct elements with size()==capacity()
template<typename C>
C makeExact(size_t n, uint32_t salt) {
	C c(n);
	for (size_t i = 0; i < n; i++)
		c[i] = makeElem<typename C::value_type>(i, salt);
	tighten(c);
	return c;
}
template<typename C>
C exactCopy(const C& s) {
	C c(s.begin(), s.end());
	tighten(c);
	return c;
}
template<typename I>
std::vector<I> exactIdx(const std::vector<uint32_t>& L) {
	std::vector<I> r(L.size());
	for (size_t i = 0; i < L.size(); i++)
		r[i] = static_cast<I>(L[i]);
	tighten(r);
	return r;
}

// membership table of a sorted unique list (the "set" of the naive definitions)
struct Marks {
	std::vector<char> m;
	Marks(const std::vector<uint32_t>& L, size_t span)
		: m(span, 0) {
		for (auto x : L)
			if (x < span)
				m[x] = 1;
	}
	bool has(size_t i) const { return i < m.size() && m[i]; }
};

std::string showOne(const std::string& s) {
	return jstr(s);
}
std::string showOne(bool b) {
	return b ? "1" : "0";
}
template<typename T>
std::string showOne(const T& x) {
	return std::to_string(x);
}
template<typename C>
std::string showSeq(const C& c, size_t lim = 32) {
	std::string o = "[";
	size_t i = 0;
	for (auto it = c.begin(); it != c.end() && i < lim; ++it, ++i) {
		if (i)
			o += ",";
		o += showOne(static_cast<typename C::value_type>(*it));
	}
	if (c.size() > lim)
		o += ",\"...(" + std::to_string(c.size()) + " total)\"";
	return o + "]";
}
template<typename A, typename B>
long long firstDiff(const A& a, const B& b) {
	size_t n = std::min<size_t>(a.size(), b.size());
	auto ia = a.begin();
	auto ib = b.begin();
	for (size_t i = 0; i < n; ++i, ++ia, ++ib)
		if (!(*ia == *ib))
			return static_cast<long long>(i);
	return a.size() == b.size() ? -1 : static_cast<long long>(n);
}

// ---------------------------------------------------------------- tape decoders
// size: bytes < 20 are literal (used by the enumerated tapes); mostly small, sometimes up to maxv
size_t decodeSize(Tape& t, size_t maxv) {
	const uint8_t b = t.u8();
	size_t n;
	if (b < 0xA0)
		n = b % 20;
	else if (b < 0xE0)
		n = t.range(0, 400);
	else if (b < 0xF8)
		n = t.range(0, 70000);
	else
		n = maxv >= 3 ? maxv - (b & 3) : maxv;
	return std::min(n, maxv);
}

std::vector<uint32_t> gapList(Tape& t, uint64_t limit) {
	std::vector<uint32_t> L;
	const unsigned k = t.u8();
	uint64_t next = 0;
	for (unsigned j = 0; j < k; j++) {
		const uint8_t b = t.u8();
		const uint64_t gap = b < 0xC0 ? (b & 7u) : b < 0xF0 ? t.u8() : t.u16();
		next += gap;
		if (next >= limit)
			break;
		L.push_back(static_cast<uint32_t>(next));
		next++;
	}
	return L;
}

// Strictly ascending list of values < limit, constructed (never filtered from random draws).
// mode 0: bitmask over [0,limit) (limit <= 64; this is what the enumerated tapes use),
// mode 1: explicit gaps, mode 2: periodic runs (all-zero = the full list), mode 3: everything but a gap list.
std::vector<uint32_t> decodeList(Tape& t, uint64_t limit) {
	const uint8_t m = t.u8();
	std::vector<uint32_t> L;
	if (limit == 0)
		return L;
	unsigned mode = m & 3;
	if (mode == 0 && limit > 64)
		mode = 1;
	switch (mode) {
		case 0: {
			const size_t nb = (limit + 7) / 8;
			for (size_t by = 0; by < nb; by++) {
				const uint8_t mask = t.u8();
				for (unsigned bit = 0; bit < 8; bit++) {
					const uint64_t i = by * 8 + bit;
					if (i < limit && ((mask >> bit) & 1))
						L.push_back(static_cast<uint32_t>(i));
				}
			}
			break;
		}
		case 1: L = gapList(t, limit); break;
		case 2: {
			const uint64_t start = (static_cast<uint64_t>(t.u16()) * limit) >> 16;
			const unsigned period = 1 + t.u8() % 8;
			const unsigned runl = 1 + t.u8() % period;
			const uint8_t lb = t.u8();
			const uint64_t len = lb < 0x40 ? limit : (static_cast<uint64_t>(t.u16()) * (limit + 1)) >> 16;
			for (uint64_t i = start; i < limit && i - start < len; i++)
				if ((i - start) % period < runl)
					L.push_back(static_cast<uint32_t>(i));
			break;
		}
		default: {
			const std::vector<uint32_t> holes = gapList(t, limit);
			size_t hi = 0;
			for (uint64_t i = 0; i < limit; i++) {
				if (hi < holes.size() && holes[hi] == i) {
					hi++;
					continue;
				}
				L.push_back(static_cast<uint32_t>(i));
			}
			break;
		}
	}
	return L;
}

// Index map for ApplyMapToTriangles / ApplyIndexMapToMapKeys: a collapse map built here from a
// list (not by the library), or arbitrary values (negatives only for the signed map type).
std::vector<int64_t> decodeIntMap(Tape& t, size_t V, bool forU16, size_t* deleted = nullptr) {
	const uint8_t mm = t.u8();
	std::vector<int64_t> vals(V);
	size_t del = 0;
	if ((mm & 1) == 0) {
		const std::vector<uint32_t> L = decodeList(t, V);
		Marks d(L, V);
		int64_t next = 0;
		for (size_t i = 0; i < V; i++) {
			if (d.has(i)) {
				vals[i] = -1;
				del++;
			}
			else
				vals[i] = next++;
		}
	}
	else if (V <= 32) {
		static const int64_t neg[4] = {-1, -2, INT_MIN, -1};
		for (size_t i = 0; i < V; i++) {
			const uint8_t b = t.u8();
			if (!forU16 && b < 0x40) {
				vals[i] = neg[b & 3];
				del++;
			}
			else if (b < 0xC0)
				vals[i] = b & 31;
			else
				vals[i] = t.u16();
		}
	}
	else {
		const uint32_t salt = t.u8();
		for (size_t i = 0; i < V; i++) {
			const uint32_t x = mix(i, salt);
			if (!forU16 && x % 8 == 0) {
				vals[i] = -1;
				del++;
			}
			else
				vals[i] = (x >> 8) % 65536;
		}
	}
	if (forU16)
		for (auto& v : vals)
			v = static_cast<uint16_t>(v); // what a vector<uint16_t> holds (-1 -> 65535)
	if (deleted)
		*deleted = del;
	return vals;
}

// ---------------------------------------------------------------- per-case bookkeeping
struct CaseInfo {
	Util util;
	std::string inst; // e.g. EraseVectorIndices<uint16_t>
	size_t size = 0;  // container / map size
	uint64_t hash = 0;
};

void noteList(Run& run, const std::vector<uint32_t>& L, size_t n) {
	if (L.empty())
		run.cls("list:empty");
	else if (L.back() >= n)
		run.cls("list:has-out-of-range-tail");
	else if (L.size() == n)
		run.cls("list:full");
	else
		run.cls("list:proper-subset");
}
void noteSize(Run& run, size_t n) {
	run.cls(n == 0 ? "size:0" : n <= 16 ? "size:1..16" : n <= 400 ? "size:17..400" : n < 65000 ? "size:401..64999" : "size:>=65000");
}
uint64_t hashList(uint64_t h, const std::vector<uint32_t>& L) {
	h = hash_mix(h, L.size());
	return L.empty() ? h : fnv1a(L.data(), L.size() * sizeof(uint32_t), h);
}

// ================================================================ EraseVectorIndices
template<typename C, typename I>
Verdict checkErase(Run& run, const char* kind, size_t n, const std::vector<uint32_t>& L, uint32_t salt) {
	using T = typename C::value_type;
	const std::string fn = std::string("EraseVectorIndices<") + tname<I>() + ">";
	run.cls("inst:" + fn);
	run.cls(std::string("container:") + kind);
	C v = makeExact<C>(n, salt);
	const std::vector<T> orig(v.begin(), v.end());
	const std::vector<I> idx = exactIdx<I>(L);
	const Marks del(L, n);

	// naive definition: keep, in order, the elements whose position is not listed
	std::vector<T> want;
	for (size_t i = 0; i < n; i++)
		if (!del.has(i))
			want.push_back(orig[i]);

	nifly::EraseVectorIndices(v, idx);

	if (firstDiff(want, v) != -1)
		return run.fail("C18:" + fn + ":model-mismatch",
						J().s("function", fn)
							.s("container", kind)
							.u("size", n)
							.raw("indices", showSeq(L))
							.raw("input", showSeq(orig))
							.raw("expected", showSeq(want))
							.raw("got", showSeq(v))
							.n("first_difference_at", firstDiff(want, v))
							.str());

	// law: erase then re-insert (same list) restores every survivor to its old position
	if (L.empty() || L.back() < n) {
		C w = exactCopy(v);
		nifly::InsertVectorIndices(w, idx);
		bool ok = w.size() == n;
		long long bad = -1;
		for (size_t i = 0; ok && i < n; i++)
			if (!del.has(i) && !(w[i] == orig[i])) {
				ok = false;
				bad = static_cast<long long>(i);
			}
		if (!ok)
			return run.fail("C18:" + fn + ":erase-then-insert-not-restored",
							J().s("function", fn)
								.s("container", kind)
								.u("size", n)
								.raw("indices", showSeq(L))
								.raw("input", showSeq(orig))
								.raw("after_erase", showSeq(v))
								.raw("after_insert", showSeq(w))
								.n("first_wrong_position", bad)
								.str());
		run.cls("law:erase-then-insert-restores");
	}
	return OK;
}

// ================================================================ InsertVectorIndices
// N = final size, L = positions (all < N) that become inserted slots, oorExtra != 0 appends the
// out-of-range entry N + oorExtra (then the function's guard must leave the vector alone).
template<typename C, typename I>
Verdict checkInsert(Run& run, const char* kind, size_t N, const std::vector<uint32_t>& L, unsigned oorExtra, uint32_t salt) {
	using T = typename C::value_type;
	const std::string fn = std::string("InsertVectorIndices<") + tname<I>() + ">";
	run.cls("inst:" + fn);
	run.cls(std::string("container:") + kind);
	const size_t n = N - L.size();
	C v = makeExact<C>(n, salt);
	const std::vector<T> orig(v.begin(), v.end());
	std::vector<uint32_t> LL = L;
	if (oorExtra)
		LL.push_back(static_cast<uint32_t>(N + oorExtra));
	const std::vector<I> idx = exactIdx<I>(LL);
	const Marks ins(L, N);

	nifly::InsertVectorIndices(v, idx);

	auto detail = [&](const char* what) {
		return J().s("function", fn)
			.s("container", kind)
			.s("what", what)
			.u("size_before", n)
			.raw("indices", showSeq(LL))
			.raw("input", showSeq(orig))
			.raw("got", showSeq(v))
			.str();
	};
	if (oorExtra) {
		run.cls("insert:rejected-out-of-range-list");
		if (firstDiff(orig, v) != -1)
			return run.fail("C18:" + fn + ":out-of-range-list-modified-vector", detail("list whose last entry is >= size()+indices.size() must be rejected without touching the vector"));
		return OK;
	}
	// naive definition: result has N slots; the slots not listed hold the old elements in order
	bool ok = v.size() == N;
	size_t j = 0;
	for (size_t p = 0; ok && p < N; p++)
		if (!ins.has(p)) {
			if (!(v[p] == orig[j]))
				ok = false;
			j++;
		}
	if (!ok)
		return run.fail("C18:" + fn + ":model-mismatch", detail("old elements are not at the unlisted positions in order"));

	// law: erasing the inserted slots again gives back the original vector
	C w = exactCopy(v);
	nifly::EraseVectorIndices(w, idx);
	if (firstDiff(orig, w) != -1)
		return run.fail("C18:" + fn + ":insert-then-erase-not-restored", detail("erase of the inserted slots does not give back the input"));
	run.cls("law:insert-then-erase-restores");
	return OK;
}

// ================================================================ GenerateIndexCollapseMap
std::vector<int> modelCollapse(const std::vector<uint32_t>& L, size_t mapSize) {
	// definition: deleted -> -1, survivors -> 0,1,2,.. in order
	const Marks del(L, mapSize);
	std::vector<int> want(mapSize);
	int next = 0;
	for (size_t i = 0; i < mapSize; i++)
		want[i] = del.has(i) ? -1 : next++;
	return want;
}

template<typename I1, typename I2>
Verdict checkCollapse(Run& run, size_t mapSize, const std::vector<uint32_t>& L) {
	const std::string fn = std::string("GenerateIndexCollapseMap<") + tname<I1>() + "," + tname<I2>() + ">";
	run.cls("inst:" + fn);
	const std::vector<I1> idx = exactIdx<I1>(L);
	const std::vector<int> want = modelCollapse(L, mapSize);
	const std::vector<int> got = nifly::GenerateIndexCollapseMap(idx, static_cast<I2>(mapSize));
	if (firstDiff(want, got) != -1)
		return run.fail("C18:" + fn + ":model-mismatch",
						J().s("function", fn)
							.u("map_size", mapSize)
							.raw("indices", showSeq(L))
							.raw("expected", showSeq(want))
							.raw("got", showSeq(got))
							.n("first_difference_at", firstDiff(want, got))
							.str());
	return OK;
}

// ================================================================ GenerateIndexExpandMap
// N = expanded size, L = deleted positions (entries >= N are out of range), the map has
// s = N - |L within N| entries: entry j is the j-th position that is not deleted.
template<typename I1, typename I2>
Verdict checkExpand(Run& run, size_t N, const std::vector<uint32_t>& L) {
	const std::string fn = std::string("GenerateIndexExpandMap<") + tname<I1>() + "," + tname<I2>() + ">";
	run.cls("inst:" + fn);
	const std::vector<I1> idx = exactIdx<I1>(L);
	const Marks del(L, N);
	std::vector<int> want;
	for (size_t d = 0; d < N; d++)
		if (!del.has(d))
			want.push_back(static_cast<int>(d));
	const size_t s = want.size();
	const std::vector<int> got = nifly::GenerateIndexExpandMap(idx, static_cast<I2>(s));
	if (firstDiff(want, got) != -1)
		return run.fail("C18:" + fn + ":model-mismatch",
						J().s("function", fn)
							.u("map_size", s)
							.raw("indices", showSeq(L))
							.raw("expected", showSeq(want))
							.raw("got", showSeq(got))
							.n("first_difference_at", firstDiff(want, got))
							.str());
	// law: expand is the inverse of collapse on survivors (both from the library)
	const std::vector<int> col = nifly::GenerateIndexCollapseMap(idx, static_cast<I2>(N));
	bool ok = col.size() == N;
	for (size_t j = 0; ok && j < s; j++)
		ok = got[j] >= 0 && static_cast<size_t>(got[j]) < N && col[got[j]] == static_cast<int>(j);
	for (size_t i = 0; ok && i < N; i++)
		if (col[i] >= 0)
			ok = static_cast<size_t>(col[i]) < s && got[col[i]] == static_cast<int>(i);
	if (!ok)
		return run.fail("C18:" + fn + ":not-inverse-of-collapse-map",
						J().s("function", fn).u("expanded_size", N).raw("indices", showSeq(L)).raw("collapse", showSeq(col)).raw("expand", showSeq(got)).str());
	run.cls("law:expand-inverts-collapse");
	return OK;
}

// ================================================================ ApplyMapToTriangles
using Tri3 = std::array<uint16_t, 3>;
std::string showTris(const std::vector<Tri3>& ts, size_t lim = 16) {
	std::string o = "[";
	for (size_t i = 0; i < ts.size() && i < lim; i++)
		o += (i ? ",[" : "[") + std::to_string(ts[i][0]) + "," + std::to_string(ts[i][1]) + "," + std::to_string(ts[i][2]) + "]";
	if (ts.size() > lim)
		o += ",\"...(" + std::to_string(ts.size()) + " total)\"";
	return o + "]";
}
std::vector<Tri3> fromLib(const std::vector<nifly::Triangle>& v) {
	std::vector<Tri3> r(v.size());
	for (size_t i = 0; i < v.size(); i++)
		r[i] = {v[i].p1, v[i].p2, v[i].p3};
	return r;
}

// DMODE 0: deletedTris == nullptr (IndexType2 defaults to int), 1: std::vector<int>, 2: std::vector<uint32_t>
template<typename M, int DMODE>
Verdict checkTriMap(Run& run, const std::vector<int64_t>& mapVals, const std::vector<Tri3>& cs) {
	static const char* const dn[3] = {"nullptr", "vector<int>", "vector<uint32_t>"};
	const std::string fn = std::string("ApplyMapToTriangles<") + tname<M>() + ">";
	run.cls("inst:" + fn);
	run.cls(std::string("deletedTris:") + dn[DMODE]);
	std::vector<M> map(mapVals.size());
	for (size_t i = 0; i < map.size(); i++)
		map[i] = static_cast<M>(mapVals[i]);
	tighten(map);
	std::vector<nifly::Triangle> tris(cs.size());
	for (size_t i = 0; i < cs.size(); i++)
		tris[i] = nifly::Triangle(cs[i][0], cs[i][1], cs[i][2]);
	tighten(tris);

	// naive definition: a triangle survives iff each corner is inside the map and maps to a
	// non-negative value; survivors keep their order with remapped corners; the others are reported
	std::vector<Tri3> want;
	std::vector<int64_t> wantDel;
	for (size_t ti = 0; ti < cs.size(); ti++) {
		bool keep = true;
		for (int c = 0; c < 3; c++)
			if (cs[ti][c] >= map.size() || map[cs[ti][c]] < 0)
				keep = false;
		if (keep)
			want.push_back({static_cast<uint16_t>(map[cs[ti][0]]), static_cast<uint16_t>(map[cs[ti][1]]),
							static_cast<uint16_t>(map[cs[ti][2]])});
		else
			wantDel.push_back(static_cast<int64_t>(ti));
	}

	std::vector<int64_t> gotDel;
	if constexpr (DMODE == 0)
		nifly::ApplyMapToTriangles(tris, map);
	else if constexpr (DMODE == 1) {
		std::vector<int> d;
		nifly::ApplyMapToTriangles(tris, map, &d);
		gotDel.assign(d.begin(), d.end());
	}
	else {
		std::vector<uint32_t> d;
		nifly::ApplyMapToTriangles(tris, map, &d);
		gotDel.assign(d.begin(), d.end());
	}
	const std::vector<Tri3> got = fromLib(tris);
	auto detail = [&]() {
		return J().s("function", fn)
			.s("deleted_tris_argument", dn[DMODE])
			.raw("map", showSeq(mapVals))
			.raw("triangles", showTris(cs))
			.raw("expected", showTris(want))
			.raw("got", showTris(got))
			.raw("expected_deleted", showSeq(wantDel))
			.raw("got_deleted", showSeq(gotDel))
			.str();
	};
	if (got != want)
		return run.fail("C18:" + fn + ":model-mismatch", detail());
	if (DMODE != 0 && gotDel != wantDel)
		return run.fail("C18:" + fn + ":deleted-triangle-list-mismatch", detail());
	if (!wantDel.empty())
		run.cls(want.empty() ? "trimap:all-triangles-deleted" : "trimap:some-triangles-deleted");
	return OK;
}

// ================================================================ ApplyIndexMapToMapKeys
template<typename MapT>
Verdict checkMapKeys(Run& run, const char* mname, const std::vector<int>& indexMap, const std::vector<int>& keys, int off) {
	using K = typename MapT::key_type;
	const std::string fn = std::string("ApplyIndexMapToMapKeys<") + mname + ">";
	run.cls("inst:" + fn);
	MapT m;
	// naive definition: key inside the index map -> dropped if it maps to a negative value,
	// else renamed to the mapped value; key outside the index map -> key + defaultOffset.
	// Two keys renamed to the same value: the definition does not say which wins, any is accepted.
	std::map<K, std::set<uint32_t>> cand;
	bool collision = false;
	for (size_t i = 0; i < keys.size(); i++) {
		const K k = static_cast<K>(keys[i]);
		const uint32_t val = static_cast<uint32_t>(1000 + i);
		m[k] = val;
		const long long kk = k;
		if (kk >= 0 && kk < static_cast<long long>(indexMap.size())) {
			if (indexMap[kk] >= 0) {
				auto& s = cand[static_cast<K>(indexMap[kk])];
				collision |= !s.empty();
				s.insert(val);
			}
		}
		else {
			auto& s = cand[static_cast<K>(kk + off)];
			collision |= !s.empty();
			s.insert(val);
		}
	}
	const size_t before = m.size();

	nifly::ApplyIndexMapToMapKeys(m, indexMap, off);

	bool ok = m.size() == cand.size();
	for (auto& kv : m) {
		auto it = cand.find(kv.first);
		if (it == cand.end() || !it->second.count(kv.second))
			ok = false;
	}
	if (!ok) {
		std::map<long long, uint32_t> sorted(m.begin(), m.end());
		std::string g = "{", e = "{";
		for (auto& kv : sorted)
			g += (g.size() > 1 ? "," : "") + jstr(std::to_string(kv.first)) + ":" + std::to_string(kv.second);
		for (auto& kv : cand)
			e += (e.size() > 1 ? "," : "") + jstr(std::to_string(static_cast<long long>(kv.first))) + ":" + showSeq(kv.second);
		return run.fail("C18:" + fn + ":model-mismatch",
						J().s("function", fn)
							.raw("index_map", showSeq(indexMap))
							.raw("keys_in_insertion_order_values_1000_plus_position", showSeq(keys))
							.n("default_offset", off)
							.raw("expected_key_to_allowed_values", e + "}")
							.raw("got", g + "}")
							.str());
	}
	if (collision)
		run.cls("mapkeys:colliding-new-keys");
	if (m.size() < before)
		run.cls("mapkeys:some-keys-deleted");
	return OK;
}

// ================================================================ GenerateTrianglesFromStrips
bool sameUpToRotation(const Tri3& a, const Tri3& b) {
	return a == b || (a[0] == b[1] && a[1] == b[2] && a[2] == b[0]) || (a[0] == b[2] && a[1] == b[0] && a[2] == b[1]);
}

Verdict checkStrips(Run& run, const std::vector<std::vector<uint16_t>>& in) {
	const std::string fn = "GenerateTrianglesFromStrips<uint16_t>";
	run.cls("inst:" + fn);
	std::vector<std::vector<uint16_t>> strips(in.size());
	for (size_t i = 0; i < in.size(); i++) {
		strips[i] = std::vector<uint16_t>(in[i].begin(), in[i].end());
		tighten(strips[i]);
	}
	tighten(strips);

	// Definition (property statement): the t-th window (p[t],p[t+1],p[t+2]) of each strip is a
	// triangle unless two of its corners coincide (degenerate); windows at even t keep the
	// orientation (a,b,c), windows at odd t have it reversed (a,c,b); parity restarts per strip
	// and is not reset by skipped degenerate windows. A triangle is an oriented cycle, so the
	// verdict compares up to cyclic rotation of the corners; whether the library also uses the
	// same first corner as this model is only counted (class strips:corner-order-*).
	std::vector<Tri3> want;
	for (auto& p : in)
		for (size_t t = 0; t + 2 < p.size(); t++) {
			const uint16_t a = p[t], b = p[t + 1], c = p[t + 2];
			if (a == b || b == c || a == c)
				continue;
			want.push_back(t % 2 == 0 ? Tri3{a, b, c} : Tri3{a, c, b});
		}

	const std::vector<Tri3> got = fromLib(nifly::GenerateTrianglesFromStrips(strips));

	bool ok = got.size() == want.size();
	bool exact = ok;
	for (size_t i = 0; ok && i < got.size(); i++) {
		if (!sameUpToRotation(got[i], want[i]))
			ok = false;
		if (got[i] != want[i])
			exact = false;
	}
	if (!ok) {
		std::string s = "[";
		for (size_t i = 0; i < in.size() && i < 8; i++)
			s += (i ? "," : "") + showSeq(in[i]);
		return run.fail("C18:" + fn + ":model-mismatch",
						J().s("function", fn).raw("strips", s + "]").raw("expected_up_to_rotation", showTris(want)).raw("got", showTris(got)).str());
	}
	if (!want.empty())
		run.cls(exact ? "strips:corner-order-identical-to-model" : "strips:corner-order-rotated-vs-model");

	// ---- the users of the template hand on the same triangles
	auto sameAsWant = [&](const std::vector<Tri3>& g) {
		if (g.size() != want.size())
			return false;
		for (size_t i = 0; i < g.size(); i++)
			if (!sameUpToRotation(g[i], want[i]))
				return false;
		return true;
	};
	auto userFail = [&](const std::string& user, const std::vector<Tri3>& g) {
		std::string s = "[";
		for (size_t i = 0; i < in.size() && i < 8; i++)
			s += (i ? "," : "") + showSeq(in[i]);
		return run.fail("C18:" + user + ":model-mismatch", J().s("function", user).raw("strips", s + "]").raw("expected_up_to_rotation", showTris(want)).raw("got", showTris(g)).str());
	};
	{
		nifly::NiTriStripsData d;
		d.stripsInfo.points = in;
		std::vector<nifly::Triangle> tr;
		d.GetTriangles(tr);
		run.cls("inst:NiTriStripsData::GetTriangles");
		if (!sameAsWant(fromLib(tr)) || d.GetNumTriangles() != want.size())
			return userFail("NiTriStripsData::GetTriangles", fromLib(tr));
	}
	if (want.size() <= 65535) {
		nifly::NiSkinPartition::PartitionBlock pb;
		pb.numStrips = static_cast<uint16_t>(in.size());
		pb.strips = in;
		bool conv = pb.ConvertStripsToTriangles();
		run.cls("inst:PartitionBlock::ConvertStripsToTriangles");
		if (conv != !in.empty())
			return userFail("PartitionBlock::ConvertStripsToTriangles(return)", fromLib(pb.triangles));
		if (conv && (!sameAsWant(fromLib(pb.triangles)) || pb.numTriangles != want.size() || pb.numStrips != 0 || !pb.strips.empty()))
			return userFail("PartitionBlock::ConvertStripsToTriangles", fromLib(pb.triangles));
	}
	static uint32_t every = 0;
	if (!want.empty() && (every++ % 4) == 0) {
		// NifFile::TriangulateShape on a model holding these strips
		uint16_t maxIdx = 0;
		for (auto& p : in)
			for (auto v : p)
				maxIdx = std::max(maxIdx, v);
		nifly::NifFile nif;
		nif.Create(nifly::NiVersion::getFO3());
		auto& hdr = nif.GetHeader();
		auto data = std::make_unique<nifly::NiTriStripsData>();
		{
			std::vector<nifly::Vector3> verts(static_cast<size_t>(maxIdx) + 1);
			data->NiGeometryData::Create(hdr.GetVersion(), &verts, nullptr, nullptr, nullptr);
		}
		data->stripsInfo.points = in;
		for (auto& p : in) {
			uint16_t len = static_cast<uint16_t>(p.size());
			data->stripsInfo.stripLengths.push_back(len);
		}
		auto shape = std::make_unique<nifly::NiTriStrips>();
		shape->name.get() = "strips";
		shape->SetGeomData(data.get());
		shape->DataRef()->index = hdr.AddBlock(std::move(data));
		auto shapePtr = shape.get();
		nif.GetRootNode()->childRefs.AddBlockRef(hdr.AddBlock(std::move(shape)));
		nif.TriangulateShape(shapePtr);
		run.cls("inst:NifFile::TriangulateShape");
		auto shapes = nif.GetShapes();
		std::vector<nifly::Triangle> tr;
		if (shapes.size() == 1)
			shapes[0]->GetTriangles(tr);
		if (shapes.size() != 1 || !shapes[0]->HasType<nifly::NiTriShape>() || !sameAsWant(fromLib(tr)))
			return userFail("NifFile::TriangulateShape", fromLib(tr));
	}
	return OK;
}

// ================================================================ the property: tape -> case
// Tape grammar (every enumerated tape uses exactly these fields with literal small bytes):
//   byte 0   utility (b % 7)            byte 1   variant (index type / container / map type)
//   erase    size n, salt, slack(b&3: list may reach n+slack), list
//   insert   final size N, salt, oor(b&3==3: append entry N+1+((b>>2)%3)), list over [0,N)
//   collapse mapSize, slack, list       expand   expanded size N, slack, list
//   trimap   V, map (see decodeIntMap), cornerSlack(b%3), T, [salt if T>40], corners
//   mapkeys  M, map, extra(b&3), flags, offset byte, key list over [0,M+extra)
//   strips   S(b%6), per strip: length byte, points over the alphabet chosen by the variant
template<typename C>
Verdict eraseByType(Run& run, unsigned it, const char* kind, size_t n, const std::vector<uint32_t>& L, uint32_t salt) {
	switch (it) {
		case 0: return checkErase<C, uint16_t>(run, kind, n, L, salt);
		case 1: return checkErase<C, uint32_t>(run, kind, n, L, salt);
		case 2: return checkErase<C, int>(run, kind, n, L, salt);
		default: return checkErase<C, size_t>(run, kind, n, L, salt);
	}
}
template<typename C>
Verdict insertByType(Run& run, unsigned it, const char* kind, size_t N, const std::vector<uint32_t>& L, unsigned oor, uint32_t salt) {
	switch (it) {
		case 0: return checkInsert<C, uint16_t>(run, kind, N, L, oor, salt);
		case 1: return checkInsert<C, uint32_t>(run, kind, N, L, oor, salt);
		case 2: return checkInsert<C, int>(run, kind, N, L, oor, salt);
		default: return checkInsert<C, size_t>(run, kind, N, L, oor, salt);
	}
}
const char* const kIdxName[4] = {"uint16_t", "uint32_t", "int", "size_t"};
// (list type, map-size type) pairs: the first four are the ones /repo's callers instantiate
const char* const kPairName[5] = {"uint16_t,uint16_t", "uint16_t,size_t", "uint32_t,size_t", "uint32_t,uint32_t", "int,int"};

// Samples: each shard records the first non-trivial case of two utilities chosen by its shard
// number, so that the merged evidence shows every utility (not only the first enumerated one).
bool wantSampleFor(const Run& run, Util u, bool nontrivial) {
	return nontrivial && run.samples.size() < run.sampleLimit
		   && u == (static_cast<size_t>(run.args.shard) * 2 + run.samples.size()) % U_COUNT;
}
void sampleList(Run& run, Util u, const std::string& type, size_t n, const std::vector<uint32_t>& L) {
	if (!wantSampleFor(run, u, n && !L.empty()))
		return;
	std::vector<uint32_t> head(L.begin(), L.begin() + std::min<size_t>(L.size(), 12));
	run.sample(J().s("utility", kUtilName[u]).s("types", type).u("size", n).u("list_length", L.size()).raw("list_head", jarr_num(head)).str());
}

Verdict prop(Tape& t, Run& run) {
	const Util u = static_cast<Util>(t.u8() % U_COUNT);
	const uint8_t var = t.u8();
	run.cls(std::string("util:") + kUtilName[u]);
	uint64_t h = hash_mix(fnv1a("C18"), static_cast<uint8_t>(u));

	switch (u) {
		case U_ERASE: {
			const unsigned it = var & 3, kind = (var >> 2) % 3;
			size_t maxN = it == 0 ? 65535 : 70000;
			if (kind == 1)
				maxN = 4096;
			const size_t n = decodeSize(t, maxN);
			const uint32_t salt = t.u8();
			const unsigned slack = t.u8() & 3;
			const uint64_t limit = std::min<uint64_t>(n + slack, it == 0 ? 65536 : 1u << 30);
			const std::vector<uint32_t> L = decodeList(t, limit);
			noteSize(run, n);
			noteList(run, L, n);
			h = hashList(hash_mix(hash_mix(hash_mix(h, var % 12), n), salt), L);
			if (n && !L.empty())
				run.nontriv(h);
			sampleList(run, u, kIdxName[it], n, L);
			switch (kind) {
				case 0: return eraseByType<std::vector<uint32_t>>(run, it, "std::vector<uint32_t>", n, L, salt);
				case 1: return eraseByType<std::vector<std::string>>(run, it, "std::vector<std::string>", n, L, salt);
				default: return eraseByType<std::deque<bool>>(run, it, "std::deque<bool>", n, L, salt);
			}
		}
		case U_INSERT: {
			const unsigned it = var & 3, kind = (var >> 2) % 2;
			size_t maxN = it == 0 ? 65535 : 70000;
			if (kind == 1)
				maxN = 4096;
			const size_t N = decodeSize(t, maxN);
			const uint32_t salt = t.u8();
			const uint8_t ob = t.u8();
			unsigned oor = (ob & 3) == 3 ? 1 + ((ob >> 2) % 3) : 0;
			if (it == 0 && N + oor > 65535)
				oor = 0;
			const std::vector<uint32_t> L = decodeList(t, N);
			noteSize(run, N - L.size());
			noteList(run, L, N);
			h = hashList(hash_mix(hash_mix(hash_mix(hash_mix(h, var % 8), N), salt), oor), L);
			if (N - L.size() > 0 && !L.empty())
				run.nontriv(h);
			sampleList(run, u, kIdxName[it], N - L.size(), L);
			if (kind == 0)
				return insertByType<std::vector<uint32_t>>(run, it, "std::vector<uint32_t>", N, L, oor, salt);
			return insertByType<std::vector<std::string>>(run, it, "std::vector<std::string>", N, L, oor, salt);
		}
		case U_COLLAPSE:
		case U_EXPAND: {
			const unsigned pair = var % 5;
			const bool size16 = pair == 0, list16 = pair <= 1;
			const size_t n = decodeSize(t, size16 ? 65535 : 70000);
			const unsigned slack = t.u8() & 3;
			const uint64_t limit = std::min<uint64_t>(n + slack, list16 ? 65536 : 1u << 30);
			const std::vector<uint32_t> L = decodeList(t, limit);
			noteSize(run, n);
			noteList(run, L, n);
			h = hashList(hash_mix(hash_mix(h, pair), n), L);
			if (n && !L.empty())
				run.nontriv(h);
			sampleList(run, u, kPairName[pair], n, L);
			if (u == U_COLLAPSE)
				switch (pair) {
					case 0: return checkCollapse<uint16_t, uint16_t>(run, n, L);
					case 1: return checkCollapse<uint16_t, size_t>(run, n, L);
					case 2: return checkCollapse<uint32_t, size_t>(run, n, L);
					case 3: return checkCollapse<uint32_t, uint32_t>(run, n, L);
					default: return checkCollapse<int, int>(run, n, L);
				}
			switch (pair) {
				case 0: return checkExpand<uint16_t, uint16_t>(run, n, L);
				case 1: return checkExpand<uint16_t, size_t>(run, n, L);
				case 2: return checkExpand<uint32_t, size_t>(run, n, L);
				case 3: return checkExpand<uint32_t, uint32_t>(run, n, L);
				default: return checkExpand<int, int>(run, n, L);
			}
		}
		case U_TRIMAP: {
			const bool u16map = (var & 1) != 0;
			const unsigned dmode = (var >> 1) % 3;
			const size_t V = decodeSize(t, 65536);
			const std::vector<int64_t> mapVals = decodeIntMap(t, V, u16map);
			const unsigned cslack = t.u8() % 3;
			size_t climit = std::min<size_t>(V + cslack, 65536);
			if (climit == 0)
				climit = 1; // corner 0, out of range of the empty map
			const size_t T = decodeSize(t, 3000);
			std::vector<Tri3> cs(T);
			if (T <= 40) {
				for (auto& c : cs)
					for (int k = 0; k < 3; k++)
						c[k] = static_cast<uint16_t>((climit <= 256 ? t.u8() : t.u16()) % climit);
			}
			else {
				const uint32_t salt = t.u8();
				for (size_t i = 0; i < T; i++)
					for (int k = 0; k < 3; k++)
						cs[i][k] = static_cast<uint16_t>(mix(i * 3 + k, salt) % climit);
			}
			noteSize(run, V);
			run.cls(T == 0 ? "triangles:0" : T <= 3 ? "triangles:1..3" : T <= 40 ? "triangles:4..40" : "triangles:>40");
			h = hash_mix(hash_mix(h, var % 6), V);
			if (V)
				h = fnv1a(mapVals.data(), V * sizeof(int64_t), h);
			if (T)
				h = fnv1a(cs.data(), T * sizeof(Tri3), h);
			if (V && T)
				run.nontriv(h);
			if (wantSampleFor(run, u, V && T))
				run.sample(J().s("utility", kUtilName[u]).s("map_type", u16map ? "uint16_t" : "int").u("map_size", V).raw("map_head", showSeq(mapVals, 10)).raw("triangles", showTris(cs, 4)).str());
			if (u16map)
				switch (dmode) {
					case 0: return checkTriMap<uint16_t, 0>(run, mapVals, cs);
					case 1: return checkTriMap<uint16_t, 1>(run, mapVals, cs);
					default: return checkTriMap<uint16_t, 2>(run, mapVals, cs);
				}
			switch (dmode) {
				case 0: return checkTriMap<int, 0>(run, mapVals, cs);
				case 1: return checkTriMap<int, 1>(run, mapVals, cs);
				default: return checkTriMap<int, 2>(run, mapVals, cs);
			}
		}
		case U_MAPKEYS: {
			const unsigned mt = var % 4;
			const bool key16 = mt == 0 || mt == 3;
			const size_t M = decodeSize(t, 5000);
			size_t deleted = 0;
			const std::vector<int64_t> mv = decodeIntMap(t, M, false, &deleted);
			std::vector<int> indexMap(mv.begin(), mv.end());
			tighten(indexMap);
			const unsigned extra = t.u8() & 3;
			const uint8_t flags = t.u8();
			const uint8_t ob = t.u8();
			// 0x80 = the usual caller idiom "shift keys beyond the map down by the number of deleted indices"
			const int off = ob == 0x80 ? -static_cast<int>(deleted) : static_cast<int8_t>(ob);
			const std::vector<uint32_t> KL = decodeList(t, M + extra);
			std::vector<int> keys(KL.begin(), KL.end());
			if (flags & 1)
				keys.push_back(key16 ? 65535 : -1);
			if (flags & 2)
				keys.push_back(key16 ? 65534 : -2);
			noteSize(run, M);
			run.cls(keys.empty() ? "keys:0" : keys.size() <= 4 ? "keys:1..4" : "keys:>4");
			h = hash_mix(hash_mix(hash_mix(h, mt), M), off);
			if (M)
				h = fnv1a(indexMap.data(), M * sizeof(int), h);
			if (!keys.empty())
				h = fnv1a(keys.data(), keys.size() * sizeof(int), h);
			if (M && !keys.empty())
				run.nontriv(h);
			if (wantSampleFor(run, u, M && !keys.empty()))
				run.sample(J().s("utility", kUtilName[u]).u("index_map_size", M).raw("index_map_head", showSeq(indexMap, 10)).raw("keys_head", showSeq(keys, 10)).n("default_offset", off).str());
			switch (mt) {
				case 0: return checkMapKeys<std::unordered_map<uint16_t, uint32_t>>(run, "std::unordered_map<uint16_t,V>", indexMap, keys, off);
				case 1: return checkMapKeys<std::unordered_map<int, uint32_t>>(run, "std::unordered_map<int,V>", indexMap, keys, off);
				case 2: return checkMapKeys<std::map<int, uint32_t>>(run, "std::map<int,V>", indexMap, keys, off);
				default: return checkMapKeys<std::map<uint16_t, uint32_t>>(run, "std::map<uint16_t,V>", indexMap, keys, off);
			}
		}
		default: { // U_STRIPS
			static const uint32_t alpha[4] = {4, 3, 16, 65536};
			const uint32_t A = alpha[var & 3];
			const unsigned S = t.u8() % 6;
			std::vector<std::vector<uint16_t>> strips(S);
			size_t total = 0, windows = 0;
			for (auto& s : strips) {
				const uint8_t lb = t.u8();
				if (lb >= 0xFC) { // long strip, points from a hash
					const size_t len = t.u16();
					const uint32_t salt = t.u8();
					s.resize(len);
					for (size_t i = 0; i < len; i++)
						s[i] = static_cast<uint16_t>(mix(i, salt) % A);
				}
				else {
					const size_t len = lb < 0xE0 ? lb % 12 : 12 + (lb & 31) * 4;
					s.resize(len);
					for (auto& p : s)
						p = static_cast<uint16_t>((A <= 256 ? t.u8() : t.u16()) % A);
				}
				total += s.size();
				if (s.size() >= 3)
					windows += s.size() - 2;
			}
			run.cls(S == 0 ? "strips:0" : S == 1 ? "strips:1" : "strips:2..5");
			run.cls(total <= 16 ? "size:0..16" : total <= 400 ? "size:17..400" : "size:>400");
			run.cls("alphabet:" + std::to_string(A));
			h = hash_mix(hash_mix(h, A), S);
			for (auto& s : strips) {
				h = hash_mix(h, s.size());
				if (!s.empty())
					h = fnv1a(s.data(), s.size() * 2, h);
			}
			if (windows)
				run.nontriv(h);
			if (wantSampleFor(run, u, windows != 0)) {
				std::string o = "[";
				for (size_t i = 0; i < strips.size(); i++)
					o += (i ? "," : "") + showSeq(strips[i], 12);
				run.sample(J().s("utility", kUtilName[u]).u("alphabet", A).raw("strips", o + "]").str());
			}
			return checkStrips(run, strips);
		}
	}
}

// ================================================================ bounded exhaustive enumeration
using Feed = std::function<void(const std::vector<uint8_t>&)>;

void pushMask(std::vector<uint8_t>& tp, uint64_t mask, unsigned limit) {
	if (limit == 0)
		return; // decodeList returns right after the mode byte
	for (unsigned by = 0; by < (limit + 7) / 8; by++)
		tp.push_back(static_cast<uint8_t>(mask >> (8 * by)));
}

// all lists of exactly T triangles drawn from pool, times all collapse maps over V vertices
void enumTriMaps(const Feed& feed, unsigned V, unsigned cslack, const std::vector<Tri3>& pool, unsigned T, unsigned& rot) {
	std::vector<size_t> od(T, 0);
	std::vector<uint8_t> tp;
	while (true) {
		for (uint64_t mask = 0; mask < (1ull << V); mask++) {
			tp.assign({static_cast<uint8_t>(U_TRIMAP), static_cast<uint8_t>(mix(rot++, 17) % 6), static_cast<uint8_t>(V), 0 /*collapse map*/, 0 /*bitmask list*/});
			pushMask(tp, mask, V);
			tp.push_back(static_cast<uint8_t>(cslack));
			tp.push_back(static_cast<uint8_t>(T));
			for (unsigned i = 0; i < T; i++)
				for (int k = 0; k < 3; k++)
					tp.push_back(static_cast<uint8_t>(pool[od[i]][k]));
			feed(tp);
		}
		unsigned d = 0;
		while (d < T && ++od[d] == pool.size())
			od[d++] = 0;
		if (d == T)
			break;
	}
}
std::vector<Tri3> triPool(unsigned alphabet, bool nonDegenerateOnly) {
	std::vector<Tri3> pool;
	for (uint16_t a = 0; a < alphabet; a++)
		for (uint16_t b = 0; b < alphabet; b++)
			for (uint16_t c = 0; c < alphabet; c++)
				if (!nonDegenerateOnly || (a != b && b != c && a != c))
					pool.push_back({a, b, c});
	return pool;
}

void enumStrips(const Feed& feed, const std::vector<unsigned>& lens) {
	// all assignments of {0..3} to the points of strips with the given lengths
	unsigned total = 0;
	for (auto l : lens)
		total += l;
	std::vector<uint8_t> tp;
	for (uint64_t code = 0; code < (1ull << (2 * total)); code++) {
		tp.assign({static_cast<uint8_t>(U_STRIPS), 0 /*alphabet 4*/, static_cast<uint8_t>(lens.size())});
		uint64_t c = code;
		for (auto l : lens) {
			tp.push_back(static_cast<uint8_t>(l));
			for (unsigned i = 0; i < l; i++, c >>= 2)
				tp.push_back(static_cast<uint8_t>(c & 3));
		}
		feed(tp);
	}
}

void deterministic(Run& run, const Feed& feed) {
	const bool thorough = run.args.tier == "thorough";
	std::vector<uint8_t> tp;

	// erase: all lengths <= 6 (7) x all sorted lists over [0, n+2) (two past the end) x 4 index types x 3 containers
	const unsigned maxErase = thorough ? 7 : 6;
	for (unsigned it = 0; it < 4; it++)
		for (unsigned kind = 0; kind < 3; kind++)
			for (unsigned n = 0; n <= maxErase; n++)
				for (uint64_t mask = 0; mask < (1ull << (n + 2)); mask++) {
					tp.assign({static_cast<uint8_t>(U_ERASE), static_cast<uint8_t>(it | (kind << 2)), static_cast<uint8_t>(n), 0, 2, 0});
					pushMask(tp, mask, n + 2);
					feed(tp);
				}

	// insert: all final sizes N <= 10 (12) x all slot sets (=> every vector of length <= 6 (7) with every
	// valid list of up to 4 (5) slots) x {valid, rejected list ending at N+1, N+2} x 4 index types x 2 containers
	const unsigned maxInsert = thorough ? 12 : 10;
	for (unsigned it = 0; it < 4; it++)
		for (unsigned kind = 0; kind < 2; kind++)
			for (unsigned N = 0; N <= maxInsert; N++)
				for (uint64_t mask = 0; mask < (1ull << N); mask++)
					for (uint8_t oor : {0, 3, 7}) {
						tp.assign({static_cast<uint8_t>(U_INSERT), static_cast<uint8_t>(it | (kind << 2)), static_cast<uint8_t>(N), 0, oor, 0});
						pushMask(tp, mask, N);
						feed(tp);
					}

	// collapse / expand maps: sizes <= 8 (10) x all lists over [0, size+2) x 5 type pairs
	const unsigned maxMap = thorough ? 10 : 8;
	for (uint8_t u : {static_cast<uint8_t>(U_COLLAPSE), static_cast<uint8_t>(U_EXPAND)})
		for (unsigned pair = 0; pair < 5; pair++)
			for (unsigned n = 0; n <= maxMap; n++)
				for (uint64_t mask = 0; mask < (1ull << (n + 2)); mask++) {
					tp.assign({u, static_cast<uint8_t>(pair), static_cast<uint8_t>(n), 2, 0});
					pushMask(tp, mask, n + 2);
					feed(tp);
				}

	// ApplyMapToTriangles, all collapse maps, one of the 6 (map type, deletedTris) variants per case, chosen by a
	// hash of the case number (a plain rotation would alias with the 2^V maps and the 16 shards):
	//  A: V<=4, corners over {0..V} (one value outside the map), all lists of <= 2 triangles
	//  B: V<=3, corners in range, all lists of exactly 3 triangles
	//  C: V=4, lists of exactly 3 triangles: distinct-corner triangles (quick) / all 64 (thorough)
	unsigned rot = 0;
	for (unsigned V = 0; V <= 4; V++)
		for (unsigned T = 0; T <= 2; T++)
			enumTriMaps(feed, V, 1, triPool(V + 1, false), T, rot);
	for (unsigned V = 1; V <= 3; V++)
		enumTriMaps(feed, V, 0, triPool(V, false), 3, rot);
	enumTriMaps(feed, 4, 0, triPool(4, !thorough), 3, rot);

	// ApplyIndexMapToMapKeys: index maps = all collapse maps of size <= 4 (5), all key sets over
	// [0, M+2), offsets {0, +1, -(deleted count)}, 4 map types
	const unsigned maxKeys = thorough ? 5 : 4;
	for (unsigned mt = 0; mt < 4; mt++)
		for (unsigned M = 0; M <= maxKeys; M++)
			for (uint64_t dm = 0; dm < (1ull << M); dm++)
				for (uint64_t km = 0; km < (1ull << (M + 2)); km++)
					for (uint8_t ob : {0x00, 0x01, 0x80}) {
						tp.assign({static_cast<uint8_t>(U_MAPKEYS), static_cast<uint8_t>(mt), static_cast<uint8_t>(M), 0, 0});
						pushMask(tp, dm, M);
						tp.insert(tp.end(), {2, 0, ob, 0});
						pushMask(tp, km, M + 2);
						feed(tp);
					}

	// strips over {0..3}: every single strip of length <= 7 (9); every pair of strips with total length <= 6 (7)
	const unsigned maxStrip = thorough ? 9 : 7;
	const unsigned maxPair = thorough ? 7 : 6;
	enumStrips(feed, {});
	for (unsigned l = 0; l <= maxStrip; l++)
		enumStrips(feed, {l});
	for (unsigned tot = 0; tot <= maxPair; tot++)
		for (unsigned a = 0; a <= tot; a++)
			enumStrips(feed, {a, tot - a});
}

} // namespace

int main(int argc, char** argv) {
	Harness h{};
	h.id = "C18";
	h.prop = prop;
	h.deterministic = deterministic;
	h.maxTape = 400;
	h.quickCases = 300000;
	h.thoroughCases = 5000000;
	h.rule = "case = (utility, index/container type variant, container size, sorted unique index list | index map + "
			 "triangles | key set | strips), all decoded from the tape; each utility is compared with a naive model of "
			 "its definition plus the laws erase/insert round trip and expand = inverse of collapse; input vectors have "
			 "size()==capacity() under ASan. Enumerated part (quick/thorough): erase = all lengths <= 6/7 x all lists over "
			 "[0,n+2) x {uint16_t,uint32_t,int,size_t} x {vector<uint32_t>,vector<string>,deque<bool>}; insert = all final "
			 "sizes <= 10/12 x all slot sets x {valid, 2 rejected out-of-range lists} x 4 index types x 2 containers; "
			 "collapse and expand maps = sizes <= 8/10 x all lists over [0,n+2) x 5 type pairs; ApplyMapToTriangles = all "
			 "collapse maps x (V<=4: all lists of <=2 triangles over {0..V}; V<=3: all lists of 3 triangles; V=4: all lists "
			 "of 3 distinct-corner/all triangles), one of 6 (map type, deletedTris) variants per case by hash; ApplyIndexMapToMapKeys "
			 "= all collapse maps of size <= 4/5 x all key sets over [0,M+2) x 3 offsets x 4 map types; strips = all single "
			 "strips over {0..3} of length <= 7/9 and all strip pairs of total length <= 6/7. Random part: rapidcheck tapes, "
			 "sizes mostly <= 19, sometimes <= 400, <= 70000 or at the type maximum (65535 for 16-bit instantiations), lists "
			 "built as bitmask / gaps / periodic runs / complement of gaps, arbitrary index maps incl. negatives and "
			 "out-of-range corners and keys. Non-trivial = container (map, triangle list, key set) and index list both "
			 "non-empty (strips: at least one 3-point window); distinct = fnv1a(utility, variant, sizes, decoded inputs).";
	return harnessMain(argc, argv, h);
}
