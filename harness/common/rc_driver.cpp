// The only translation unit that includes rapidcheck. It generates and shrinks
// choice tapes and hands them to a property function through a C interface, so
// harness TUs compile without the rapidcheck headers and no std:: container ever
// crosses between the (uninstrumented) rapidcheck library and sanitised code.
// Configuration comes only from RC_PARAMS (seed=, max_success=, max_size=, reproduce=).
#include <rapidcheck.h>

#include <cstdint>
#include <cstdio>
#include <vector>

extern "C" {
typedef int (*vf_prop_fn)(const uint8_t* tape, size_t n, void* ctx); // 0 ok, 1 fail, 2 discard

// returns 1 if the property held for all generated tapes, 0 if falsified
int vf_rc_check(const char* name, vf_prop_fn fn, void* ctx, unsigned maxLen) {
	using namespace rc;
	if (maxLen < 8)
		maxLen = 8;
	// length classes scale with the harness's maximum: short tapes give minimal cases and cheap
	// shrinking, long ones let geometry-heavy decoders reach their later choices
	auto cap = [&](unsigned v) { return v < maxLen ? v : maxLen; };
	const unsigned l1 = cap(maxLen / 64 > 24 ? maxLen / 64 : 24);
	const unsigned l2 = cap(maxLen / 12 > 96 ? maxLen / 12 : 96);
	const unsigned l3 = cap(maxLen / 3 > 400 ? maxLen / 3 : 400);
	auto lenGen = gen::mapcat(gen::resize(100, gen::inRange<unsigned>(0, 100)), [=](unsigned cat) {
		unsigned hi = cat < 20 ? l1 : cat < 50 ? l2 : cat < 80 ? l3 : maxLen;
		return gen::resize(100, gen::inRange<unsigned>(0, hi + 1));
	});
	auto tapeGen = gen::mapcat(lenGen, [](unsigned n) {
		return gen::container<std::vector<uint8_t>>(n, gen::resize(100, gen::arbitrary<uint8_t>()));
	});
	bool ok = rc::check(name, [&]() {
		std::vector<uint8_t> tape = *tapeGen;
		int r = fn(tape.data(), tape.size(), ctx);
		if (r == 2)
			RC_DISCARD("precondition");
		RC_ASSERT(r == 0);
	});
	return ok ? 1 : 0;
}
}
