// The only translation unit that includes rapidcheck. It generates and shrinks
// choice tapes and hands them to a property function through a C interface, so
// harness TUs compile without the rapidcheck headers and no std:: container ever
// crosses between the (uninstrumented) rapidcheck library and sanitised code.
// Configuration comes only from RC_PARAMS (seed=, max_success=, max_size=, reproduce=).
#include <rapidcheck.h>

#include <cstdint>
#include <cstdio>
#include <vector>

extern "C" {
typedef int (*vf_prop_fn)(const uint8_t* tape, size_t n, void* ctx); // 0 ok, 1 fail, 2 discard

// returns 1 if the property held for all generated tapes, 0 if falsified
int vf_rc_check(const char* name, vf_prop_fn fn, void* ctx, unsigned maxLen) {
	using namespace rc;
	if (maxLen < 8)
		maxLen = 8;
	const unsigned l1 = maxLen < 24 ? maxLen : 24;
	const unsigned l2 = maxLen < 96 ? maxLen : 96;
	const unsigned l3 = maxLen < 400 ? maxLen : 400;
	auto lenGen = gen::mapcat(gen::resize(100, gen::inRange<unsigned>(0, 100)), [=](unsigned cat) {
		unsigned hi = cat < 35 ? l1 : cat < 65 ? l2 : cat < 90 ? l3 : maxLen;
		return gen::resize(100, gen::inRange<unsigned>(0, hi + 1));
	});
	auto tapeGen = gen::mapcat(lenGen, [](unsigned n) {
		return gen::container<std::vector<uint8_t>>(n, gen::resize(100, gen::arbitrary<uint8_t>()));
	});
	bool ok = rc::check(name, [&]() {
		std::vector<uint8_t> tape = *tapeGen;
		int r = fn(tape.data(), tape.size(), ctx);
		if (r == 2)
			RC_DISCARD("precondition");
		RC_ASSERT(r == 0);
	});
	return ok ? 1 : 0;
}
}
