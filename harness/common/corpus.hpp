// Sample corpus access (no nifly dependency): read-only vendored copies of the 26 sample files.
#pragma once
#include <dirent.h>

#include <algorithm>
#include <fstream>
#include <sstream>
#include <string>
#include <vector>

namespace vf {

struct CorpusFile {
	std::string name;
	std::string bytes;
};

inline const std::vector<CorpusFile>& corpus(const std::string& dir = "/verif/corpus") {
	static std::vector<CorpusFile> files;
	static bool loaded = false;
	if (!loaded) {
		loaded = true;
		std::vector<std::string> names;
		if (DIR* d = opendir(dir.c_str())) {
			while (auto e = readdir(d)) {
				std::string n = e->d_name;
				if (n.size() > 4 && n.substr(n.size() - 4) == ".nif")
					names.push_back(n);
			}
			closedir(d);
		}
		std::sort(names.begin(), names.end());
		for (auto& n : names) {
			std::ifstream f(dir + "/" + n, std::ios::binary);
			std::stringstream ss;
			ss << f.rdbuf();
			std::string shortName = n;
			if (shortName.rfind("TestNifFile_", 0) == 0)
				shortName = shortName.substr(12);
			shortName = shortName.substr(0, shortName.size() - 4);
			files.push_back({shortName, ss.str()});
		}
	}
	return files;
}

} // namespace vf
