// Engine G: models built through the public API from tape-decoded parameters.
#pragma once
#include "nifx.hpp"
#include "tape.hpp"

#include "Animation.hpp"
#include "ExtraData.hpp"
#include "bhk.hpp"

#include <cmath>
#include <set>
#include <unordered_map>

namespace vf {

struct Mesh {
	std::vector<nifly::Vector3> verts;
	std::vector<nifly::Triangle> tris;
	std::vector<nifly::Vector2> uvs;
	std::vector<nifly::Vector3> norms;
	bool hasUnusedVerts = false;
};

struct MeshOpts {
	uint32_t maxVerts = 300;
	uint32_t maxTris = 500;
	uint32_t minTris = 0; // lower bound on the number of triangle draws (duplicates are dropped)
	bool allowLimits = false;	  // 65534 / 65535 vertices
	bool allowUnusedVerts = true; // vertices no triangle uses
	bool alwaysNormals = false;
	bool alwaysUvs = true;
	float coordRange = 512.0f;
	bool allowDegenerate = false; // keep triangles with a repeated index (in range, so structurally valid)
	// every fifth mesh or so (decided by the triangle count, no tape read) lists one of its triangles twice
	bool duplicateTriangleSometimes = false;
};

inline uint64_t triKey(const nifly::Triangle& t) {
	// canonical rotation: smallest index first, orientation kept
	uint16_t a = t.p1, b = t.p2, c = t.p3;
	if (b < a && b <= c) {
		uint16_t x = a;
		a = b;
		b = c;
		c = x;
	}
	else if (c < a && c < b) {
		uint16_t x = c;
		c = b;
		b = a;
		a = x;
	}
	return (static_cast<uint64_t>(a) << 32) | (static_cast<uint64_t>(b) << 16) | c;
}

inline Mesh genMesh(Tape& t, const MeshOpts& o) {
	Mesh m;
	uint32_t nv;
	uint8_t cls = t.u8();
	if (cls < 0x10)
		nv = 1 + cls % 3; // 1..3
	else if (cls < 0xB0)
		nv = 3 + t.range(0, 37); // small
	else if (cls < 0xF8 || !o.allowLimits)
		nv = 3 + t.range(0, o.maxVerts > 3 ? o.maxVerts - 3 : 0);
	else
		nv = (cls & 1) ? 65535u : 65534u;
	m.verts.resize(nv);
	// coordinates on a 1/8 grid so that half precision can represent them for small ranges
	for (auto& v : m.verts) {
		v.x = static_cast<float>(static_cast<int16_t>(t.u16())) / 32768.0f * o.coordRange;
		v.y = static_cast<float>(static_cast<int16_t>(t.u16())) / 32768.0f * o.coordRange;
		v.z = static_cast<float>(static_cast<int16_t>(t.u16())) / 32768.0f * o.coordRange;
		if (nv > 2000)
			break; // huge meshes: leave the rest at the origin (the tape cannot describe 65k vertices)
	}
	if (nv > 2000)
		for (uint32_t i = 1; i < nv; i++)
			m.verts[i] = nifly::Vector3(static_cast<float>(i % 251), static_cast<float>((i / 251) % 241), static_cast<float>(i % 7));

	// triangles: valid, pairwise distinct up to rotation
	if (nv >= 3) {
		uint32_t want = t.count(24);
		if (t.chance(40))
			want = t.range(0, o.maxTris);
		if (want < o.minTris)
			want = o.minTris + want;
		std::set<uint64_t> seen;
		const bool coverAll = !o.allowUnusedVerts || t.coin();
		uint32_t maxIdx = nv - 1;
		for (uint32_t i = 0; i < want; i++) {
			nifly::Triangle tr;
			tr.p1 = static_cast<uint16_t>(t.range(0, maxIdx));
			tr.p2 = static_cast<uint16_t>(t.range(0, maxIdx));
			tr.p3 = static_cast<uint16_t>(t.range(0, maxIdx));
			if ((tr.p1 == tr.p2 || tr.p2 == tr.p3 || tr.p1 == tr.p3) && !o.allowDegenerate) {
				// repair into a valid triangle deterministically
				tr.p2 = static_cast<uint16_t>((tr.p1 + 1) % nv);
				tr.p3 = static_cast<uint16_t>((tr.p1 + 2) % nv);
			}
			if (seen.insert(triKey(tr)).second)
				m.tris.push_back(tr);
		}
		if (coverAll && nv <= 2000) {
			// make every vertex used: a fan of triangles over unused vertices
			std::vector<bool> used(nv, false);
			for (auto& tr : m.tris)
				used[tr.p1] = used[tr.p2] = used[tr.p3] = true;
			for (uint32_t v = 0; v < nv; v++)
				if (!used[v]) {
					nifly::Triangle tr(static_cast<uint16_t>(v), static_cast<uint16_t>((v + 1) % nv), static_cast<uint16_t>((v + 2) % nv));
					if (seen.insert(triKey(tr)).second) {
						m.tris.push_back(tr);
						used[tr.p1] = used[tr.p2] = used[tr.p3] = true;
					}
				}
		}
		std::vector<bool> used(nv, false);
		for (auto& tr : m.tris)
			used[tr.p1] = used[tr.p2] = used[tr.p3] = true;
		for (uint32_t v = 0; v < nv; v++)
			if (!used[v])
				m.hasUnusedVerts = true;
		if (o.duplicateTriangleSometimes && m.tris.size() % 5 == 3)
			m.tris.push_back(m.tris[m.tris.size() / 2]);
	}
	else
		m.hasUnusedVerts = true;

	if (o.alwaysUvs || t.coin()) {
		m.uvs.resize(nv);
		for (uint32_t i = 0; i < nv && i < 2000; i++) {
			// multiples of 1/256 in [-2, 2): exactly representable as halves
			m.uvs[i].u = static_cast<float>(static_cast<int16_t>(t.u16() % 1024) - 512) / 256.0f;
			m.uvs[i].v = static_cast<float>(static_cast<int16_t>(t.u16() % 1024) - 512) / 256.0f;
		}
	}
	if (o.alwaysNormals || t.chance(96)) {
		m.norms.resize(nv);
		for (uint32_t i = 0; i < nv; i++) {
			float x = 0, y = 0, z = 1;
			if (i < 2000) {
				x = static_cast<float>(static_cast<int8_t>(t.u8())) / 127.0f;
				y = static_cast<float>(static_cast<int8_t>(t.u8())) / 127.0f;
				z = static_cast<float>(static_cast<int8_t>(t.u8())) / 127.0f;
			}
			float l = std::sqrt(x * x + y * y + z * z);
			if (l < 1e-3f) {
				x = 0;
				y = 0;
				z = 1;
				l = 1;
			}
			m.norms[i] = nifly::Vector3(x / l, y / l, z / l);
		}
	}
	return m;
}

inline uint64_t meshHash(const Mesh& m) {
	uint64_t h = fnv1a(m.verts.data(), m.verts.size() * sizeof(nifly::Vector3));
	h = fnv1a(m.tris.data(), m.tris.size() * sizeof(nifly::Triangle), h);
	h = fnv1a(m.uvs.data(), m.uvs.size() * sizeof(nifly::Vector2), h);
	h = fnv1a(m.norms.data(), m.norms.size() * sizeof(nifly::Vector3), h);
	return h;
}

// Versions models can be created for through NifFile::Create + CreateShapeFromData
inline const std::vector<size_t>& apiVersionIndices() {
	// OB, FO3, SK, SSE, FO4, FO76 in vf::versions()
	static const std::vector<size_t> v = {4, 5, 6, 7, 8, 11};
	return v;
}

struct SkinSpec {
	uint32_t numBones = 0;
	// per vertex: list of (bone, weight), weight > 0
	std::vector<std::vector<std::pair<uint16_t, float>>> vertWeights;
	std::vector<std::string> boneNames;
};

inline SkinSpec genSkin(Tape& t, uint32_t nv, uint32_t maxBones, uint32_t maxWeightsPerVert, bool everyVertexWeighted) {
	SkinSpec s;
	s.numBones = 1 + t.range(0, maxBones - 1);
	for (uint32_t b = 0; b < s.numBones; b++)
		s.boneNames.push_back("Bone" + std::to_string(b));
	s.vertWeights.resize(nv);
	for (uint32_t v = 0; v < nv && v < 3000; v++) {
		uint32_t k = t.range(everyVertexWeighted ? 1 : 0, maxWeightsPerVert);
		std::set<uint16_t> used;
		for (uint32_t i = 0; i < k; i++) {
			uint16_t b = static_cast<uint16_t>(t.range(0, s.numBones - 1));
			if (!used.insert(b).second)
				continue;
			// weights on a 1/64 grid in (0, 1]
			float w = static_cast<float>(1 + t.u8() % 64) / 64.0f;
			s.vertWeights[v].push_back({b, w});
		}
	}
	return s;
}

// Adds bones (as children of the root) and applies the skin through the public API, the way
// callers do: CreateSkinning, SetShapeBoneIDList, SetShapeBoneWeights / SetShapeVertWeights,
// UpdateSkinPartitions.
inline void applySkin(nifly::NifFile& nif, nifly::NiShape* shape, const SkinSpec& s, bool updatePartitions = true) {
	using namespace nifly;
	nif.CreateSkinning(shape);
	std::vector<int> ids;
	for (uint32_t b = 0; b < s.numBones; b++) {
		auto node = nif.FindBlockByName<NiNode>(s.boneNames[b]);
		if (!node) {
			MatTransform xf;
			xf.translation = Vector3(static_cast<float>(b), static_cast<float>(b % 5), 1.0f);
			node = nif.AddNode(s.boneNames[b], xf);
		}
		ids.push_back(static_cast<int>(nif.GetBlockID(node)));
	}
	nif.SetShapeBoneIDList(shape, ids);
	const std::string name = shape->name.get();
	const bool isBs = shape->HasType<BSTriShape>();
	// NiSkinData weights (OB/FO3/SK and SSE)
	for (uint32_t b = 0; b < s.numBones; b++) {
		std::unordered_map<uint16_t, float> w;
		for (size_t v = 0; v < s.vertWeights.size(); v++)
			for (auto& bw : s.vertWeights[v])
				if (bw.first == b)
					w[static_cast<uint16_t>(v)] = bw.second;
		nif.SetShapeBoneWeights(name, b, w);
		MatTransform xf;
		xf.translation = Vector3(-static_cast<float>(b), 0.5f, 2.0f);
		nif.SetShapeTransformSkinToBone(shape, b, xf);
	}
	if (isBs) {
		for (size_t v = 0; v < s.vertWeights.size(); v++) {
			auto sorted = s.vertWeights[v];
			std::stable_sort(sorted.begin(), sorted.end(), [](auto& a, auto& b) { return a.second > b.second; });
			if (sorted.size() > 4)
				sorted.resize(4);
			std::vector<uint8_t> bones;
			std::vector<float> ws;
			for (auto& bw : sorted) {
				bones.push_back(static_cast<uint8_t>(bw.first));
				ws.push_back(bw.second);
			}
			if (!ws.empty())
				nif.SetShapeVertWeights(name, static_cast<uint16_t>(v), bones, ws);
		}
	}
	if (updatePartitions)
		nif.UpdateSkinPartitions(shape);
}

} // namespace vf

// ---------------------------------------------------------------------------
// Generated shapes of every geometry kind
// ---------------------------------------------------------------------------
namespace vf {

struct GenShape {
	nifly::NiShape* shape = nullptr;
	std::string kind;	 // block type + variant, e.g. "NiTriShape+skin+strips-partitions"
	size_t vi = 0;
	Mesh mesh;
	bool skinned = false;
	SkinSpec skin;
	bool strips = false;			// geometry stored as strips (triangle order not defined)
	bool partitionStrips = false;
	bool hasLockedNorm = false;
	bool hasSegments = false;
	bool segDirectOnParent = false; // FO4: triangles labelled directly on a segment that has sub-segments
};

struct GenShapeOpts {
	bool allowSkin = true;
	bool allowStrips = true;
	bool stripVariants = false;	 // strips with degenerate triangles (see trisToStrips)
	bool allowSegments = true;
	bool allowLockedNorm = true;
	bool allowSpecialKinds = true; // dynamic, mesh-LOD, segmented, LOD
	bool everyVertexWeighted = false;
	uint32_t maxBones = 24;
	uint32_t maxWeightsPerVert = 6;
	MeshOpts mesh;
};

// triangles -> strips. Plain: each triangle its own 3-point strip. With `variants` the form of each strip is a
// pure function of the triangle and its position (no tape bytes): a 3-point strip, a strip that starts with ONE
// degenerate triangle (the stripifier "swap" a b a c, or a a c b: an odd run, so the winding parity of the strip
// position matters), or two triangles stitched with doubled vertices (an even run of four degenerates). Every
// form decodes - by position parity, degenerate triangles skipped - to a rotation of the same oriented triangles.
inline std::vector<std::vector<uint16_t>> trisToStrips(const std::vector<nifly::Triangle>& tris, bool variants = false) {
	std::vector<std::vector<uint16_t>> strips;
	for (size_t i = 0; i < tris.size(); i++) {
		const auto& t = tris[i];
		const bool proper = t.p1 != t.p2 && t.p2 != t.p3 && t.p3 != t.p1;
		const unsigned v = variants && proper ? static_cast<unsigned>((t.p1 + 3u * t.p2 + 7u * t.p3 + i) % 6u) : 0u;
		if (v == 1)
			strips.push_back({t.p1, t.p2, t.p1, t.p3});
		else if (v == 2)
			strips.push_back({t.p1, t.p1, t.p3, t.p2});
		else if (v == 3 && i + 1 < tris.size() && tris[i + 1].p1 != tris[i + 1].p2 && tris[i + 1].p2 != tris[i + 1].p3 && tris[i + 1].p3 != tris[i + 1].p1 && tris[i + 1].p1 != t.p3) {
			const auto& u = tris[i + 1];
			strips.push_back({t.p1, t.p2, t.p3, t.p3, u.p1, u.p1, u.p3, u.p2});
			i++;
		}
		else
			strips.push_back({t.p1, t.p2, t.p3});
	}
	return strips;
}

// reference decoding of strips (independent of the library's): triangle k of a strip is points k, k+1, k+2, with
// the last two swapped at odd k; triangles with a repeated point are skipped
inline std::vector<nifly::Triangle> refTrianglesOfStrips(const std::vector<std::vector<uint16_t>>& strips) {
	std::vector<nifly::Triangle> out;
	for (auto& s : strips)
		for (size_t k = 0; k + 2 < s.size(); k++) {
			uint16_t a = s[k], b = s[k + 1], c = s[k + 2];
			if (a == b || b == c || a == c)
				continue;
			out.push_back((k & 1) ? nifly::Triangle(a, c, b) : nifly::Triangle(a, b, c));
		}
	return out;
}

inline GenShape buildGenShape(nifly::NifFile& nif, Tape& t, size_t vi, const std::string& name, const GenShapeOpts& o) {
	using namespace nifly;
	GenShape g;
	g.vi = vi;
	const VersionCfg& ver = versions()[vi];
	NiVersion nv = ver.ni();
	MeshOpts mo = o.mesh;
	if (ver.stream >= 130)
		mo.coordRange = std::min(mo.coordRange, 64.0f);
	g.mesh = genMesh(t, mo);
	Mesh& m = g.mesh;
	auto uv = m.uvs.empty() ? nullptr : &m.uvs;
	auto nr = m.norms.empty() ? nullptr : &m.norms;
	auto root = nif.GetRootNode();
	auto& hdr = nif.GetHeader();

	const uint8_t variant = o.allowSpecialKinds ? t.u8() % 8 : 0;
	const bool le = ver.stream < 100; // OB / FO3 / SK
	if (le && variant == 1 && o.allowStrips && !m.tris.empty()) {
		// NiTriStrips + NiTriStripsData
		auto data = std::make_unique<NiTriStripsData>();
		data->Create(nv, &m.verts, &m.tris, uv, nr);
		auto strips = trisToStrips(m.tris, o.stripVariants);
		data->stripsInfo.points = strips;
		data->stripsInfo.stripLengths.clear();
		for (auto& s : strips) {
			uint16_t l = static_cast<uint16_t>(s.size());
			data->stripsInfo.stripLengths.push_back(l);
		}
		data->stripsInfo.hasPoints = true;
		auto shape = std::make_unique<NiTriStrips>();
		shape->name.get() = name;
		shape->SetGeomData(data.get());
		shape->DataRef()->index = hdr.AddBlock(std::move(data));
		g.shape = shape.get();
		root->childRefs.AddBlockRef(hdr.AddBlock(std::move(shape)));
		g.kind = "NiTriStrips";
		g.strips = true;
	}
	else if (ver.stream == 83 && (variant == 2 || variant == 3)) {
		// BSSegmentedTriShape / BSLODTriShape on NiTriShapeData
		auto data = std::make_unique<NiTriShapeData>();
		data->Create(nv, &m.verts, &m.tris, uv, nr);
		std::unique_ptr<NiTriBasedGeom> shape;
		if (variant == 2) {
			auto s = std::make_unique<BSSegmentedTriShape>();
			std::vector<BSGeometrySegmentData> segs(2);
			uint32_t nt = static_cast<uint32_t>(m.tris.size());
			segs[0].index = 0;
			segs[0].numTris = nt / 2;
			segs[1].index = (nt / 2) * 3;
			segs[1].numTris = nt - nt / 2;
			s->SetSegments(segs);
			shape = std::move(s);
			g.kind = "BSSegmentedTriShape";
		}
		else {
			auto s = std::make_unique<BSLODTriShape>();
			s->level0 = static_cast<uint32_t>(m.tris.size());
			shape = std::move(s);
			g.kind = "BSLODTriShape";
		}
		shape->name.get() = name;
		shape->SetGeomData(data.get());
		shape->DataRef()->index = hdr.AddBlock(std::move(data));
		g.shape = shape.get();
		root->childRefs.AddBlockRef(hdr.AddBlock(std::move(shape)));
	}
	else if (ver.stream == 100 && variant >= 1 && variant <= 3) {
		std::unique_ptr<BSTriShape> shape;
		if (variant == 1) {
			shape = std::make_unique<BSDynamicTriShape>();
			g.kind = "BSDynamicTriShape";
		}
		else if (variant == 2) {
			shape = std::make_unique<BSMeshLODTriShape>();
			g.kind = "BSMeshLODTriShape";
		}
		else {
			shape = std::make_unique<BSSubIndexTriShape>();
			g.kind = "BSSubIndexTriShape(SSE)";
		}
		shape->Create(nv, &m.verts, &m.tris, uv, nr);
		shape->SetSkinned(false);
		if (variant == 2) {
			auto lod = static_cast<BSMeshLODTriShape*>(shape.get());
			lod->lodSize0 = static_cast<uint32_t>(m.tris.size());
		}
		if (variant == 3 && o.allowSegments) {
			auto sits = static_cast<BSSubIndexTriShape*>(shape.get());
			uint32_t nt = static_cast<uint32_t>(m.tris.size());
			uint32_t nseg = 1 + t.u8() % 4;
			std::vector<BSGeometrySegmentData> segs(nseg);
			uint32_t start = 0;
			for (uint32_t i = 0; i < nseg; i++) {
				uint32_t cnt = i + 1 == nseg ? nt - start : t.range(0, nt - start);
				segs[i].index = start * 3;
				segs[i].numTris = cnt;
				start += cnt;
			}
			sits->SetSegments(segs);
			g.hasSegments = true;
		}
		shape->name.get() = name;
		g.shape = shape.get();
		root->childRefs.AddBlockRef(hdr.AddBlock(std::move(shape)));
	}
	else if (ver.stream >= 130 && (variant == 1 || variant == 2)) {
		std::unique_ptr<BSTriShape> shape;
		if (variant == 1) {
			shape = std::make_unique<BSTriShape>();
			g.kind = "BSTriShape";
		}
		else {
			shape = std::make_unique<BSMeshLODTriShape>();
			g.kind = "BSMeshLODTriShape";
		}
		shape->Create(nv, &m.verts, &m.tris, uv, nr);
		shape->SetSkinned(false);
		shape->name.get() = name;
		g.shape = shape.get();
		root->childRefs.AddBlockRef(hdr.AddBlock(std::move(shape)));
	}
	else {
		g.shape = nif.CreateShapeFromData(name, &m.verts, &m.tris, uv, nr);
		g.kind = g.shape ? g.shape->GetBlockName() : "null";
		// FO4/FO76: BSSubIndexTriShape, optionally with FO4 segmentation
		if (g.shape && ver.stream >= 130 && o.allowSegments && t.coin() && !m.tris.empty()) {
			NifSegmentationInfo inf;
			uint32_t nseg = 1 + t.u8() % 4;
			int pid = 0;
			std::vector<int> leafIds, parentIds;
			for (uint32_t i = 0; i < nseg; i++) {
				NifSegmentInfo s;
				s.partID = pid++;
				uint32_t nsub = t.u8() % 4;
				for (uint32_t j = 0; j < nsub; j++) {
					NifSubSegmentInfo ss;
					ss.partID = pid++;
					ss.userSlotID = 30 + t.u8() % 20;
					ss.material = t.u8();
					leafIds.push_back(ss.partID);
					s.subs.push_back(ss);
				}
				if (nsub == 0)
					leafIds.push_back(s.partID);
				else
					parentIds.push_back(s.partID);
				inf.segs.push_back(s);
			}
			inf.ssfFile = "Meshes\\x.ssf";
			const bool direct = !parentIds.empty() && t.chance(64);
			std::vector<int> parts(m.tris.size());
			for (auto& p : parts) {
				if (direct && t.chance(80))
					p = parentIds[t.range(0, static_cast<uint32_t>(parentIds.size() - 1))];
				else
					p = leafIds[t.range(0, static_cast<uint32_t>(leafIds.size() - 1))];
			}
			NifFile::SetShapeSegments(g.shape, inf, parts);
			g.hasSegments = true;
			g.segDirectOnParent = direct;
			g.kind += "+segments";
			// SetShapeSegments reorders the triangles: the mesh's reference order is the shape's
			g.shape->GetTriangles(m.tris);
		}
	}
	if (!g.shape)
		return g;

	// skin
	const bool canSkin = o.allowSkin;
	if (canSkin && !m.verts.empty() && m.verts.size() <= 3000 && t.coin()) {
		g.skin = genSkin(t, static_cast<uint32_t>(m.verts.size()), o.maxBones, o.maxWeightsPerVert, o.everyVertexWeighted);
		applySkin(nif, g.shape, g.skin);
		g.skinned = true;
		g.kind += "+skin";
		// strips inside partitions (LE only)
		if (le && o.allowStrips && t.chance(64)) {
			auto si = hdr.GetBlock<NiSkinInstance>(g.shape->SkinInstanceRef());
			auto sp = si ? hdr.GetBlock(si->skinPartitionRef) : nullptr;
			if (sp) {
				for (auto& p : sp->partitions) {
					if (p.triangles.empty())
						continue;
					p.strips = trisToStrips(p.triangles, o.stripVariants);
					p.numStrips = static_cast<uint16_t>(p.strips.size());
					p.stripLengths.clear();
					for (auto& s : p.strips)
						p.stripLengths.push_back(static_cast<uint16_t>(s.size()));
					p.triangles.clear();
					p.trueTriangles.clear();
					p.hasFaces = true;
				}
				sp->triParts.clear();
				g.partitionStrips = true;
				g.kind += "+strips-partitions";
			}
		}
	}
	// LOCKEDNORM list
	if (o.allowLockedNorm && !m.verts.empty() && t.chance(64)) {
		auto ed = std::make_unique<NiIntegersExtraData>();
		ed->name.get() = "LOCKEDNORM";
		uint32_t k = 1 + t.u8() % 8;
		std::set<uint32_t> idx;
		for (uint32_t i = 0; i < k; i++)
			idx.insert(t.range(0, static_cast<uint32_t>(m.verts.size() - 1)));
		for (auto i : idx) {
			uint32_t v = i;
			ed->integersData.push_back(v);
		}
		nif.AssignExtraData(g.shape, std::move(ed));
		g.hasLockedNorm = true;
		g.kind += "+lockednorm";
	}
	// vertex colours sometimes
	if (t.chance(64) && !m.verts.empty()) {
		std::vector<Color4> cols(g.shape->GetNumVertices());
		for (size_t i = 0; i < cols.size(); i++)
			cols[i] = Color4(((i * 7) % 256) / 255.0f, ((i * 13) % 256) / 255.0f, ((i * 29) % 256) / 255.0f, 1.0f);
		nif.SetColorsForShape(g.shape, cols);
		g.kind += "+colors";
	}
	return g;
}

// sorted unique index subset D of [0, n): single / prefix / suffix / random / all
inline std::vector<uint16_t> genDeletion(Tape& t, uint32_t n, std::string& cls) {
	std::vector<uint16_t> d;
	if (n == 0)
		return d;
	uint8_t how = t.u8() % 6;
	switch (how) {
		case 0:
			cls = "single";
			d.push_back(static_cast<uint16_t>(t.range(0, n - 1)));
			break;
		case 1: {
			cls = "prefix";
			uint32_t k = 1 + t.range(0, n - 1);
			for (uint32_t i = 0; i < k; i++)
				d.push_back(static_cast<uint16_t>(i));
			break;
		}
		case 2: {
			cls = "suffix";
			uint32_t k = 1 + t.range(0, n - 1);
			for (uint32_t i = n - k; i < n; i++)
				d.push_back(static_cast<uint16_t>(i));
			break;
		}
		case 3:
			cls = "all";
			for (uint32_t i = 0; i < n; i++)
				d.push_back(static_cast<uint16_t>(i));
			break;
		default: {
			cls = "random";
			uint8_t density = t.u8();
			for (uint32_t i = 0; i < n; i++)
				if (t.u8() <= density)
					d.push_back(static_cast<uint16_t>(i));
			if (d.empty())
				d.push_back(static_cast<uint16_t>(t.range(0, n - 1)));
			break;
		}
	}
	return d;
}

} // namespace vf
