// Engine G: models built through the public API from tape-decoded parameters.
#pragma once
#include "nifx.hpp"
#include "tape.hpp"

#include "Animation.hpp"
#include "ExtraData.hpp"
#include "bhk.hpp"

#include <cmath>
#include <set>
#include <unordered_map>

namespace vf {

struct Mesh {
	std::vector<nifly::Vector3> verts;
	std::vector<nifly::Triangle> tris;
	std::vector<nifly::Vector2> uvs;
	std::vector<nifly::Vector3> norms;
	bool hasUnusedVerts = false;
};

struct MeshOpts {
	uint32_t maxVerts = 300;
	uint32_t maxTris = 500;
	bool allowLimits = false;	  // 65534 / 65535 vertices
	bool allowUnusedVerts = true; // vertices no triangle uses
	bool alwaysNormals = false;
	bool alwaysUvs = true;
	float coordRange = 512.0f;
};

inline uint64_t triKey(const nifly::Triangle& t) {
	// canonical rotation: smallest index first, orientation kept
	uint16_t a = t.p1, b = t.p2, c = t.p3;
	if (b < a && b <= c) {
		uint16_t x = a;
		a = b;
		b = c;
		c = x;
	}
	else if (c < a && c < b) {
		uint16_t x = c;
		c = b;
		b = a;
		a = x;
	}
	return (static_cast<uint64_t>(a) << 32) | (static_cast<uint64_t>(b) << 16) | c;
}

inline Mesh genMesh(Tape& t, const MeshOpts& o) {
	Mesh m;
	uint32_t nv;
	uint8_t cls = t.u8();
	if (cls < 0x10)
		nv = 1 + cls % 3; // 1..3
	else if (cls < 0xB0)
		nv = 3 + t.range(0, 37); // small
	else if (cls < 0xF8 || !o.allowLimits)
		nv = 3 + t.range(0, o.maxVerts > 3 ? o.maxVerts - 3 : 0);
	else
		nv = (cls & 1) ? 65535u : 65534u;
	m.verts.resize(nv);
	// coordinates on a 1/8 grid so that half precision can represent them for small ranges
	for (auto& v : m.verts) {
		v.x = static_cast<float>(static_cast<int16_t>(t.u16())) / 32768.0f * o.coordRange;
		v.y = static_cast<float>(static_cast<int16_t>(t.u16())) / 32768.0f * o.coordRange;
		v.z = static_cast<float>(static_cast<int16_t>(t.u16())) / 32768.0f * o.coordRange;
		if (nv > 2000)
			break; // huge meshes: leave the rest at the origin (the tape cannot describe 65k vertices)
	}
	if (nv > 2000)
		for (uint32_t i = 1; i < nv; i++)
			m.verts[i] = nifly::Vector3(static_cast<float>(i % 251), static_cast<float>((i / 251) % 241), static_cast<float>(i % 7));

	// triangles: valid, pairwise distinct up to rotation
	if (nv >= 3) {
		uint32_t want = t.count(24);
		if (t.chance(40))
			want = t.range(0, o.maxTris);
		std::set<uint64_t> seen;
		const bool coverAll = !o.allowUnusedVerts || t.coin();
		uint32_t maxIdx = nv - 1;
		for (uint32_t i = 0; i < want; i++) {
			nifly::Triangle tr;
			tr.p1 = static_cast<uint16_t>(t.range(0, maxIdx));
			tr.p2 = static_cast<uint16_t>(t.range(0, maxIdx));
			tr.p3 = static_cast<uint16_t>(t.range(0, maxIdx));
			if (tr.p1 == tr.p2 || tr.p2 == tr.p3 || tr.p1 == tr.p3) {
				// repair into a valid triangle deterministically
				tr.p2 = static_cast<uint16_t>((tr.p1 + 1) % nv);
				tr.p3 = static_cast<uint16_t>((tr.p1 + 2) % nv);
			}
			if (seen.insert(triKey(tr)).second)
				m.tris.push_back(tr);
		}
		if (coverAll && nv <= 2000) {
			// make every vertex used: a fan of triangles over unused vertices
			std::vector<bool> used(nv, false);
			for (auto& tr : m.tris)
				used[tr.p1] = used[tr.p2] = used[tr.p3] = true;
			for (uint32_t v = 0; v < nv; v++)
				if (!used[v]) {
					nifly::Triangle tr(static_cast<uint16_t>(v), static_cast<uint16_t>((v + 1) % nv), static_cast<uint16_t>((v + 2) % nv));
					if (seen.insert(triKey(tr)).second) {
						m.tris.push_back(tr);
						used[tr.p1] = used[tr.p2] = used[tr.p3] = true;
					}
				}
		}
		std::vector<bool> used(nv, false);
		for (auto& tr : m.tris)
			used[tr.p1] = used[tr.p2] = used[tr.p3] = true;
		for (uint32_t v = 0; v < nv; v++)
			if (!used[v])
				m.hasUnusedVerts = true;
	}
	else
		m.hasUnusedVerts = true;

	if (o.alwaysUvs || t.coin()) {
		m.uvs.resize(nv);
		for (uint32_t i = 0; i < nv && i < 2000; i++) {
			// multiples of 1/256 in [-2, 2): exactly representable as halves
			m.uvs[i].u = static_cast<float>(static_cast<int16_t>(t.u16() % 1024) - 512) / 256.0f;
			m.uvs[i].v = static_cast<float>(static_cast<int16_t>(t.u16() % 1024) - 512) / 256.0f;
		}
	}
	if (o.alwaysNormals || t.chance(96)) {
		m.norms.resize(nv);
		for (uint32_t i = 0; i < nv; i++) {
			float x = 0, y = 0, z = 1;
			if (i < 2000) {
				x = static_cast<float>(static_cast<int8_t>(t.u8())) / 127.0f;
				y = static_cast<float>(static_cast<int8_t>(t.u8())) / 127.0f;
				z = static_cast<float>(static_cast<int8_t>(t.u8())) / 127.0f;
			}
			float l = std::sqrt(x * x + y * y + z * z);
			if (l < 1e-3f) {
				x = 0;
				y = 0;
				z = 1;
				l = 1;
			}
			m.norms[i] = nifly::Vector3(x / l, y / l, z / l);
		}
	}
	return m;
}

inline uint64_t meshHash(const Mesh& m) {
	uint64_t h = fnv1a(m.verts.data(), m.verts.size() * sizeof(nifly::Vector3));
	h = fnv1a(m.tris.data(), m.tris.size() * sizeof(nifly::Triangle), h);
	h = fnv1a(m.uvs.data(), m.uvs.size() * sizeof(nifly::Vector2), h);
	h = fnv1a(m.norms.data(), m.norms.size() * sizeof(nifly::Vector3), h);
	return h;
}

// Versions models can be created for through NifFile::Create + CreateShapeFromData
inline const std::vector<size_t>& apiVersionIndices() {
	// OB, FO3, SK, SSE, FO4, FO76 in vf::versions()
	static const std::vector<size_t> v = {4, 5, 6, 7, 8, 11};
	return v;
}

struct SkinSpec {
	uint32_t numBones = 0;
	// per vertex: list of (bone, weight), weight > 0
	std::vector<std::vector<std::pair<uint16_t, float>>> vertWeights;
	std::vector<std::string> boneNames;
};

inline SkinSpec genSkin(Tape& t, uint32_t nv, uint32_t maxBones, uint32_t maxWeightsPerVert, bool everyVertexWeighted) {
	SkinSpec s;
	s.numBones = 1 + t.range(0, maxBones - 1);
	for (uint32_t b = 0; b < s.numBones; b++)
		s.boneNames.push_back("Bone" + std::to_string(b));
	s.vertWeights.resize(nv);
	for (uint32_t v = 0; v < nv && v < 3000; v++) {
		uint32_t k = t.range(everyVertexWeighted ? 1 : 0, maxWeightsPerVert);
		std::set<uint16_t> used;
		for (uint32_t i = 0; i < k; i++) {
			uint16_t b = static_cast<uint16_t>(t.range(0, s.numBones - 1));
			if (!used.insert(b).second)
				continue;
			// weights on a 1/64 grid in (0, 1]
			float w = static_cast<float>(1 + t.u8() % 64) / 64.0f;
			s.vertWeights[v].push_back({b, w});
		}
	}
	return s;
}

// Adds bones (as children of the root) and applies the skin through the public API, the way
// callers do: CreateSkinning, SetShapeBoneIDList, SetShapeBoneWeights / SetShapeVertWeights,
// UpdateSkinPartitions.
inline void applySkin(nifly::NifFile& nif, nifly::NiShape* shape, const SkinSpec& s, bool updatePartitions = true) {
	using namespace nifly;
	nif.CreateSkinning(shape);
	std::vector<int> ids;
	for (uint32_t b = 0; b < s.numBones; b++) {
		auto node = nif.FindBlockByName<NiNode>(s.boneNames[b]);
		if (!node) {
			MatTransform xf;
			xf.translation = Vector3(static_cast<float>(b), static_cast<float>(b % 5), 1.0f);
			node = nif.AddNode(s.boneNames[b], xf);
		}
		ids.push_back(static_cast<int>(nif.GetBlockID(node)));
	}
	nif.SetShapeBoneIDList(shape, ids);
	const std::string name = shape->name.get();
	const bool isBs = shape->HasType<BSTriShape>();
	// NiSkinData weights (OB/FO3/SK and SSE)
	for (uint32_t b = 0; b < s.numBones; b++) {
		std::unordered_map<uint16_t, float> w;
		for (size_t v = 0; v < s.vertWeights.size(); v++)
			for (auto& bw : s.vertWeights[v])
				if (bw.first == b)
					w[static_cast<uint16_t>(v)] = bw.second;
		nif.SetShapeBoneWeights(name, b, w);
		MatTransform xf;
		xf.translation = Vector3(-static_cast<float>(b), 0.5f, 2.0f);
		nif.SetShapeTransformSkinToBone(shape, b, xf);
	}
	if (isBs) {
		for (size_t v = 0; v < s.vertWeights.size(); v++) {
			auto sorted = s.vertWeights[v];
			std::stable_sort(sorted.begin(), sorted.end(), [](auto& a, auto& b) { return a.second > b.second; });
			if (sorted.size() > 4)
				sorted.resize(4);
			std::vector<uint8_t> bones;
			std::vector<float> ws;
			for (auto& bw : sorted) {
				bones.push_back(static_cast<uint8_t>(bw.first));
				ws.push_back(bw.second);
			}
			if (!ws.empty())
				nif.SetShapeVertWeights(name, static_cast<uint16_t>(v), bones, ws);
		}
	}
	if (updatePartitions)
		nif.UpdateSkinPartitions(shape);
}

} // namespace vf
