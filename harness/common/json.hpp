// Minimal JSON writer (and a crude field extractor for replay files).
#pragma once
#include <cstdint>
#include <cstdio>
#include <map>
#include <sstream>
#include <string>
#include <vector>

namespace vf {

inline std::string jstr(const std::string& s) {
	std::string o = "\"";
	for (unsigned char c : s) {
		switch (c) {
			case '"': o += "\\\""; break;
			case '\\': o += "\\\\"; break;
			case '\n': o += "\\n"; break;
			case '\r': o += "\\r"; break;
			case '\t': o += "\\t"; break;
			default:
				if (c < 0x20 || c >= 0x7f) {
					char buf[8];
					snprintf(buf, sizeof buf, "\\u%04x", c);
					o += buf;
				}
				else
					o.push_back(static_cast<char>(c));
		}
	}
	o += "\"";
	return o;
}

// Object builder: J().s("k","v").n("k",1).raw("k","[1,2]").str()
class J {
public:
	J& s(const std::string& k, const std::string& v) { return raw(k, jstr(v)); }
	J& n(const std::string& k, long long v) { return raw(k, std::to_string(v)); }
	J& u(const std::string& k, unsigned long long v) { return raw(k, std::to_string(v)); }
	J& f(const std::string& k, double v) {
		char buf[64];
		snprintf(buf, sizeof buf, "%.9g", v);
		std::string t = buf;
		if (t.find("inf") != std::string::npos || t.find("nan") != std::string::npos)
			t = jstr(t);
		return raw(k, t);
	}
	J& b(const std::string& k, bool v) { return raw(k, v ? "true" : "false"); }
	J& raw(const std::string& k, const std::string& v) {
		if (!body_.empty())
			body_ += ",";
		body_ += jstr(k) + ":" + v;
		return *this;
	}
	std::string str() const { return "{" + body_ + "}"; }

private:
	std::string body_;
};

template<typename T, typename F>
inline std::string jarr(const std::vector<T>& v, F f) {
	std::string o = "[";
	for (size_t i = 0; i < v.size(); i++) {
		if (i)
			o += ",";
		o += f(v[i]);
	}
	return o + "]";
}
inline std::string jarr_raw(const std::vector<std::string>& v) {
	return jarr(v, [](const std::string& s) { return s; });
}
inline std::string jarr_str(const std::vector<std::string>& v) {
	return jarr(v, [](const std::string& s) { return jstr(s); });
}
template<typename T>
inline std::string jarr_num(const std::vector<T>& v) {
	return jarr(v, [](const T& x) { return std::to_string(x); });
}
inline std::string jmap_num(const std::map<std::string, uint64_t>& m) {
	J j;
	for (auto& kv : m)
		j.u(kv.first, kv.second);
	return j.str();
}

// Crude extractor: value of the first "key":"<string without escapes we care about>".
// Replay files written by this framework keep the fields read back (tape_hex, nif_hex,
// signature, ...) free of escapes other than \\ and \".
inline bool json_get_string(const std::string& text, const std::string& key, std::string& out) {
	std::string pat = "\"" + key + "\"";
	size_t p = 0;
	while ((p = text.find(pat, p)) != std::string::npos) {
		size_t q = p + pat.size();
		while (q < text.size() && (text[q] == ' ' || text[q] == '\n' || text[q] == '\t'))
			q++;
		if (q >= text.size() || text[q] != ':') {
			p = q;
			continue;
		}
		q++;
		while (q < text.size() && (text[q] == ' ' || text[q] == '\n' || text[q] == '\t'))
			q++;
		if (q >= text.size() || text[q] != '"') {
			p = q;
			continue;
		}
		q++;
		out.clear();
		while (q < text.size() && text[q] != '"') {
			if (text[q] == '\\' && q + 1 < text.size()) {
				char c = text[q + 1];
				if (c == 'n')
					out.push_back('\n');
				else if (c == 't')
					out.push_back('\t');
				else if (c == 'r')
					out.push_back('\r');
				else if (c == 'u' && q + 5 < text.size()) {
					out.push_back(static_cast<char>(std::stoi(text.substr(q + 2, 4), nullptr, 16)));
					q += 4;
				}
				else
					out.push_back(c);
				q += 2;
			}
			else
				out.push_back(text[q++]);
		}
		return true;
	}
	return false;
}

inline bool json_get_number(const std::string& text, const std::string& key, long long& out) {
	std::string pat = "\"" + key + "\"";
	size_t p = text.find(pat);
	if (p == std::string::npos)
		return false;
	size_t q = text.find(':', p + pat.size());
	if (q == std::string::npos)
		return false;
	q++;
	while (q < text.size() && text[q] == ' ')
		q++;
	try {
		out = std::stoll(text.substr(q, 24));
	}
	catch (...) {
		return false;
	}
	return true;
}

} // namespace vf
