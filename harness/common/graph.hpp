// Engine G, block graphs: scene graphs with node trees, shapes, shared children, collision
// sub-graphs, controller chains, ordered nodes, loose blocks and permuted block order, built
// through the public API / block classes from tape-decoded parameters.
#pragma once
#include "gen.hpp"

namespace vf {

struct GraphInfo {
	std::vector<std::string> features;
	std::vector<std::string> shapeNames; // names of shapes that are direct children of the root
	uint32_t looseBlocks = 0;
	bool rootMoved = false;
	void add(const std::string& f) {
		if (std::find(features.begin(), features.end(), f) == features.end())
			features.push_back(f);
	}
	std::string str() const {
		std::string s;
		for (auto& f : features)
			s += f + " ";
		return s;
	}
};

inline GraphInfo buildGraph(nifly::NifFile& nif, Tape& t, size_t vi, bool allowPermute = true) {
	using namespace nifly;
	GraphInfo gi;
	const VersionCfg& ver = versions()[vi];
	nif.Create(ver.ni());
	auto& hdr = nif.GetHeader();
	auto root = nif.GetRootNode();
	const bool hasBSX = t.coin();
	if (hasBSX) {
		auto bsx = std::make_unique<BSXFlags>();
		bsx->name.get() = "BSX";
		bsx->integerData = t.u8();
		nif.AssignExtraData(root, std::move(bsx));
		gi.add("bsx");
	}

	// ---- node tree
	std::vector<NiNode*> nodes = {root};
	std::vector<int> depth = {0};
	uint32_t nNodes = t.u8() % 9;
	for (uint32_t i = 0; i < nNodes; i++) {
		size_t pi = t.u8() % nodes.size();
		if (depth[pi] >= 5)
			pi = 0;
		MatTransform xf;
		xf.translation = Vector3(t.nice(), t.nice(), t.nice());
		uint8_t kind = t.u8() % 8;
		NiNode* n = nullptr;
		if (kind == 0) {
			auto on = std::make_unique<BSOrderedNode>();
			on->name.get() = "Ordered" + std::to_string(i);
			on->SetTransformToParent(xf);
			n = on.get();
			nodes[pi]->childRefs.AddBlockRef(hdr.AddBlock(std::move(on)));
			gi.add("ordered-node");
		}
		else if (kind == 1) {
			auto mn = std::make_unique<BSMultiBoundNode>();
			mn->name.get() = "Multi" + std::to_string(i);
			auto mb = std::make_unique<BSMultiBound>();
			auto aabb = std::make_unique<BSMultiBoundAABB>();
			mb->dataRef.index = hdr.AddBlock(std::move(aabb));
			mn->multiBoundRef.index = hdr.AddBlock(std::move(mb));
			n = mn.get();
			nodes[pi]->childRefs.AddBlockRef(hdr.AddBlock(std::move(mn)));
			gi.add("multibound-node");
		}
		else
			n = nif.AddNode("Node" + std::to_string(i), xf, nodes[pi]);
		nodes.push_back(n);
		depth.push_back(depth[pi] + 1);
		if (t.chance(48)) {
			auto ed = std::make_unique<NiStringExtraData>();
			ed->name.get() = "UPB";
			ed->stringData.get() = "x=" + std::to_string(i);
			nif.AssignExtraData(n, std::move(ed));
		}
	}
	if (nNodes)
		gi.add("node-tree");
	// empty entries in a child list
	if (t.chance(40)) {
		nodes[t.u8() % nodes.size()]->childRefs.AddBlockRef(NIF_NPOS);
		gi.add("empty-child-entry");
	}

	// ---- shapes
	uint32_t nShapes = t.u8() % 5;
	std::vector<NiShape*> shapes;
	GenShapeOpts so;
	so.mesh.maxVerts = 24;
	so.mesh.maxTris = 30;
	so.mesh.minTris = 1;
	so.allowLockedNorm = false;
	so.maxBones = 4;
	for (uint32_t i = 0; i < nShapes; i++) {
		// some shapes share a name (SetShapeOrder with duplicate names)
		std::string name = (i > 0 && t.chance(32)) ? shapes[0]->name.get() : "Shape" + std::to_string(i);
		GenShape g = buildGenShape(nif, t, vi, name, so);
		if (!g.shape)
			continue;
		shapes.push_back(g.shape);
		NiNode* parent = nodes[t.u8() % nodes.size()];
		if (parent != root && !t.chance(96))
			nif.SetParentNode(g.shape, parent);
		if (t.chance(80)) {
			auto ap = std::make_unique<NiAlphaProperty>();
			nif.AssignAlphaProperty(g.shape, std::move(ap));
			gi.add("alpha-property");
		}
		if (t.chance(64)) {
			auto ed = std::make_unique<NiStringExtraData>();
			ed->name.get() = "Prn";
			ed->stringData.get() = "WEAPON";
			nif.AssignExtraData(g.shape, std::move(ed));
		}
		if (g.skinned)
			gi.add("skinned-shape");
	}
	if (!shapes.empty())
		gi.add("shapes");
	// shared texture set under two shaders
	if (shapes.size() >= 2 && t.chance(80)) {
		auto s0 = nif.GetShader(shapes[0]);
		auto s1 = nif.GetShader(shapes[1]);
		if (s0 && s1 && s0->HasTextureSet() && s1->HasTextureSet() && s0 != s1) {
			s1->TextureSetRef()->index = s0->TextureSetRef()->index;
			gi.add("shared-texture-set");
		}
	}

	// ---- collision sub-graphs (FO3 / SK / SSE have Havok blocks in this library's sense)
	if (ver.stream >= 34 && ver.stream <= 100 && t.coin()) {
		std::vector<uint32_t> bodies;
		uint32_t nCol = 1 + t.u8() % 3;
		for (uint32_t i = 0; i < nCol && i < nodes.size(); i++) {
			NiNode* owner = nodes[(t.u8() % nodes.size())];
			if (!owner->collisionRef.IsEmpty())
				continue;
			uint32_t shapeId;
			if (t.coin()) {
				shapeId = hdr.AddBlock(std::make_unique<bhkBoxShape>());
			}
			else {
				auto list = std::make_unique<bhkListShape>();
				uint32_t k = 1 + t.u8() % 3;
				for (uint32_t j = 0; j < k; j++)
					list->subShapeRefs.AddBlockRef(hdr.AddBlock(std::make_unique<bhkBoxShape>()));
				uint32_t listId = hdr.AddBlock(std::move(list));
				auto mopp = std::make_unique<bhkMoppBvTreeShape>();
				mopp->shapeRef.index = listId;
				shapeId = hdr.AddBlock(std::move(mopp));
				gi.add("mopp-list-box");
			}
			auto body = std::make_unique<bhkRigidBody>();
			body->shapeRef.index = shapeId;
			uint32_t bodyId = hdr.AddBlock(std::move(body));
			bodies.push_back(bodyId);
			auto col = std::make_unique<bhkCollisionObject>();
			col->targetRef.index = nif.GetBlockID(owner);
			col->bodyRef.index = bodyId;
			owner->collisionRef.index = hdr.AddBlock(std::move(col));
			gi.add("collision");
		}
		if (bodies.size() >= 2 && t.coin()) {
			auto rc = std::make_unique<bhkRagdollConstraint>();
			rc->entityRefs.SetKeepEmptyRefs();
			rc->entityRefs.SetSize(0);
			rc->entityRefs.AddBlockRef(bodies[0]);
			rc->entityRefs.AddBlockRef(bodies[1]);
			uint32_t cid = hdr.AddBlock(std::move(rc));
			hdr.GetBlock<bhkRigidBody>(bodies[0])->constraintRefs.AddBlockRef(cid);
			gi.add("ragdoll-constraint");
		}
		if (bodies.size() >= 2 && t.chance(96)) {
			auto ch = std::make_unique<bhkBallSocketConstraintChain>();
			for (auto b : bodies)
				ch->chainedEntityRefs.AddBlockRef(b);
			ch->entityARef.index = bodies[0];
			ch->entityBRef.index = bodies[1];
			uint32_t cid = hdr.AddBlock(std::move(ch));
			hdr.GetBlock<bhkRigidBody>(bodies[1])->constraintRefs.AddBlockRef(cid);
			gi.add("ball-socket-chain");
		}
	}

	// ---- controller chain on the root
	if (ver.file >= 0x14020007 && t.chance(96)) {
		auto mgr = std::make_unique<NiControllerManager>();
		mgr->targetRef.index = 0;
		auto pal = std::make_unique<NiDefaultAVObjectPalette>();
		pal->sceneRef.index = 0;
		uint32_t palId = hdr.AddBlock(std::move(pal));
		mgr->objectPaletteRef.index = palId;
		auto mtt = std::make_unique<NiMultiTargetTransformController>();
		mtt->targetRef.index = 0;
		for (size_t i = 1; i < nodes.size() && i < 3; i++)
			mtt->targetRefs.AddBlockRef(nif.GetBlockID(nodes[i]));
		uint32_t mttId = hdr.AddBlock(std::move(mtt));
		uint32_t nSeq = 1 + t.u8() % 2;
		std::vector<uint32_t> seqIds;
		for (uint32_t s = 0; s < nSeq; s++) {
			auto seq = std::make_unique<NiControllerSequence>();
			seq->name.get() = "Seq" + std::to_string(s);
			uint32_t nb = t.u8() % 3;
			for (uint32_t b = 0; b < nb; b++) {
				ControllerLink cl;
				auto data = std::make_unique<NiTransformData>();
				auto interp = std::make_unique<NiTransformInterpolator>();
				interp->dataRef.index = hdr.AddBlock(std::move(data));
				cl.interpolatorRef.index = hdr.AddBlock(std::move(interp));
				cl.controllerRef.index = mttId;
				cl.nodeName.get() = nodes.size() > 1 ? nodes[1]->name.get() : "Scene Root";
				cl.ctrlType.get() = "NiTransformController";
				seq->controlledBlocks.push_back(cl);
			}
			if (t.coin()) {
				auto tk = std::make_unique<NiTextKeyExtraData>();
				seq->textKeyRef.index = hdr.AddBlock(std::move(tk));
			}
			seqIds.push_back(hdr.AddBlock(std::move(seq)));
		}
		for (auto id : seqIds)
			mgr->controllerSequenceRefs.AddBlockRef(id);
		uint32_t mgrId = hdr.AddBlock(std::move(mgr));
		for (auto id : seqIds)
			hdr.GetBlock<NiControllerSequence>(id)->managerRef.index = mgrId;
		hdr.GetBlock<NiControllerManager>(mgrId)->nextControllerRef.index = mttId;
		root->controllerRef.index = mgrId;
		gi.add("controller-chain");
	}

	// ---- loose blocks
	uint32_t nLoose = t.u8() % 4;
	for (uint32_t i = 0; i < nLoose; i++) {
		uint8_t k = t.u8() % 3;
		if (k == 0) {
			auto ed = std::make_unique<NiStringExtraData>();
			ed->name.get() = "loose";
			hdr.AddBlock(std::move(ed));
		}
		else if (k == 1) {
			auto n = std::make_unique<NiNode>();
			n->name.get() = "LooseNode" + std::to_string(i);
			hdr.AddBlock(std::move(n));
		}
		else {
			// loose node with a loose child: the child is referenced, its parent is not
			auto c = std::make_unique<NiStringExtraData>();
			c->name.get() = "loosechild";
			uint32_t cid = hdr.AddBlock(std::move(c));
			auto n = std::make_unique<NiNode>();
			n->name.get() = "LooseParent" + std::to_string(i);
			n->extraDataRefs.AddBlockRef(cid);
			hdr.AddBlock(std::move(n));
		}
		gi.looseBlocks++;
	}
	if (nLoose)
		gi.add("loose-blocks");

	// ---- permute the block order (root may end up at a non-zero index)
	if (t.chance(128) && allowPermute) {
		uint32_t n = hdr.GetNumBlocks();
		std::vector<uint32_t> perm(n);
		for (uint32_t i = 0; i < n; i++)
			perm[i] = i;
		const bool moveRoot = t.chance(64);
		for (uint32_t i = n - 1; i > (moveRoot ? 0u : 1u); i--)
			std::swap(perm[i], perm[(moveRoot ? 0u : 1u) + t.u16() % (i + 1 - (moveRoot ? 0u : 1u))]);
		// This library takes block 0 (if it is a node) or else the first node in block order for the
		// root: keep the real root ahead of every other node so that the model stays well-formed
		{
			uint32_t rootPos = perm[0];
			for (uint32_t i = 1; i < n; i++)
				if (hdr.GetBlock<NiNode>(i) && perm[i] < rootPos) {
					std::swap(perm[0], perm[i]);
					rootPos = perm[0];
				}
		}
		hdr.SetBlockOrder(perm);
		gi.add("permuted-order");
		if (perm[0] != 0) {
			gi.rootMoved = true;
			gi.add("root-not-first");
		}
	}
	// ---- a deep loose chain stored children-first (what an abandoned Havok tree looks like): every block
	// references the one stored just before it and nothing references the last one. Pruning it takes one
	// pass per layer unless the pruner restarts. Chosen from the choices already made (no further tape
	// reads: the callers' own decisions that follow on the tape keep their meaning).
	if (nLoose == 3) {
		if (ver.stream >= 34 && ver.stream <= 100) {
			// box <- [list <- mopp <-] rigid body <- collision object without an owner: 3 or 5 layers, and the
			// sorter keeps Havok blocks children-first, so the order survives a save
			const bool deep = hdr.GetNumBlocks() % 2 == 0;
			uint32_t shapeId = hdr.AddBlock(std::make_unique<bhkBoxShape>());
			if (deep) {
				auto list = std::make_unique<bhkListShape>();
				list->subShapeRefs.AddBlockRef(shapeId);
				uint32_t listId = hdr.AddBlock(std::move(list));
				auto mopp = std::make_unique<bhkMoppBvTreeShape>();
				mopp->shapeRef.index = listId;
				shapeId = hdr.AddBlock(std::move(mopp));
			}
			auto body = std::make_unique<bhkRigidBody>();
			body->shapeRef.index = shapeId;
			uint32_t bodyId = hdr.AddBlock(std::move(body));
			auto col = std::make_unique<bhkCollisionObject>();
			col->bodyRef.index = bodyId;
			hdr.AddBlock(std::move(col));
			gi.looseBlocks += deep ? 5 : 3;
			gi.add(deep ? "loose-havok-chain-children-first(5)" : "loose-havok-chain-children-first(3)");
		}
		else {
			uint32_t depth = 3 + hdr.GetNumBlocks() % 3;
			uint32_t prev = NIF_NPOS;
			for (uint32_t d = 0; d < depth; d++) {
				if (d == 0) {
					auto ed = std::make_unique<NiStringExtraData>();
					ed->name.get() = "chain-leaf";
					prev = hdr.AddBlock(std::move(ed));
				}
				else {
					auto n = std::make_unique<NiNode>();
					n->name.get() = "LooseChain" + std::to_string(d);
					if (d == 1)
						n->extraDataRefs.AddBlockRef(prev);
					else
						n->childRefs.AddBlockRef(prev);
					prev = hdr.AddBlock(std::move(n));
				}
			}
			gi.looseBlocks += depth;
			gi.add("deep-loose-chain-children-first(" + std::to_string(depth) + ")");
		}
	}
	nif.LinkGeomData();
	auto newRoot = nif.GetRootNode();
	if (newRoot)
		for (auto s : nif.GetChildren<NiShape>(newRoot))
			gi.shapeNames.push_back(s->name.get());
	return gi;
}

} // namespace vf
