// Engine S: grammar-by-execution block synthesiser.
// The library's own reading code is run against a supplier that answers every
// read from a choice tape (hooks H1/H2/H3/H4) and records what it returned. The
// record is the block's wire payload. No hook is active afterwards: oracles run
// the ordinary Load/Save on real bytes.
#pragma once
#include "nifx.hpp"
#include "tape.hpp"

#include "Factory.hpp"
#include "half.hpp"

#include <cmath>
#include <map>
#include <sstream>

#if defined(__has_feature)
#if __has_feature(address_sanitizer)
#include <sanitizer/asan_interface.h>
#define VF_HAVE_ASAN_LOCATE 1
#endif
#endif

namespace vf {

struct SynthAbort {
	const char* why;
};

struct TraceEntry {
	uint8_t hint;
	uint32_t size;
	// Field identity: which heap allocation (numbered in order of first use) and which offset
	// inside it the value was read into; -1 for stack temporaries / unknown.
	int32_t alloc = -1;
	uint32_t offset = 0;
	bool operator==(const TraceEntry& o) const { return hint == o.hint && size == o.size; }
};

struct SynthPlan {
	std::vector<uint32_t> refTargets;	// block indices a reference may take (besides empty)
	uint32_t numStrings = 0;			// string-table size available to string indices
	size_t maxBytes = 96 * 1024;		// abort synthesis beyond this payload size
	uint32_t bigCount = 40;				// upper end of the "sometimes larger" counts
	bool wantTrace = false;
	bool wantSites = false;
	// One-factor sweep: the forceRead-th integer-like read (integral, enum, raw 1/2/4 bytes; counted
	// from 0) returns forceValue instead of the tape's choice (the tape is consumed as usual).
	int forceRead = -1;
	uint64_t forceValue = 0;
	// added to every float the supplier hands out: the same tape then gives a block of the same structure
	// (counts, flags, enum values) with different leaf values
	float floatSalt = 0.0f;
};

// Force request for the FIRST subject of the next synthesised file(s) on this thread
struct Force {
	int read = -1;
	uint64_t value = 0;
};
inline Force& force() {
	static thread_local Force f;
	return f;
}

struct SynthResult {
	bool ok = false;
	bool aborted = false;
	const char* abortWhy = "";
	std::string payload;
	std::unique_ptr<nifly::NiObject> obj;
	size_t reads = 0;
	size_t refsRead = 0;
	size_t refsSet = 0;
	size_t strRead = 0;
	size_t strSet = 0;
	size_t preconditionsApplied = 0;
	std::vector<TraceEntry> trace;
	uint64_t shape = 0;	  // hash of the (kind, width) sequence of all reads
	std::vector<uint64_t> sites; // distinct read sites (return-address chains) visited: which branches the reader took
	size_t intReads = 0;  // integer-like reads issued
	bool forced = false;  // the force request was applied
};

class Supplier {
public:
	Supplier(Tape& t, const SynthPlan& plan, const std::string& type)
		: tape(t)
		, plan(plan)
		, type(type) {}

	Tape& tape;
	const SynthPlan& plan;
	std::string type;
	std::string rec;
	size_t reads = 0, refsRead = 0, refsSet = 0, strRead = 0, strSet = 0, preconds = 0;
	size_t intReads = 0;
	uint64_t shape = 1469598103934665603ull;
	bool forcedApplied = false;
	std::vector<uint64_t> sites; // distinct, in order of first visit (small: linear search)
	bool wantSites = false;

	void noteSite(uint64_t k) {
		for (auto s : sites)
			if (s == k)
				return;
		sites.push_back(k);
	}

	uint64_t forcedOr(uint64_t v) {
		if (static_cast<int>(intReads++) == plan.forceRead) {
			forcedApplied = true;
			return plan.forceValue;
		}
		return v;
	}
	std::vector<TraceEntry> trace;
	std::map<void*, int32_t> allocOrd;
	bool bsGeomZeroSeen = false;

	void emit(char* dst, const void* src, size_t n) {
		memcpy(dst, src, n);
		rec.append(static_cast<const char*>(src), n);
		if (rec.size() > plan.maxBytes)
			throw SynthAbort{"payload too large"};
	}

	uint64_t countLike(size_t width) {
		uint8_t b = tape.u8();
		if (b < 0x60)
			return 0;
		if (b < 0xA0)
			return 1;
		if (b < 0xC8)
			return 2;
		if (b < 0xE0)
			return 3;
		if (b < 0xF8)
			return 4 + tape.u8() % 12;
		// raw value of the field width, clipped so allocations stay bounded
		if (width == 1)
			return tape.u8();
		uint32_t v = width == 2 ? tape.u16() : tape.u32();
		if (width == 2) {
			// 16-bit fields are often flag words (data flags, vertex flags): keep them
			// unclipped half of the time, the payload-size limit bounds the cost
			if (tape.coin())
				return v;
		}
		return v % 301;
	}

	float niceFloat() { return tape.nice() + plan.floatSalt; }

	void doRead(char* dst, std::streamsize count, nifly::verif::Hint hint, size_t es) {
		using nifly::verif::Hint;
		reads++;
		{
			uint64_t key = (static_cast<uint64_t>(hint) << 40) ^ static_cast<uint64_t>(count);
			shape = hash_mix(shape, key);
		}
		if (plan.wantTrace) {
			TraceEntry te{static_cast<uint8_t>(hint), static_cast<uint32_t>(count)};
#ifdef VF_HAVE_ASAN_LOCATE
			char nm[8];
			void* region = nullptr;
			size_t rsize = 0;
			const char* kind = __asan_locate_address(dst, nm, sizeof nm, &region, &rsize);
			if (kind && kind[0] == 'h' && region) { // "heap"
				auto it = allocOrd.find(region);
				if (it == allocOrd.end())
					it = allocOrd.emplace(region, static_cast<int32_t>(allocOrd.size())).first;
				te.alloc = it->second;
				te.offset = static_cast<uint32_t>(dst - static_cast<char*>(region));
			}
#endif
			trace.push_back(te);
		}
		size_t n = static_cast<size_t>(count);
		if (n == 0)
			return;
		switch (hint) {
			case Hint::Bool: {
				uint8_t v = tape.u8() & 1;
				std::string buf(n, '\0');
				buf[0] = static_cast<char>(v);
				emit(dst, buf.data(), n);
				return;
			}
			case Hint::Enum: {
				uint64_t v = tape.u8();
				if (v == 0xFF)
					v = tape.u16();
				else
					v %= 8;
				v = forcedOr(v);
				uint64_t le = v;
				char buf[8] = {};
				memcpy(buf, &le, n < 8 ? n : 8);
				if (n <= 8)
					emit(dst, buf, n);
				else {
					std::string z(n, '\0');
					emit(dst, z.data(), n);
				}
				return;
			}
			case Hint::Integral: {
				uint64_t v = forcedOr(countLike(n));
				if (type == "BSGeometry" && n == 1) {
					// format precondition: mesh slots are filled from the front
					if (bsGeomZeroSeen && v != 0) {
						v = 0;
						preconds++;
					}
					if (v == 0)
						bsGeomZeroSeen = true;
				}
				char buf[8] = {};
				memcpy(buf, &v, 8);
				if (n <= 8)
					emit(dst, buf, n);
				else {
					std::string z(n, '\0');
					emit(dst, z.data(), n);
				}
				return;
			}
			case Hint::Float: {
				if (n == 4) {
					float f = niceFloat();
					emit(dst, &f, 4);
				}
				else if (n == 8) {
					double d = niceFloat();
					emit(dst, &d, 8);
				}
				else {
					std::string z(n, '\0');
					emit(dst, z.data(), n);
				}
				return;
			}
			case Hint::Half: {
				half_float::half h(niceFloat());
				float back = h;
				if (!std::isfinite(back))
					h = half_float::half(1.0f);
				emit(dst, &h, 2);
				return;
			}
			case Hint::Pod: {
				std::string buf(n, '\0');
				if (n % 4 == 0 && n <= 256) {
					for (size_t i = 0; i < n; i += 4) {
						float f = niceFloat();
						memcpy(&buf[i], &f, 4);
					}
				}
				else {
					for (size_t i = 0; i < n; i++)
						buf[i] = static_cast<char>(tape.u8() % 4);
				}
				emit(dst, buf.data(), n);
				return;
			}
			case Hint::BlockRef: {
				refsRead++;
				uint32_t v = 0xFFFFFFFFu;
				uint8_t b = tape.u8();
				if (b >= 0x90 && !plan.refTargets.empty()) {
					v = plan.refTargets[b % plan.refTargets.size()];
					refsSet++;
				}
				emit(dst, &v, 4);
				return;
			}
			case Hint::StringIndex: {
				strRead++;
				uint32_t v = 0xFFFFFFFFu;
				uint8_t b = tape.u8();
				if (b >= 0x90 && plan.numStrings > 0) {
					v = b % plan.numStrings;
					strSet++;
				}
				emit(dst, &v, 4);
				return;
			}
			case Hint::Raw:
			default: {
				if (n == 1 || n == 2 || n == 4) {
					uint64_t v = forcedOr(countLike(n));
					char buf[8] = {};
					memcpy(buf, &v, 8);
					emit(dst, buf, n);
				}
				else {
					std::string buf(n, '\0');
					for (size_t i = 0; i < n; i++)
						buf[i] = static_cast<char>('a' + tape.u8() % 6);
					emit(dst, buf.data(), n);
				}
				return;
			}
		}
	}

	static void readCb(void* ctx, char* dst, std::streamsize count, nifly::verif::Hint hint, std::size_t es) {
		auto self = static_cast<Supplier*>(ctx);
		if (self->wantSites) {
			// identity of the reading code: the chain of return addresses above the hook (frame pointers are
			// kept); only used to pick tapes, never by an oracle
			uint64_t a = reinterpret_cast<uint64_t>(__builtin_return_address(0));
			uint64_t b = reinterpret_cast<uint64_t>(__builtin_return_address(1));
			uint64_t c = reinterpret_cast<uint64_t>(__builtin_return_address(2));
			uint64_t d = reinterpret_cast<uint64_t>(__builtin_return_address(3));
			uint64_t e = reinterpret_cast<uint64_t>(__builtin_return_address(4));
			uint64_t f = reinterpret_cast<uint64_t>(__builtin_return_address(5));
			uint64_t k = a;
			k = k * 1099511628211ull ^ b;
			k = k * 1099511628211ull ^ c;
			k = k * 1099511628211ull ^ d;
			k = k * 1099511628211ull ^ e;
			k = k * 1099511628211ull ^ f;
			self->noteSite(k ^ (static_cast<uint64_t>(hint) << 56));
		}
		self->doRead(dst, count, hint, es);
	}
	static void getlineCb(void* ctx, char* dst, std::streamsize maxCount) {
		auto self = static_cast<Supplier*>(ctx);
		std::string s = "line";
		if (static_cast<std::streamsize>(s.size()) >= maxCount)
			s.resize(maxCount > 0 ? static_cast<size_t>(maxCount - 1) : 0);
		memcpy(dst, s.c_str(), s.size() + 1);
		self->rec += s + "\n";
	}
	static void getstringCb(void* ctx, std::string& str) {
		auto self = static_cast<Supplier*>(ctx);
		uint32_t n = self->tape.u8() % 6;
		str.clear();
		for (uint32_t i = 0; i < n; i++)
			str.push_back(static_cast<char>('a' + self->tape.u8() % 6));
		self->rec += str;
		self->rec.push_back('\0');
	}
};

// The strings every synthesised file carries in its header table (index order)
inline const std::vector<std::string>& synthStrings() {
	static const std::vector<std::string> s = {"Scene Root", "alpha", "beta", "textures\\a.dds", "NiOptimizeKeep", "BSX",
												"Bip01", "materials\\m.bgsm"};
	return s;
}

// Feed one block of `type` in version `v` from the tape. Hooks are active only inside.
inline SynthResult synthBlock(const std::string& type, const VersionCfg& v, Tape& tape, const SynthPlan& plan) {
	SynthResult res;
	auto factory = nifly::NiFactoryRegister::Get().GetFactoryByName(type);
	if (!factory)
		return res;

	nifly::NiHeader hdr;
	hdr.SetVersion(v.ni());
	if (v.file >= 0x14010001)
		for (uint32_t i = 0; i < plan.numStrings && i < synthStrings().size(); i++)
			hdr.AddOrFindStringId(synthStrings()[i]);

	std::istringstream empty;
	nifly::NiIStream stream(&empty, &hdr);

	Supplier sup(tape, plan, type);
	sup.wantSites = plan.wantSites;
	nifly::verif::Hooks hooks;
	hooks.read = &Supplier::readCb;
	hooks.getline = &Supplier::getlineCb;
	hooks.getstring = &Supplier::getstringCb;
	hooks.ctx = &sup;
	nifly::verif::hooks = &hooks;
	try {
		res.obj = factory->Load(stream);
		res.ok = true;
	}
	catch (const SynthAbort& a) {
		res.aborted = true;
		res.abortWhy = a.why;
	}
	catch (const std::bad_alloc&) {
		res.aborted = true;
		res.abortWhy = "bad_alloc";
	}
	catch (const std::length_error&) {
		res.aborted = true;
		res.abortWhy = "length_error";
	}
	nifly::verif::hooks = nullptr;
	res.payload = std::move(sup.rec);
	res.reads = sup.reads;
	res.refsRead = sup.refsRead;
	res.refsSet = sup.refsSet;
	res.strRead = sup.strRead;
	res.strSet = sup.strSet;
	res.preconditionsApplied = sup.preconds;
	res.trace = std::move(sup.trace);
	res.shape = sup.shape;
	res.sites = std::move(sup.sites);
	res.intReads = sup.intReads;
	res.forced = sup.forcedApplied;
	return res;
}

// Overwrite every serialised field of an EXISTING block by reading a generated payload into it
// (the block's own Get through the same hooks): an in-place edit of all of its state, including
// nested heap objects it owns. References and string indices are left empty.
inline bool resynthInPlace(nifly::NiObject& obj, nifly::NiHeader& hdr, Tape& tape, int forceRead = -1, uint64_t forceValue = 0, float floatSalt = 0.0f) {
	std::istringstream empty;
	nifly::NiIStream stream(&empty, &hdr);
	SynthPlan plan;
	plan.maxBytes = 96 * 1024;
	plan.forceRead = forceRead;
	plan.forceValue = forceValue;
	plan.floatSalt = floatSalt;
	Supplier sup(tape, plan, obj.GetBlockName());
	nifly::verif::Hooks hooks;
	hooks.read = &Supplier::readCb;
	hooks.getline = &Supplier::getlineCb;
	hooks.getstring = &Supplier::getstringCb;
	hooks.ctx = &sup;
	auto prev = nifly::verif::hooks;
	nifly::verif::hooks = &hooks;
	bool ok = true;
	try {
		obj.Get(stream);
	}
	catch (const SynthAbort&) {
		ok = false;
	}
	catch (const std::bad_alloc&) {
		ok = false;
	}
	catch (const std::length_error&) {
		ok = false;
	}
	nifly::verif::hooks = prev;
	return ok;
}

inline const std::vector<std::string>& registeredTypes() {
	static const std::vector<std::string> names = nifly::NiFactoryRegister::Get().GetRegisteredNames();
	return names;
}

// Serialise a block built in memory (generator side only)
inline std::string putBlock(nifly::NiObject& obj, const VersionCfg& v, nifly::NiHeader* hdrIn = nullptr) {
	nifly::NiHeader local;
	nifly::NiHeader* hdr = hdrIn;
	if (!hdr) {
		local.SetVersion(v.ni());
		hdr = &local;
	}
	std::ostringstream os(std::ios::binary);
	nifly::NiOStream out(&os, hdr);
	obj.Put(out);
	return os.str();
}

struct SynthFile {
	bool ok = false;
	bool aborted = false;
	std::string bytes;
	std::string type;		 // block under test
	uint32_t subjectIndex = 1;
	size_t payloadSize = 0;
	SynthResult subject;
};

// Minimal payload length of (type, version): the all-zero tape
inline size_t minimalPayloadSize(const std::string& type, size_t vi) {
	static std::map<std::pair<std::string, size_t>, size_t> cache;
	auto key = std::make_pair(type, vi);
	auto it = cache.find(key);
	if (it != cache.end())
		return it->second;
	std::vector<uint8_t> z;
	Tape t(z);
	SynthPlan plan;
	plan.numStrings = static_cast<uint32_t>(synthStrings().size());
	auto r = synthBlock(type, versions()[vi], t, plan);
	size_t n = r.ok ? r.payload.size() : 0;
	cache[key] = n;
	return n;
}

// Synthesised file: block 0 = root NiNode listing all others as children,
// blocks 1..k = subjects (fed from the tape, in order), blocks k+1.. = minimal target
// blocks. Subject i may reference subjects j > i and the targets, so the reference
// graph is acyclic by construction and every block is reachable from the root.
inline SynthFile synthMultiFile(const std::vector<std::string>& types, size_t vi, Tape& tape, bool wantTrace = false) {
	static const char* targetTypes[] = {"NiNode", "NiStringExtraData", "BSShaderTextureSet", "NiTriShapeData",
										"NiAlphaProperty"};
	const VersionCfg& v = versions()[vi];
	SynthFile out;
	const uint32_t k = static_cast<uint32_t>(types.size());
	const uint32_t nTargets = 5;
	out.type = types.empty() ? "" : types[0];

	mini::File f = mini::skeleton(v.file, v.user, v.stream);
	if (v.file >= 0x14010001)
		f.strings = synthStrings();
	{
		nifly::NiNode root;
		root.name.get() = "Scene Root";
		root.name.SetIndex(0);
		for (uint32_t i = 0; i < nTargets + k; i++)
			root.childRefs.AddBlockRef(1 + i);
		mini::addBlock(f, "NiNode", putBlock(root, v));
	}
	for (uint32_t i = 0; i < k; i++) {
		SynthPlan plan;
		plan.numStrings = v.file >= 0x14010001 ? static_cast<uint32_t>(synthStrings().size()) : 0;
		for (uint32_t j = i + 2; j <= k; j++)
			plan.refTargets.push_back(j);
		for (uint32_t j = 0; j < nTargets; j++)
			plan.refTargets.push_back(k + 1 + j);
		plan.wantTrace = wantTrace;
		if (i == 0) {
			plan.forceRead = force().read;
			plan.forceValue = force().value;
		}
		SynthResult r = synthBlock(types[i], v, tape, plan);
		if (!r.ok) {
			out.aborted = r.aborted;
			return out;
		}
		out.payloadSize += r.payload.size();
		mini::addBlock(f, types[i], r.payload);
		if (i == 0)
			out.subject = std::move(r);
	}
	std::vector<uint8_t> z;
	for (uint32_t i = 0; i < nTargets; i++) {
		Tape zt(z);
		SynthPlan p0;
		auto r = synthBlock(targetTypes[i], v, zt, p0);
		if (!r.ok)
			return out;
		mini::addBlock(f, targetTypes[i], r.payload);
	}
	out.bytes = mini::write(f);
	out.ok = true;
	return out;
}

// Single-subject file: root, subject at index 1, five targets at 2..6
inline SynthFile synthSingleFile(const std::string& type, size_t vi, Tape& tape, bool wantTrace = false) {
	return synthMultiFile({type}, vi, tape, wantTrace);
}

} // namespace vf
