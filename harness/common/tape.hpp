// Choice tape: the single source of randomness for every generated case.
// A tape is a byte vector produced by rapidcheck (generation + shrinking), by
// libFuzzer (coverage-guided mutation) or read from a replay file. Harnesses
// decode structured cases from it. An exhausted tape reads as zeros, which every
// decoder maps to the smallest / simplest choice, so shorter tapes and smaller
// bytes mean simpler cases and shrinking the tape shrinks the case.
#pragma once
#include <cstddef>
#include <cstdint>
#include <cstring>
#include <string>
#include <vector>

namespace vf {

class Tape {
public:
	Tape(const uint8_t* p, size_t n)
		: p_(p)
		, n_(n) {}
	explicit Tape(const std::vector<uint8_t>& v)
		: p_(v.data())
		, n_(v.size()) {}

	bool exhausted() const { return pos_ >= n_; }
	size_t pos() const { return pos_; }
	size_t size() const { return n_; }
	size_t draws() const { return draws_; }

	uint8_t peek() const { return pos_ < n_ ? p_[pos_] : 0; }
	uint8_t u8() {
		++draws_;
		return pos_ < n_ ? p_[pos_++] : 0;
	}
	uint16_t u16() {
		uint16_t a = u8();
		return static_cast<uint16_t>(a | (u8() << 8));
	}
	uint32_t u32() {
		uint32_t a = u16();
		return a | (static_cast<uint32_t>(u16()) << 16);
	}
	uint64_t u64() {
		uint64_t a = u32();
		return a | (static_cast<uint64_t>(u32()) << 32);
	}
	bool coin() { return (u8() & 1) != 0; }
	// true with probability about num/256
	bool chance(unsigned num) { return u8() >= 256 - num && num > 0; }

	// uniform-ish in [lo, hi]; 0 maps to lo
	uint32_t range(uint32_t lo, uint32_t hi) {
		if (hi <= lo)
			return lo;
		uint32_t span = hi - lo;
		uint32_t v;
		if (span < 256)
			v = u8();
		else if (span < 65536)
			v = u16();
		else
			v = u32();
		if (span == 0xFFFFFFFFu)
			return lo + v;
		return lo + v % (span + 1);
	}
	int irange(int lo, int hi) { return lo + static_cast<int>(range(0, static_cast<uint32_t>(hi - lo))); }

	// small count: mostly 0..4, sometimes up to `big`
	uint32_t count(uint32_t big = 16) {
		uint8_t b = u8();
		if (b < 0x60)
			return 0;
		if (b < 0xA0)
			return 1;
		if (b < 0xC8)
			return 2;
		if (b < 0xE0)
			return 3;
		if (b < 0xF8)
			return 4 + (big > 4 ? u8() % (big - 3) : 0);
		return big;
	}

	template<typename T>
	const T& pick(const std::vector<T>& v) {
		return v[range(0, static_cast<uint32_t>(v.size() - 1))];
	}

	// float in [lo, hi], 0 maps to lo; 16-bit resolution
	float unit() { return u16() / 65535.0f; }
	float frange(float lo, float hi) { return lo + (hi - lo) * unit(); }

	// "nice" game-scale float
	float nice() {
		static const float tbl[16] = {0.0f, 1.0f, -1.0f, 0.5f, -0.5f, 0.25f, 2.0f, 100.0f,
									  1e-3f, 3.0f, -2.0f, 10.0f, 0.125f, -100.0f, 7.5f, 64.0f};
		uint8_t b = u8();
		if (b < 0x80)
			return tbl[b & 15];
		int16_t s = static_cast<int16_t>(u16());
		return s / 64.0f;
	}

	std::vector<uint8_t> bytes(size_t n) {
		std::vector<uint8_t> r(n);
		for (auto& b : r)
			b = u8();
		return r;
	}

	std::vector<uint8_t> rest() {
		std::vector<uint8_t> r;
		while (pos_ < n_)
			r.push_back(p_[pos_++]);
		return r;
	}

private:
	const uint8_t* p_;
	size_t n_;
	size_t pos_ = 0;
	size_t draws_ = 0;
};

inline uint64_t fnv1a(const void* data, size_t n, uint64_t h = 1469598103934665603ull) {
	auto p = static_cast<const uint8_t*>(data);
	for (size_t i = 0; i < n; i++) {
		h ^= p[i];
		h *= 1099511628211ull;
	}
	return h;
}
inline uint64_t fnv1a(const std::string& s, uint64_t h = 1469598103934665603ull) {
	return fnv1a(s.data(), s.size(), h);
}
template<typename T>
inline uint64_t hash_mix(uint64_t h, const T& v) {
	return fnv1a(&v, sizeof(T), h);
}

inline std::string to_hex(const uint8_t* p, size_t n) {
	static const char* d = "0123456789abcdef";
	std::string s;
	s.reserve(n * 2);
	for (size_t i = 0; i < n; i++) {
		s.push_back(d[p[i] >> 4]);
		s.push_back(d[p[i] & 15]);
	}
	return s;
}
inline std::string to_hex(const std::string& b) {
	return to_hex(reinterpret_cast<const uint8_t*>(b.data()), b.size());
}
inline std::string to_hex(const std::vector<uint8_t>& b) {
	return to_hex(b.data(), b.size());
}
inline std::vector<uint8_t> from_hex(const std::string& s) {
	std::vector<uint8_t> r;
	auto val = [](char c) -> int {
		if (c >= '0' && c <= '9')
			return c - '0';
		if (c >= 'a' && c <= 'f')
			return c - 'a' + 10;
		if (c >= 'A' && c <= 'F')
			return c - 'A' + 10;
		return -1;
	};
	for (size_t i = 0; i + 1 < s.size(); i += 2) {
		int a = val(s[i]), b = val(s[i + 1]);
		if (a < 0 || b < 0)
			break;
		r.push_back(static_cast<uint8_t>(a * 16 + b));
	}
	return r;
}

} // namespace vf
