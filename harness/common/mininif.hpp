// MiniNif: an independent reader/writer for the NIF header, block tables and
// footer. It shares no code with nifly and trusts only the header tables. Used as
// the independent reader of C07, the relabeller of C03, the assembler of Engine S
// and the block-level differ of C01/C02/C08.
#pragma once
#include <cstdint>
#include <cstring>
#include <string>
#include <vector>

namespace mini {

struct Version {
	uint32_t file = 0;
	uint32_t user = 0;
	uint32_t stream = 0;
	bool isOB() const {
		return ((file == 0x0A01006A || file == 0x0A020000) && user >= 3 && user < 11)
			   || (file == 0x14000004 && (user == 10 || user == 11)) || (file == 0x14000005 && user == 11);
	}
	bool isBethesda() const { return (file == 0x14020007 && user >= 11) || isOB(); }
	bool hasSizes() const { return file >= 0x14020005; }
	bool hasStrings() const { return file >= 0x14010001; }
	bool stringIndices() const { return file >= 0x14010003; }
	bool hasGroupId() const { return file >= 0x0A000000 && file < 0x0A010072; }
	std::string tag() const {
		char b[64];
		snprintf(b, sizeof b, "%u.%u.%u.%u/u%u/s%u", file >> 24, (file >> 16) & 255, (file >> 8) & 255, file & 255, user,
				 stream);
		return b;
	}
};

struct File {
	bool ok = false;
	std::string error;
	std::string versionLine; // without '\n'
	Version ver;
	uint8_t endian = 1;
	uint32_t numBlocks = 0;
	// Bethesda stream header
	std::string creator, export1, export2, export3; // raw bytes as stored (incl. trailing NUL if present)
	uint32_t unkInt1 = 0;
	std::vector<std::string> typeNames;
	std::vector<uint16_t> typeIndex;
	std::vector<uint32_t> sizes;
	uint32_t maxStringLen = 0;
	std::vector<std::string> strings;
	std::vector<uint32_t> groups;
	size_t headerEnd = 0; // offset of first block payload
	size_t sizeTablePos = 0;
	std::vector<std::string> payloads; // only when sizes are known (or supplied)
	std::string footer;				   // everything after the last payload

	std::string typeOf(size_t i) const {
		if (i < typeIndex.size() && typeIndex[i] < typeNames.size())
			return typeNames[typeIndex[i]];
		return "?";
	}
};

class Reader {
public:
	Reader(const std::string& d)
		: d_(d) {}
	bool eof() const { return p_ >= d_.size(); }
	size_t pos() const { return p_; }
	bool ok() const { return ok_; }
	template<typename T>
	T get() {
		T v{};
		if (p_ + sizeof(T) > d_.size()) {
			ok_ = false;
			p_ = d_.size();
			return v;
		}
		memcpy(&v, d_.data() + p_, sizeof(T));
		p_ += sizeof(T);
		return v;
	}
	std::string bytes(size_t n) {
		if (p_ + n > d_.size() || p_ + n < p_) {
			ok_ = false;
			p_ = d_.size();
			return {};
		}
		std::string s = d_.substr(p_, n);
		p_ += n;
		return s;
	}
	std::string s1() { return bytes(get<uint8_t>()); }
	std::string s4() {
		uint32_t n = get<uint32_t>();
		if (n > d_.size()) {
			ok_ = false;
			return {};
		}
		return bytes(n);
	}
	std::string line() {
		std::string s;
		while (p_ < d_.size() && d_[p_] != '\n')
			s.push_back(d_[p_++]);
		if (p_ < d_.size())
			p_++;
		else
			ok_ = false;
		return s;
	}

private:
	const std::string& d_;
	size_t p_ = 0;
	bool ok_ = true;
};

// Parse header (+ payload slices when a size table exists). Forward walk only.
inline File parse(const std::string& data) {
	File f;
	Reader r(data);
	f.versionLine = r.line();
	if (!r.ok() || f.versionLine.find("File Format, Version ") == std::string::npos) {
		f.error = "bad version line";
		return f;
	}
	f.ver.file = r.get<uint32_t>();
	if (f.ver.file >= 0x14000003)
		f.endian = r.get<uint8_t>();
	if (f.ver.file >= 0x0A000108)
		f.ver.user = r.get<uint32_t>();
	f.numBlocks = r.get<uint32_t>();
	if (f.ver.isBethesda()) {
		f.ver.stream = r.get<uint32_t>();
		f.creator = r.s1();
		if (f.ver.stream > 130)
			f.unkInt1 = r.get<uint32_t>();
		f.export1 = r.s1();
		f.export2 = r.s1();
		if (f.ver.stream == 130)
			f.export3 = r.s1();
	}
	if (!r.ok() || f.numBlocks > data.size()) {
		f.error = "truncated header";
		return f;
	}
	if (f.ver.file >= 0x05000001) {
		uint16_t nt = r.get<uint16_t>();
		for (uint16_t i = 0; i < nt && r.ok(); i++)
			f.typeNames.push_back(r.s4());
		for (uint32_t i = 0; i < f.numBlocks && r.ok(); i++)
			f.typeIndex.push_back(r.get<uint16_t>());
	}
	if (f.ver.hasSizes()) {
		f.sizeTablePos = r.pos();
		for (uint32_t i = 0; i < f.numBlocks && r.ok(); i++)
			f.sizes.push_back(r.get<uint32_t>());
	}
	if (f.ver.hasStrings()) {
		uint32_t ns = r.get<uint32_t>();
		f.maxStringLen = r.get<uint32_t>();
		if (ns > data.size()) {
			f.error = "string count";
			return f;
		}
		for (uint32_t i = 0; i < ns && r.ok(); i++)
			f.strings.push_back(r.s4());
	}
	if (f.ver.file >= 0x05000006) {
		uint32_t ng = r.get<uint32_t>();
		if (ng > data.size()) {
			f.error = "group count";
			return f;
		}
		for (uint32_t i = 0; i < ng && r.ok(); i++)
			f.groups.push_back(r.get<uint32_t>());
	}
	if (!r.ok()) {
		f.error = "truncated header tables";
		return f;
	}
	f.headerEnd = r.pos();
	if (f.ver.hasSizes()) {
		for (uint32_t i = 0; i < f.numBlocks; i++) {
			f.payloads.push_back(r.bytes(f.sizes[i]));
			if (!r.ok()) {
				f.error = "payload " + std::to_string(i) + " runs past end of file";
				return f;
			}
		}
		f.footer = data.substr(r.pos());
	}
	f.ok = true;
	return f;
}

class Writer {
public:
	template<typename T>
	void put(T v) {
		out.append(reinterpret_cast<const char*>(&v), sizeof(T));
	}
	void s1(const std::string& s) {
		put<uint8_t>(static_cast<uint8_t>(s.size()));
		out += s;
	}
	void s4(const std::string& s) {
		put<uint32_t>(static_cast<uint32_t>(s.size()));
		out += s;
	}
	std::string out;
};

// Serialise a File (header from fields, payloads as given, sizes from payload lengths
// when the version has a size table, footer as given or the canonical 8 bytes).
inline std::string write(const File& f) {
	Writer w;
	w.out = f.versionLine + "\n";
	w.put<uint32_t>(f.ver.file);
	if (f.ver.file >= 0x14000003)
		w.put<uint8_t>(f.endian);
	if (f.ver.file >= 0x0A000108)
		w.put<uint32_t>(f.ver.user);
	w.put<uint32_t>(static_cast<uint32_t>(f.payloads.size()));
	if (f.ver.isBethesda()) {
		w.put<uint32_t>(f.ver.stream);
		w.s1(f.creator);
		if (f.ver.stream > 130)
			w.put<uint32_t>(f.unkInt1);
		w.s1(f.export1);
		w.s1(f.export2);
		if (f.ver.stream == 130)
			w.s1(f.export3);
	}
	if (f.ver.file >= 0x05000001) {
		w.put<uint16_t>(static_cast<uint16_t>(f.typeNames.size()));
		for (auto& t : f.typeNames)
			w.s4(t);
		for (auto i : f.typeIndex)
			w.put<uint16_t>(i);
	}
	if (f.ver.hasSizes())
		for (auto& p : f.payloads)
			w.put<uint32_t>(static_cast<uint32_t>(p.size()));
	if (f.ver.hasStrings()) {
		w.put<uint32_t>(static_cast<uint32_t>(f.strings.size()));
		uint32_t mx = 0;
		for (auto& s : f.strings)
			if (s.size() > mx)
				mx = static_cast<uint32_t>(s.size());
		w.put<uint32_t>(mx);
		for (auto& s : f.strings)
			w.s4(s);
	}
	if (f.ver.file >= 0x05000006) {
		w.put<uint32_t>(static_cast<uint32_t>(f.groups.size()));
		for (auto g : f.groups)
			w.put<uint32_t>(g);
	}
	for (auto& p : f.payloads)
		w.out += p;
	if (f.footer.empty()) {
		w.put<uint32_t>(1);
		w.put<uint32_t>(0);
	}
	else
		w.out += f.footer;
	return w.out;
}

inline std::string versionLine(uint32_t file) {
	char b[96];
	snprintf(b, sizeof b, "Gamebryo File Format, Version %u.%u.%u.%u", file >> 24, (file >> 16) & 255, (file >> 8) & 255,
			 file & 255);
	return b;
}

// Build a file skeleton for a version (no blocks yet)
inline File skeleton(uint32_t file, uint32_t user, uint32_t stream) {
	File f;
	f.ok = true;
	f.ver.file = file;
	f.ver.user = user;
	f.ver.stream = stream;
	f.versionLine = versionLine(file);
	f.endian = 1;
	f.creator = std::string("v\0", 2);
	f.export1 = std::string("\0", 1);
	f.export2 = std::string("\0", 1);
	f.export3 = std::string("\0", 1);
	return f;
}

inline void addBlock(File& f, const std::string& type, const std::string& payload) {
	uint16_t ti = 0xFFFF;
	for (size_t i = 0; i < f.typeNames.size(); i++)
		if (f.typeNames[i] == type)
			ti = static_cast<uint16_t>(i);
	if (ti == 0xFFFF) {
		ti = static_cast<uint16_t>(f.typeNames.size());
		f.typeNames.push_back(type);
	}
	f.typeIndex.push_back(ti);
	f.payloads.push_back(payload);
	f.sizes.push_back(static_cast<uint32_t>(payload.size()));
	f.numBlocks = static_cast<uint32_t>(f.payloads.size());
}

} // namespace mini
