// Fork isolation for cases that may crash or hang the process: the case runs in a forked
// child of the sanitised harness; the parent collects exit status and the child's output,
// classifies abnormal exits by the sanitizer summary line / signal and the first library
// frame, and kills children that exceed the time limit.
#pragma once
#include <fcntl.h>
#include <poll.h>
#include <signal.h>
#include <sys/wait.h>
#include <unistd.h>

#include <chrono>
#include <cstdio>
#include <cstdlib>
#include <cstring>
#include <functional>
#include <map>
#include <string>

namespace vf {

struct ChildResult {
	bool ok = false;	   // exited with code 0
	bool timeout = false;
	bool crashed = false;  // signal or sanitizer exit code
	int exitCode = 0;
	int sig = 0;
	std::string output;	   // stdout + stderr of the child (tail)
	std::string kind;	   // e.g. "heap-buffer-overflow", "stack-overflow", "SEGV", "timeout", "undefined-behaviour"
	std::string frame;	   // first nifly:: frame
	double seconds = 0;
};

namespace iso {
	inline void classify(ChildResult& r) {
		const std::string& t = r.output;
		size_t p = t.find("SUMMARY: ");
		if (p != std::string::npos) {
			size_t e = t.find('\n', p);
			std::string line = t.substr(p + 9, e == std::string::npos ? std::string::npos : e - p - 9);
			// "AddressSanitizer: heap-buffer-overflow /path:1:2 in fn" | "UndefinedBehaviorSanitizer: undefined-behavior ..."
			size_t c = line.find(": ");
			std::string rest = c == std::string::npos ? line : line.substr(c + 2);
			r.kind = rest.substr(0, rest.find(' '));
		}
		else if (t.find("runtime error:") != std::string::npos)
			r.kind = "undefined-behavior";
		if (r.kind.empty() && r.sig)
			r.kind = std::string("signal-") + std::to_string(r.sig);
		if (r.kind == "stack-overflow") {
			// unbounded recursion: name the function that dominates the stack, not whatever ran last
			std::map<std::string, int> freq;
			size_t q2 = 0;
			while ((q2 = t.find(" in nifly", q2)) != std::string::npos) {
				size_t s = q2 + 4;
				size_t e = t.find_first_of("(\n ", s);
				std::string fn = t.substr(s, e == std::string::npos ? std::string::npos : e - s);
				size_t lt = fn.find('<');
				if (lt != std::string::npos)
					fn = fn.substr(0, lt);
				freq[fn]++;
				q2 = s;
			}
			int best = 0;
			for (auto& kv : freq)
				if (kv.second > best) {
					best = kv.second;
					r.frame = kv.first;
				}
			if (!r.frame.empty())
				return;
		}
		// first frame inside the library
		size_t q = 0;
		while ((q = t.find(" in nifly", q)) != std::string::npos) {
			size_t s = q + 4;
			size_t e = t.find_first_of("(\n ", s);
			std::string fn = t.substr(s, e == std::string::npos ? std::string::npos : e - s);
			if (fn.rfind("nifly", 0) == 0) {
				// strip the namespace variants and template noise
				size_t lt = fn.find('<');
				if (lt != std::string::npos)
					fn = fn.substr(0, lt);
				r.frame = fn;
				break;
			}
			q = s;
		}
	}
} // namespace iso

// Runs fn in a forked child. fn returns the child's exit code (0 = fine, 1..60 = verdict codes
// chosen by the caller). Everything the child prints is captured.
inline ChildResult runIsolated(const std::function<int()>& fn, int timeoutSec) {
	ChildResult res;
	int pfd[2];
	if (pipe(pfd) != 0) {
		res.kind = "pipe-failed";
		return res;
	}
	fflush(stdout);
	fflush(stderr);
	auto t0 = std::chrono::steady_clock::now();
	pid_t pid = fork();
	if (pid < 0) {
		close(pfd[0]);
		close(pfd[1]);
		res.kind = "fork-failed";
		return res;
	}
	if (pid == 0) {
		close(pfd[0]);
		dup2(pfd[1], 1);
		dup2(pfd[1], 2);
		close(pfd[1]);
		int code = 99;
		try {
			code = fn();
		}
		catch (const std::exception& e) {
			printf("CHILD-EXCEPTION %s\n", e.what());
			code = 98;
		}
		catch (...) {
			printf("CHILD-EXCEPTION unknown\n");
			code = 98;
		}
		fflush(stdout);
		fflush(stderr);
		_exit(code);
	}
	close(pfd[1]);
	std::string out;
	char buf[4096];
	bool killed = false;
	for (;;) {
		double el = std::chrono::duration<double>(std::chrono::steady_clock::now() - t0).count();
		int remain = static_cast<int>((timeoutSec - el) * 1000);
		if (remain <= 0) {
			kill(pid, SIGKILL);
			killed = true;
			break;
		}
		struct pollfd p = {pfd[0], POLLIN, 0};
		int pr = poll(&p, 1, remain > 500 ? 500 : remain);
		if (pr > 0) {
			ssize_t n = read(pfd[0], buf, sizeof buf);
			if (n <= 0)
				break;
			out.append(buf, static_cast<size_t>(n));
			if (out.size() > 200000)
				out.erase(0, out.size() - 100000);
		}
	}
	close(pfd[0]);
	int status = 0;
	waitpid(pid, &status, 0);
	res.seconds = std::chrono::duration<double>(std::chrono::steady_clock::now() - t0).count();
	res.output = out.size() > 6000 ? out.substr(0, 3000) + "\n...\n" + out.substr(out.size() - 3000) : out;
	if (killed) {
		res.timeout = true;
		res.kind = "timeout";
		return res;
	}
	if (WIFEXITED(status)) {
		res.exitCode = WEXITSTATUS(status);
		res.ok = res.exitCode == 0;
		if (res.exitCode == 86 || res.exitCode == 87 || res.exitCode == 1 && out.find("Sanitizer") != std::string::npos) {
			res.crashed = true;
			res.output = out.size() > 6000 ? out.substr(0, 5000) + "\n...\n" + out.substr(out.size() - 1000) : out;
			iso::classify(res);
		}
	}
	else if (WIFSIGNALED(status)) {
		res.crashed = true;
		res.sig = WTERMSIG(status);
		iso::classify(res);
	}
	return res;
}

// Runs fn(0..n-1) in ONE forked child (an execution shortcut for cases that are expected to pass:
// the fork of a sanitised process costs more than most cases). Returns the index of the first case
// that did not complete - sanitizer report, signal, non-zero return, or no progress within the time
// limit - or n when all completed. The caller decides such a case by running it on its own.
inline size_t runBatchIsolated(size_t n, const std::function<int(size_t)>& fn, int perCaseTimeoutSec) {
	int pfd[2];
	if (n == 0 || pipe(pfd) != 0)
		return 0;
	fflush(stdout);
	fflush(stderr);
	pid_t pid = fork();
	if (pid < 0) {
		close(pfd[0]);
		close(pfd[1]);
		return 0;
	}
	if (pid == 0) {
		close(pfd[0]);
		int nul = open("/dev/null", O_WRONLY);
		if (nul >= 0) {
			dup2(nul, 1);
			dup2(nul, 2);
		}
		for (size_t i = 0; i < n; i++) {
			int code = 99;
			try {
				code = fn(i);
			}
			catch (...) {
				code = 98;
			}
			if (code != 0)
				_exit(50);
			char b = 1;
			if (write(pfd[1], &b, 1) != 1)
				_exit(51);
		}
		_exit(0);
	}
	close(pfd[1]);
	size_t done = 0;
	auto last = std::chrono::steady_clock::now();
	bool killed = false;
	for (;;) {
		double el = std::chrono::duration<double>(std::chrono::steady_clock::now() - last).count();
		int remain = static_cast<int>((perCaseTimeoutSec - el) * 1000);
		if (remain <= 0) {
			kill(pid, SIGKILL);
			killed = true;
			break;
		}
		struct pollfd p = {pfd[0], POLLIN, 0};
		int pr = poll(&p, 1, remain > 500 ? 500 : remain);
		if (pr > 0) {
			char buf[256];
			ssize_t k = read(pfd[0], buf, sizeof buf);
			if (k <= 0)
				break;
			done += static_cast<size_t>(k);
			last = std::chrono::steady_clock::now();
		}
	}
	close(pfd[0]);
	int status = 0;
	waitpid(pid, &status, 0);
	(void) killed;
	if (done >= n && WIFEXITED(status) && WEXITSTATUS(status) == 0)
		return n;
	return done < n ? done : n - 1;
}

} // namespace vf
