// Common harness runner: argument parsing, rapidcheck-driven random phase,
// deterministic (enumerated) phase, replay, counters and shard result files.
//
// A harness supplies one property function over a choice tape. Everything a
// case needs is decoded from the tape, so the same function serves rapidcheck
// (generation + shrinking), enumerated tapes, libFuzzer and replay files.
#pragma once
#include "json.hpp"
#include "tape.hpp"

#include <fcntl.h>
#include <fnmatch.h>
#include <unistd.h>

#include <chrono>
#include <cstdio>
#include <cstdlib>
#include <cstring>
#include <fstream>
#include <functional>
#include <map>
#include <set>
#include <string>
#include <unordered_set>
#include <vector>

extern "C" {
typedef int (*vf_prop_fn)(const uint8_t* tape, size_t n, void* ctx);
int vf_rc_check(const char* name, vf_prop_fn fn, void* ctx, unsigned maxLen);
}

namespace vf {

enum Verdict { OK = 0, FAIL = 1, DISCARD = 2 };

struct Args {
	std::string tier = "quick";
	uint64_t seed = 1;
	int shard = 0;
	int nshards = 1;
	std::string outdir = ".";
	std::string replay;
	std::string knownFile;
	std::string corpus = "/verif/corpus";
	long cases = -1; // override of the random-phase case count (whole run, all shards)
	bool fuzz = false;
	std::string fuzzSeeds; // libFuzzer build: directory that receives enumerated tapes as the starting corpus
};

struct Failure {
	std::string signature;
	std::string detail; // JSON object
	std::vector<uint8_t> tape;
	std::string phase;
};

class Run {
public:
	std::string id;
	Args args;
	uint64_t evaluations = 0;
	uint64_t discards = 0;
	uint64_t bulkEnumerated = 0; // enumerated cases a harness executed itself (batched children)
	std::unordered_set<uint64_t> nontrivial;
	std::map<std::string, uint64_t> classes;
	std::map<std::string, uint64_t> knownHits;
	std::map<std::string, uint64_t> suppressedHits;
	std::map<std::string, uint64_t> excluded;
	std::map<std::string, double> maxima; // measured extrema (e.g. worst numerical error)
	std::vector<std::string> samples;
	std::vector<std::string> known;
	std::set<std::string> suppressed;
	bool haveCandidate = false;
	Failure candidate;
	std::vector<Failure> violations;
	std::vector<std::string> notes;
	const uint8_t* curTape = nullptr;
	size_t curTapeLen = 0;
	std::string phase = "random";
	bool replaying = false;
	bool feedAll = false; // enumerators that shard by themselves: feed() takes every tape
	// Bytes put in front of the tape of every recorded failure: how this process was prepared before its
	// first case (Harness::init), so that the replay in a fresh process starts from the same state
	std::vector<uint8_t> tapePrefix;
	// Enumerators that execute tested code themselves (e.g. to learn how many choices a state offers)
	// announce the tape they are working on first, so that a crash there is attributed to it
	std::function<void(const uint8_t*, size_t)> noteCurrent;
	size_t sampleLimit = 6;

	void cls(const std::string& c, uint64_t n = 1) { classes[c] += n; }
	void nontriv(uint64_t h) { nontrivial.insert(h); }
	void exclude(const std::string& why) { excluded[why]++; }
	void maxi(const std::string& k, double v) {
		auto it = maxima.find(k);
		if (it == maxima.end() || v > it->second)
			maxima[k] = v;
	}

	// true when the caller should build and add a sample for this case
	bool wantSample() const {
		if (samples.size() >= sampleLimit)
			return false;
		// first case, then at growing intervals
		uint64_t e = evaluations;
		return e == 1 || e == 7 || e == 61 || e == 331 || e == 1009 || e == 5003 || (e % 20011 == 0);
	}
	void sample(const std::string& json) {
		if (samples.size() < sampleLimit)
			samples.push_back(json);
	}

	bool isKnown(const std::string& sig) const {
		for (auto& k : known)
			if (k == sig || fnmatch(k.c_str(), sig.c_str(), 0) == 0)
				return true;
		return false;
	}

	// Report a violation of the property for the current case.
	Verdict fail(const std::string& sig, const std::string& detailJson = "{}") {
		if (!replaying) {
			if (isKnown(sig)) {
				knownHits[sig]++;
				return OK;
			}
			if (suppressed.count(sig)) {
				suppressedHits[sig]++;
				return OK;
			}
		}
		candidate.signature = sig;
		candidate.detail = detailJson;
		candidate.tape = replaying ? std::vector<uint8_t>() : tapePrefix;
		candidate.tape.insert(candidate.tape.end(), curTape, curTape + curTapeLen);
		candidate.phase = phase;
		haveCandidate = true;
		return FAIL;
	}
};

struct Harness {
	const char* id;
	Verdict (*prop)(Tape&, Run&);
	// optional: enumerated tapes; call feed(tape) for each
	void (*deterministic)(Run&, const std::function<void(const std::vector<uint8_t>&)>& feed);
	unsigned maxTape;
	long quickCases;
	long thoroughCases;
	// optional: extra text for the evidence "rule"
	const char* rule;
	// optional: prepares the process before its first case (not when replaying); may set run.tapePrefix
	void (*init)(Run&);
};

namespace detail {
	struct Ctx {
		const Harness* h;
		Run* run;
		int curFd = -1;
		uint64_t shrinkEvals = 0;
		uint64_t shrinkBudget = 4000;
	};

	inline void writeCurrent(Ctx* c, const uint8_t* p, size_t n) {
		if (c->curFd < 0)
			return;
		if (ftruncate(c->curFd, 0) != 0)
			return;
		ssize_t w = pwrite(c->curFd, p, n, 0);
		(void) w;
	}

	inline int propThunk(const uint8_t* p, size_t n, void* vctx) {
		auto c = static_cast<Ctx*>(vctx);
		Run& run = *c->run;
		// Bound the shrinking effort: once a failing case is recorded, at most shrinkBudget further
		// evaluations are spent on shrinking it; later candidates are answered "passes" unevaluated,
		// which ends rapidcheck's search with the smallest failing case found so far.
		if (run.haveCandidate && run.phase == "random") {
			if (c->shrinkEvals >= c->shrinkBudget)
				return 0;
			c->shrinkEvals++;
		}
		run.evaluations++;
		run.curTape = p;
		run.curTapeLen = n;
		if (run.tapePrefix.empty() || run.replaying)
			writeCurrent(c, p, n);
		else {
			std::vector<uint8_t> full = run.tapePrefix;
			full.insert(full.end(), p, p + n);
			writeCurrent(c, full.data(), full.size());
		}
		Tape t(p, n);
		Verdict v = c->h->prop(t, run);
		if (v == DISCARD)
			run.discards++;
		return static_cast<int>(v);
	}

	inline std::string readFile(const std::string& path) {
		std::ifstream f(path, std::ios::binary);
		std::stringstream ss;
		ss << f.rdbuf();
		return ss.str();
	}

	inline std::string failureJson(const std::string& id, const Failure& f) {
		return J().s("property", id)
			.s("signature", f.signature)
			.s("phase", f.phase)
			.s("tape_hex", to_hex(f.tape))
			.raw("detail", f.detail.empty() ? "{}" : f.detail)
			.s("expect", "violation")
			.str();
	}
	inline void writeShard(const Harness& h, Run& run, uint64_t detCount, uint64_t randomEvals,
						   std::chrono::steady_clock::time_point t0) {
		const Args& args = run.args;
		// ---- write replay files + shard result
		std::vector<std::string> vio;
		for (size_t i = 0; i < run.violations.size(); i++) {
			auto& f = run.violations[i];
			char name[256];
			snprintf(name, sizeof name, "%s/viol_%d_%zu.json", args.outdir.c_str(), args.shard, i);
			std::ofstream o(name);
			o << detail::failureJson(h.id, f) << "\n";
			vio.push_back(J().s("signature", f.signature).s("file", name).s("phase", f.phase).raw("detail", f.detail).str());
		}
		{
			std::string hp = args.outdir + "/hashes_" + std::to_string(args.shard) + ".bin";
			FILE* hf = fopen(hp.c_str(), "wb");
			if (hf) {
				for (auto v : run.nontrivial)
					fwrite(&v, sizeof v, 1, hf);
				fclose(hf);
			}
		}
		double wall = std::chrono::duration<double>(std::chrono::steady_clock::now() - t0).count();
		J maxi;
		for (auto& kv : run.maxima)
			maxi.f(kv.first, kv.second);
		std::string out = J().s("property", h.id)
							  .n("shard", args.shard)
							  .u("evaluations", run.evaluations)
							  .u("enumerated", detCount + run.bulkEnumerated)
							  .u("random", randomEvals)
							  .u("discards", run.discards)
							  .u("nontrivial_local", run.nontrivial.size())
							  .raw("classes", jmap_num(run.classes))
							  .raw("known_hits", jmap_num(run.knownHits))
							  .raw("suppressed_hits", jmap_num(run.suppressedHits))
							  .raw("excluded", jmap_num(run.excluded))
							  .raw("maxima", maxi.str())
							  .raw("samples", jarr_raw(run.samples))
							  .raw("violations", jarr_raw(vio))
							  .raw("notes", jarr_str(run.notes))
							  .s("rule", h.rule ? h.rule : "")
							  .f("wall_s", wall)
							  .str();
		std::ofstream o(args.outdir + "/shard_" + std::to_string(args.shard) + ".json");
		o << out << "\n";
		o.close();
		fprintf(stderr, "[%s shard %d] evaluations=%llu nontrivial=%zu violations=%zu wall=%.1fs\n", h.id, args.shard,
				static_cast<unsigned long long>(run.evaluations), run.nontrivial.size(), run.violations.size(), wall);
	}
} // namespace detail

inline Args parseArgs(int argc, char** argv) {
	Args a;
	for (int i = 1; i < argc; i++) {
		std::string k = argv[i];
		auto next = [&]() -> std::string { return i + 1 < argc ? argv[++i] : ""; };
		if (k == "--tier")
			a.tier = next();
		else if (k == "--seed")
			a.seed = std::strtoull(next().c_str(), nullptr, 10);
		else if (k == "--shard")
			a.shard = std::atoi(next().c_str());
		else if (k == "--nshards")
			a.nshards = std::atoi(next().c_str());
		else if (k == "--outdir")
			a.outdir = next();
		else if (k == "--replay")
			a.replay = next();
		else if (k == "--known")
			a.knownFile = next();
		else if (k == "--corpus")
			a.corpus = next();
		else if (k == "--cases")
			a.cases = std::atol(next().c_str());
		else if (k == "--fuzz-seeds")
			a.fuzzSeeds = next();
	}
	if (a.seed == 0)
		a.seed = 1;
	if (a.nshards < 1)
		a.nshards = 1;
	return a;
}

#ifndef VF_FUZZ

inline int harnessMain(int argc, char** argv, const Harness& h) {
	Args args = parseArgs(argc, argv);
	Run run;
	run.id = h.id;
	run.args = args;
	auto t0 = std::chrono::steady_clock::now();

	if (!args.knownFile.empty()) {
		std::ifstream kf(args.knownFile);
		std::string line;
		while (std::getline(kf, line))
			if (!line.empty())
				run.known.push_back(line);
	}

	detail::Ctx ctx;
	ctx.h = &h;
	ctx.run = &run;

	// ---- replay mode: run exactly the stored case, once
	if (!args.replay.empty()) {
		std::string text = detail::readFile(args.replay);
		std::string hex;
		if (!json_get_string(text, "tape_hex", hex)) {
			fprintf(stderr, "replay file has no tape_hex: %s\n", args.replay.c_str());
			return 3;
		}
		auto tape = from_hex(hex);
		run.replaying = true;
		run.phase = "replay";
		int v = detail::propThunk(tape.data(), tape.size(), &ctx);
		printf("REPLAY property=%s verdict=%s signature=%s\n", h.id, v == FAIL ? "FAIL" : v == OK ? "OK" : "DISCARD",
			   run.haveCandidate ? run.candidate.signature.c_str() : "-");
		if (run.haveCandidate)
			printf("REPLAY-DETAIL %.1500s\n", run.candidate.detail.c_str());
		fflush(stdout);
		return v == FAIL ? 1 : 0;
	}

	std::string curPath = args.outdir + "/current_" + std::to_string(args.shard) + ".tape";
	ctx.curFd = open(curPath.c_str(), O_CREAT | O_RDWR | O_TRUNC, 0644);
	if (h.init)
		h.init(run);
	run.noteCurrent = [&ctx](const uint8_t* p, size_t n) { detail::writeCurrent(&ctx, p, n); };

	// ---- deterministic phase (enumerated tapes), sharded by index
	uint64_t detCount = 0;
	if (h.deterministic) {
		run.phase = "enumerated";
		uint64_t idx = 0;
		std::set<std::string> seenSigs;
		auto feed = [&](const std::vector<uint8_t>& tape) {
			uint64_t my = idx++;
			if (!run.feedAll && static_cast<int>(my % static_cast<uint64_t>(args.nshards)) != args.shard)
				return;
			detCount++;
			run.haveCandidate = false;
			int v = detail::propThunk(tape.data(), tape.size(), &ctx);
			if (v == FAIL && run.haveCandidate) {
				if (!seenSigs.count(run.candidate.signature)) {
					seenSigs.insert(run.candidate.signature);
					run.violations.push_back(run.candidate);
				}
				run.suppressed.insert(run.candidate.signature);
				run.haveCandidate = false;
			}
		};
		h.deterministic(run, feed);
	}

	// ---- random phase: rapidcheck generates and shrinks tapes
	long total = args.cases >= 0 ? args.cases : (args.tier == "thorough" ? h.thoroughCases : h.quickCases);
	long mine = total / args.nshards + ((total % args.nshards) > args.shard ? 1 : 0);
	uint64_t randomEvals0 = run.evaluations;
	if (mine > 0 && h.prop) {
		run.phase = "random";
		// one rapidcheck configuration per process: RC_PARAMS is read once
		uint64_t rcSeed = args.seed * 1000003ull + static_cast<uint64_t>(args.shard) * 7919ull + 17;
		std::string params = "seed=" + std::to_string(rcSeed) + " max_success=" + std::to_string(mine)
							 + " max_size=100 max_discard_ratio=20";
		setenv("RC_PARAMS", params.c_str(), 1);
		const int maxRounds = args.tier == "thorough" ? 4 : 2;
		for (int round = 0; round < maxRounds; round++) {
			run.haveCandidate = false;
			ctx.shrinkEvals = 0;
			ctx.shrinkBudget = args.tier == "thorough" ? 20000 : 4000;
			int ok = vf_rc_check(h.id, detail::propThunk, &ctx, h.maxTape);
			if (ok)
				break;
			if (!run.haveCandidate) {
				run.notes.push_back("rapidcheck reported failure without a recorded candidate (gave up / discard ratio?)");
				break;
			}
			// candidate is the last failing case = the shrunk one
			run.violations.push_back(run.candidate);
			run.suppressed.insert(run.candidate.signature);
		}
	}
	uint64_t randomEvals = run.evaluations - randomEvals0;

	if (ctx.curFd >= 0) {
		close(ctx.curFd);
		unlink(curPath.c_str());
	}

	detail::writeShard(h, run, detCount, randomEvals, t0);
	return 0;
}

#else // VF_FUZZ: the same property function behind libFuzzer (coverage-guided search over tapes)

// Build: -DVF_FUZZ -Dmain=vf_harness_main -fsanitize=fuzzer. The harness's main() (renamed) is called
// from LLVMFuzzerInitialize and registers the harness here instead of running it. Every
// input libFuzzer tries is a tape; a failing verdict is written out at once as a replay file
// (first per signature) and the campaign continues behind it; counters are written at exit.
namespace detail {
	struct FuzzState {
		Harness h{};
		Run run;
		Ctx ctx;
		std::set<std::string> seenSigs;
		std::chrono::steady_clock::time_point t0;
		uint64_t seeds = 0;
	};
	inline FuzzState*& fuzzState() {
		static FuzzState* s = nullptr;
		return s;
	}
	inline void fuzzAtExit() {
		FuzzState* st = fuzzState();
		if (!st)
			return;
		st->run.cls("engine:libFuzzer", st->run.evaluations);
		st->run.cls("libFuzzer:seed-tapes", st->seeds);
		st->run.violations.clear(); // replay files were written when found
		writeShard(st->h, st->run, 0, st->run.evaluations, st->t0);
	}
} // namespace detail

inline int harnessMain(int argc, char** argv, const Harness& h) {
	auto st = new detail::FuzzState; // never freed: used from atexit
	detail::fuzzState() = st;
	st->h = h;
	st->t0 = std::chrono::steady_clock::now();
	Run& run = st->run;
	run.id = h.id;
	run.args = parseArgs(argc, argv);
	const Args& args = run.args;
	if (!args.knownFile.empty()) {
		std::ifstream kf(args.knownFile);
		std::string line;
		while (std::getline(kf, line))
			if (!line.empty())
				run.known.push_back(line);
	}
	st->ctx.h = &st->h;
	st->ctx.run = &run;
	std::string curPath = args.outdir + "/current_" + std::to_string(args.shard) + ".tape";
	st->ctx.curFd = open(curPath.c_str(), O_CREAT | O_RDWR | O_TRUNC, 0644);
	if (h.init)
		h.init(run);
	// starting corpus: this shard's share of the enumerated tapes (at most ~400), unevaluated
	if (!args.fuzzSeeds.empty() && h.deterministic) {
		uint64_t idx = 0, mine = 0;
		std::vector<std::vector<uint8_t>> all;
		h.deterministic(run, [&](const std::vector<uint8_t>& tape) {
			if (run.feedAll || static_cast<int>(idx++ % static_cast<uint64_t>(args.nshards)) == args.shard % args.nshards)
				all.push_back(tape);
		});
		size_t stride = all.size() / 400 + 1;
		for (size_t i = 0; i < all.size(); i += stride) {
			char name[512];
			snprintf(name, sizeof name, "%s/seed_%06zu", args.fuzzSeeds.c_str(), i);
			FILE* f = fopen(name, "wb");
			if (f) {
				fwrite(all[i].data(), 1, all[i].size(), f);
				fclose(f);
				mine++;
			}
		}
		st->seeds = mine;
		run.classes.clear();
	}
	run.phase = "fuzz";
	atexit(detail::fuzzAtExit);
	return 0;
}

#endif // VF_FUZZ

} // namespace vf

#ifdef VF_FUZZ
int vf_harness_main(int argc, char** argv); // the harness's main(), renamed by -Dmain=vf_harness_main

extern "C" int LLVMFuzzerInitialize(int* argc, char*** argv) {
	return vf_harness_main(*argc, *argv);
}

extern "C" int LLVMFuzzerTestOneInput(const uint8_t* data, size_t size) {
	auto st = vf::detail::fuzzState();
	vf::Run& run = st->run;
	run.haveCandidate = false;
	int v = vf::detail::propThunk(data, size, &st->ctx);
	if (v == vf::FAIL && run.haveCandidate) {
		if (!st->seenSigs.count(run.candidate.signature)) {
			st->seenSigs.insert(run.candidate.signature);
			char name[512];
			snprintf(name, sizeof name, "%s/viol_%d_%zu.json", run.args.outdir.c_str(), run.args.shard, st->seenSigs.size());
			std::ofstream o(name);
			o << vf::detail::failureJson(st->h.id, run.candidate) << "\n";
			o.close();
			std::ofstream idx(run.args.outdir + "/fuzzviol_" + std::to_string(run.args.shard) + ".txt", std::ios::app);
			idx << name << "\t" << run.candidate.signature << "\n";
		}
		run.suppressed.insert(run.candidate.signature);
		run.haveCandidate = false;
	}
	return 0;
}
#endif
