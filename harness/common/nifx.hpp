// nifly-facing helpers shared by the harnesses: version table, load/save through
// byte strings, sample corpus access.
#pragma once
#include "NifFile.hpp"
#include "mininif.hpp"

#include <dirent.h>

#include <algorithm>
#include <fstream>
#include <sstream>
#include <string>
#include <vector>

namespace vf {

struct VersionCfg {
	const char* name;
	uint32_t file;
	uint32_t user;
	uint32_t stream;
	nifly::NiVersion ni() const { return nifly::NiVersion(static_cast<nifly::NiFileVersion>(file), user, stream); }
};

// The supported version configurations (DESIGN.md section 3, "V")
inline const std::vector<VersionCfg>& versions() {
	static const std::vector<VersionCfg> v = {
		{"10.0.1.0", 0x0A000100, 0, 0},
		{"OB10.1", 0x0A01006A, 10, 5},
		{"OB10.2", 0x0A020000, 10, 5},
		{"OB20.0.0.4", 0x14000004, 11, 11},
		{"OB", 0x14000005, 11, 11},
		{"FO3", 0x14020007, 11, 34},
		{"SK", 0x14020007, 12, 83},
		{"SSE", 0x14020007, 12, 100},
		{"FO4", 0x14020007, 12, 130},
		{"FO4_132", 0x14020007, 12, 132},
		{"FO4_139", 0x14020007, 12, 139},
		{"FO76", 0x14020007, 12, 155},
		{"SF", 0x14020007, 12, 172},
		{"SF173", 0x14020007, 12, 173},
	};
	return v;
}

inline std::string versionName(const nifly::NiVersion& v) {
	for (auto& c : versions())
		if (c.file == static_cast<uint32_t>(v.File()) && c.user == v.User() && c.stream == v.Stream())
			return c.name;
	char b[64];
	snprintf(b, sizeof b, "%08x/u%u/s%u", static_cast<uint32_t>(v.File()), v.User(), v.Stream());
	return b;
}

inline int loadBytes(nifly::NifFile& nif, const std::string& bytes, bool terrain = false) {
	std::istringstream in(bytes, std::ios::binary);
	nifly::NifLoadOptions lo;
	lo.isTerrain = terrain;
	return nif.Load(in, lo);
}

inline const nifly::NifSaveOptions& rawOpts() {
	static nifly::NifSaveOptions o = [] {
		nifly::NifSaveOptions s;
		s.optimize = false;
		s.sortBlocks = false;
		return s;
	}();
	return o;
}
inline const nifly::NifSaveOptions& defOpts() {
	static nifly::NifSaveOptions o;
	return o;
}

inline int saveBytes(nifly::NifFile& nif, std::string& out, const nifly::NifSaveOptions& opts) {
	std::ostringstream os(std::ios::binary);
	int rc = nif.Save(os, opts);
	out = os.str();
	return rc;
}

struct CorpusFile {
	std::string name;
	std::string bytes;
};

inline const std::vector<CorpusFile>& corpus(const std::string& dir = "/verif/corpus") {
	static std::vector<CorpusFile> files;
	static bool loaded = false;
	if (!loaded) {
		loaded = true;
		std::vector<std::string> names;
		if (DIR* d = opendir(dir.c_str())) {
			while (auto e = readdir(d)) {
				std::string n = e->d_name;
				if (n.size() > 4 && n.substr(n.size() - 4) == ".nif")
					names.push_back(n);
			}
			closedir(d);
		}
		std::sort(names.begin(), names.end());
		for (auto& n : names) {
			std::ifstream f(dir + "/" + n, std::ios::binary);
			std::stringstream ss;
			ss << f.rdbuf();
			std::string shortName = n;
			if (shortName.rfind("TestNifFile_", 0) == 0)
				shortName = shortName.substr(12);
			shortName = shortName.substr(0, shortName.size() - 4);
			files.push_back({shortName, ss.str()});
		}
	}
	return files;
}

// First differing block between two files (by MiniNif); "-" if not locatable
inline std::string firstDiff(const std::string& a, const std::string& b) {
	if (a == b)
		return "same";
	auto fa = mini::parse(a), fb = mini::parse(b);
	if (!fa.ok || !fb.ok)
		return "unparsable";
	if (fa.numBlocks != fb.numBlocks)
		return "block-count " + std::to_string(fa.numBlocks) + "->" + std::to_string(fb.numBlocks);
	if (fa.typeNames != fb.typeNames)
		return "type-table";
	if (fa.typeIndex != fb.typeIndex)
		return "type-indices";
	if (fa.strings != fb.strings)
		return "string-table";
	if (fa.ver.hasSizes()) {
		for (size_t i = 0; i < fa.payloads.size(); i++)
			if (fa.payloads[i] != fb.payloads[i]) {
				size_t k = 0;
				while (k < fa.payloads[i].size() && k < fb.payloads[i].size() && fa.payloads[i][k] == fb.payloads[i][k])
					k++;
				return "block " + std::to_string(i) + " " + fa.typeOf(i) + " @" + std::to_string(k) + " size "
					   + std::to_string(fa.payloads[i].size()) + "->" + std::to_string(fb.payloads[i].size());
			}
		if (fa.footer != fb.footer)
			return "footer";
		return "header";
	}
	size_t k = 0;
	while (k < a.size() && k < b.size() && a[k] == b[k])
		k++;
	return "byte " + std::to_string(k) + " (headerEnd " + std::to_string(fa.headerEnd) + ") size "
		   + std::to_string(a.size()) + "->" + std::to_string(b.size());
}

} // namespace vf
