// nifly-facing helpers shared by the harnesses: version table, load/save through
// byte strings, sample corpus access.
#pragma once
#include "NifFile.hpp"
#include "corpus.hpp"
#include "diff.hpp"
#include "mininif.hpp"

#include <dirent.h>

#include <algorithm>
#include <fstream>
#include <sstream>
#include <string>
#include <vector>

namespace vf {

struct VersionCfg {
	const char* name;
	uint32_t file;
	uint32_t user;
	uint32_t stream;
	nifly::NiVersion ni() const { return nifly::NiVersion(static_cast<nifly::NiFileVersion>(file), user, stream); }
};

// The supported version configurations (DESIGN.md section 3, "V")
inline const std::vector<VersionCfg>& versions() {
	static const std::vector<VersionCfg> v = {
		{"10.0.1.0", 0x0A000100, 0, 0},
		{"OB10.1", 0x0A01006A, 10, 5},
		{"OB10.2", 0x0A020000, 10, 5},
		{"OB20.0.0.4", 0x14000004, 11, 11},
		{"OB", 0x14000005, 11, 11},
		{"FO3", 0x14020007, 11, 34},
		{"SK", 0x14020007, 12, 83},
		{"SSE", 0x14020007, 12, 100},
		{"FO4", 0x14020007, 12, 130},
		{"FO4_132", 0x14020007, 12, 132},
		{"FO4_139", 0x14020007, 12, 139},
		{"FO76", 0x14020007, 12, 155},
		{"SF", 0x14020007, 12, 172},
		{"SF173", 0x14020007, 12, 173},
	};
	return v;
}

inline std::string versionName(const nifly::NiVersion& v) {
	for (auto& c : versions())
		if (c.file == static_cast<uint32_t>(v.File()) && c.user == v.User() && c.stream == v.Stream())
			return c.name;
	char b[64];
	snprintf(b, sizeof b, "%08x/u%u/s%u", static_cast<uint32_t>(v.File()), v.User(), v.Stream());
	return b;
}

inline int loadBytes(nifly::NifFile& nif, const std::string& bytes, bool terrain = false) {
	std::istringstream in(bytes, std::ios::binary);
	nifly::NifLoadOptions lo;
	lo.isTerrain = terrain;
	return nif.Load(in, lo);
}

inline const nifly::NifSaveOptions& rawOpts() {
	static nifly::NifSaveOptions o = [] {
		nifly::NifSaveOptions s;
		s.optimize = false;
		s.sortBlocks = false;
		return s;
	}();
	return o;
}
inline const nifly::NifSaveOptions& defOpts() {
	static nifly::NifSaveOptions o;
	return o;
}

inline int saveBytes(nifly::NifFile& nif, std::string& out, const nifly::NifSaveOptions& opts) {
	std::ostringstream os(std::ios::binary);
	int rc = nif.Save(os, opts);
	out = os.str();
	return rc;
}

} // namespace vf
