// Passive observation of a block's serialisation (hooks H3/H4): payload bytes plus the
// offsets of every block-reference and string-index field. Always applied to a CLONE of
// a live block: Put is not read-only (it drops empty references, resizes palettes, ...).
#pragma once
#include "nifx.hpp"

#include <sstream>

namespace vf {

struct PutObs {
	std::string payload;
	std::vector<std::streamsize> refOffsets;
	std::vector<std::streamsize> strOffsets;
	std::vector<nifly::NiRef*> refPtrs;
	std::vector<nifly::NiStringRef*> strPtrs;
	std::vector<std::string> strTexts; // text of each string reference at the time it was written

	static void onRef(void* ctx, nifly::NiRef* r, bool writing, std::streamsize off) {
		if (!writing)
			return;
		auto o = static_cast<PutObs*>(ctx);
		o->refPtrs.push_back(r);
		o->refOffsets.push_back(off);
	}
	static void onStr(void* ctx, nifly::NiStringRef* r, bool writing, std::streamsize off) {
		if (!writing)
			return;
		auto o = static_cast<PutObs*>(ctx);
		o->strPtrs.push_back(r);
		o->strOffsets.push_back(off);
		o->strTexts.push_back(r->get());
	}
};

// Put `obj` itself (mutating, see above) with observers installed
inline PutObs observedPutLive(nifly::NiObject& obj, nifly::NiHeader& hdr) {
	PutObs obs;
	nifly::verif::Hooks hooks;
	hooks.onBlockRef = &PutObs::onRef;
	hooks.onStringRef = &PutObs::onStr;
	hooks.ctx = &obs;
	std::ostringstream os(std::ios::binary);
	nifly::NiOStream out(&os, &hdr);
	auto prev = nifly::verif::hooks;
	nifly::verif::hooks = &hooks;
	obj.Put(out);
	nifly::verif::hooks = prev;
	obs.payload = os.str();
	return obs;
}

// Snapshot of a live block through a clone (pointer lists refer to the clone and are dropped)
inline PutObs observedPutClone(const nifly::NiObject& obj, nifly::NiHeader& hdr) {
	auto c = obj.Clone();
	PutObs o = observedPutLive(*c, hdr);
	o.refPtrs.clear();
	o.strPtrs.clear();
	return o;
}

inline uint32_t rd32(const std::string& s, size_t off) {
	uint32_t v = 0xFFFFFFFFu;
	if (off + 4 <= s.size())
		memcpy(&v, s.data() + off, 4);
	return v;
}

// Canonical, order-independent rendering of one block payload:
//  - each string-index field is replaced by the string text (from `strings`)
//  - optionally each block-reference field is replaced through `refMap` (or masked)
struct CanonOpts {
	const std::vector<std::string>* strings = nullptr; // table the indices refer to
	bool stringsByText = false;						   // use the in-memory text of each string reference instead
	bool maskRefs = false;
	const std::vector<uint32_t>* refMap = nullptr; // old index -> canonical id
};

inline std::string canonPayload(const PutObs& o, const CanonOpts& opt) {
	std::string out;
	size_t pos = 0;
	// merge the two offset lists in order
	size_t ri = 0, si = 0;
	while (ri < o.refOffsets.size() || si < o.strOffsets.size()) {
		bool takeRef = si >= o.strOffsets.size() || (ri < o.refOffsets.size() && o.refOffsets[ri] < o.strOffsets[si]);
		size_t off = static_cast<size_t>(takeRef ? o.refOffsets[ri] : o.strOffsets[si]);
		if (off < pos || off + 4 > o.payload.size())
			break;
		out.append(o.payload, pos, off - pos);
		uint32_t v = rd32(o.payload, off);
		if (takeRef) {
			ri++;
			if (opt.maskRefs)
				out += "<R>";
			else if (opt.refMap) {
				uint32_t m = (v != 0xFFFFFFFFu && v < opt.refMap->size()) ? (*opt.refMap)[v] : v;
				out += "<R" + std::to_string(static_cast<int32_t>(m)) + ">";
			}
			else
				out.append(o.payload, off, 4);
		}
		else {
			si++;
			if (opt.stringsByText && si - 1 < o.strTexts.size())
				out += "<S:" + o.strTexts[si - 1] + ">";
			else if (opt.strings) {
				if (v == 0xFFFFFFFFu)
					out += "<S->";
				else if (v < opt.strings->size())
					out += "<S:" + (*opt.strings)[v] + ">";
				else
					out += "<S!out-of-table " + std::to_string(v) + ">";
			}
			else
				out.append(o.payload, off, 4);
		}
		pos = off + 4;
	}
	out.append(o.payload, pos, std::string::npos);
	return out;
}

} // namespace vf
