// Block-level file differ on top of MiniNif (no nifly dependency).
#pragma once
#include "mininif.hpp"

#include <string>

namespace vf {

// First differing block between two files (by MiniNif); "-" if not locatable
inline std::string firstDiff(const std::string& a, const std::string& b) {
	if (a == b)
		return "same";
	auto fa = mini::parse(a), fb = mini::parse(b);
	if (!fa.ok || !fb.ok)
		return "unparsable";
	if (fa.numBlocks != fb.numBlocks)
		return "block-count " + std::to_string(fa.numBlocks) + "->" + std::to_string(fb.numBlocks);
	if (fa.typeNames != fb.typeNames)
		return "type-table";
	if (fa.typeIndex != fb.typeIndex)
		return "type-indices";
	if (fa.strings != fb.strings)
		return "string-table";
	if (fa.ver.hasSizes()) {
		for (size_t i = 0; i < fa.payloads.size(); i++)
			if (fa.payloads[i] != fb.payloads[i]) {
				size_t k = 0;
				while (k < fa.payloads[i].size() && k < fb.payloads[i].size() && fa.payloads[i][k] == fb.payloads[i][k])
					k++;
				return "block " + std::to_string(i) + " " + fa.typeOf(i) + " @" + std::to_string(k) + " size "
					   + std::to_string(fa.payloads[i].size()) + "->" + std::to_string(fb.payloads[i].size());
			}
		if (fa.footer != fb.footer)
			return "footer";
		return "header";
	}
	size_t k = 0;
	while (k < a.size() && k < b.size() && a[k] == b[k])
		k++;
	return "byte " + std::to_string(k) + " (headerEnd " + std::to_string(fa.headerEnd) + ") size "
		   + std::to_string(a.size()) + "->" + std::to_string(b.size());
}

} // namespace vf
