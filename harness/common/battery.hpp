// Query battery: one read-only pass over a NifFile through its public query API,
// rendered as canonical text. Two variants:
//   indexed  - includes block ids and block order (valid when blocks may not move)
//   logical  - ids replaced by names/content, shape records sorted (valid across a
//              permutation / pruning of blocks)
// Floats are rendered by bit pattern so equality is exact.
#pragma once
#include "nifx.hpp"
#include "tape.hpp"

#include <algorithm>
#include <cstring>
#include <map>
#include <set>
#include <string>
#include <unordered_map>

namespace vf {

struct BatteryOpts {
	bool indexed = true;
	bool withBounds = true;
	bool withPartitions = true; // GetShapePartitions / GetShapeSegments
	bool withHeaderStringsOrder = false;
};

namespace bat {
	inline void f(std::string& o, float v) {
		uint32_t b;
		memcpy(&b, &v, 4);
		char buf[12];
		snprintf(buf, sizeof buf, "%08x ", b);
		o += buf;
	}
	inline void v3(std::string& o, const nifly::Vector3& v) {
		f(o, v.x);
		f(o, v.y);
		f(o, v.z);
	}
	inline void xf(std::string& o, const nifly::MatTransform& t) {
		v3(o, t.translation);
		for (int r = 0; r < 3; r++)
			v3(o, t.rotation[r]);
		f(o, t.scale);
	}
	inline uint64_t h(const std::string& s) { return fnv1a(s); }
	template<typename T>
	inline void hv(std::string& o, const char* tag, const std::vector<T>& v) {
		// large arrays are summarised as count + hash of raw bytes
		char buf[64];
		snprintf(buf, sizeof buf, "%s[%zu]#%016llx ", tag, v.size(),
				 static_cast<unsigned long long>(v.empty() ? 0 : fnv1a(v.data(), v.size() * sizeof(T))));
		o += buf;
	}
} // namespace bat

inline std::string shapeRecord(nifly::NifFile& nif, nifly::NiShape* shape, const BatteryOpts& opt) {
	using namespace nifly;
	auto& hdr = nif.GetHeader();
	std::string o;
	o += "shape ";
	o += shape->GetBlockName();
	o += " name=" + shape->name.get();
	if (opt.indexed)
		o += " id=" + std::to_string(nif.GetBlockID(shape));
	auto parent = nif.GetParentNode(shape);
	o += " parent=" + (parent ? parent->name.get() : std::string("<none>"));
	o += " nv=" + std::to_string(shape->GetNumVertices()) + " nt=" + std::to_string(shape->GetNumTriangles());
	o += " flags:" + std::to_string(shape->HasVertices()) + std::to_string(shape->HasUVs()) + std::to_string(shape->HasNormals())
		 + std::to_string(shape->HasTangents()) + std::to_string(shape->HasVertexColors()) + std::to_string(shape->IsSkinned());
	o += " xf=";
	bat::xf(o, shape->GetTransformToParent());

	std::vector<Vector3> verts;
	nif.GetVertsForShape(shape, verts);
	bat::hv(o, "verts", verts);
	// the pointer-returning overload answers from (and refreshes) a cached copy inside the shape
	if (auto pv = nif.GetVertsForShape(shape))
		bat::hv(o, "verts(cached copy)", *pv);
	std::vector<Triangle> tris;
	shape->GetTriangles(tris);
	bat::hv(o, "tris", tris);
	std::vector<Vector2> uvs;
	if (nif.GetUvsForShape(shape, uvs))
		bat::hv(o, "uvs", uvs);
	if (auto n = nif.GetNormalsForShape(shape))
		bat::hv(o, "normals", *n);
	std::vector<Vector3> tan, bit;
	if (nif.GetTangentsForShape(shape, tan))
		bat::hv(o, "tangents", tan);
	if (nif.GetBitangentsForShape(shape, bit))
		bat::hv(o, "bitangents", bit);
	std::vector<Color4> cols;
	if (nif.GetColorsForShape(shape, cols))
		bat::hv(o, "colors", cols);
	std::vector<float> eye;
	if (NifFile::GetEyeDataForShape(shape, eye))
		bat::hv(o, "eye", eye);
	if (opt.withBounds) {
		auto b = shape->GetBounds();
		o += "bounds=";
		bat::v3(o, b.center);
		bat::f(o, b.radius);
	}

	// skin
	std::vector<std::string> bones;
	nif.GetShapeBoneList(shape, bones);
	o += "bones[" + std::to_string(bones.size()) + "]:";
	for (auto& b : bones)
		o += b + ",";
	if (opt.indexed) {
		std::vector<int> ids;
		nif.GetShapeBoneIDList(shape, ids);
		o += " boneids:";
		for (auto i : ids)
			o += std::to_string(i) + ",";
	}
	for (uint32_t bi = 0; bi < bones.size() && bi < 256; bi++) {
		std::unordered_map<uint16_t, float> w;
		nif.GetShapeBoneWeights(shape, bi, w);
		std::vector<std::pair<uint16_t, float>> sorted(w.begin(), w.end());
		std::sort(sorted.begin(), sorted.end());
		uint64_t hh = 1469598103934665603ull;
		for (auto& p : sorted) {
			hh = hash_mix(hh, p.first);
			hh = hash_mix(hh, p.second);
		}
		char buf[48];
		snprintf(buf, sizeof buf, " w%u[%zu]#%llx", bi, sorted.size(), static_cast<unsigned long long>(hh));
		o += buf;
		MatTransform t;
		if (nif.GetShapeTransformSkinToBone(shape, bi, t)) {
			o += " s2b=";
			bat::xf(o, t);
		}
	}
	MatTransform g2s;
	if (nif.GetShapeTransformGlobalToSkin(shape, g2s)) {
		o += " g2s=";
		bat::xf(o, g2s);
	}
	if (opt.withPartitions) {
		NiVector<BSDismemberSkinInstance::PartitionInfo> pinfo;
		std::vector<int> triParts;
		if (nif.GetShapePartitions(shape, pinfo, triParts)) {
			o += " parts[" + std::to_string(pinfo.size()) + "]:";
			for (uint32_t i = 0; i < pinfo.size(); i++)
				o += std::to_string(pinfo[i].flags) + "/" + std::to_string(pinfo[i].partID) + ",";
			bat::hv(o, "triParts", triParts);
		}
		NifSegmentationInfo inf;
		std::vector<int> segParts;
		if (NifFile::GetShapeSegments(shape, inf, segParts)) {
			o += " segs[" + std::to_string(inf.segs.size()) + "] ssf=" + inf.ssfFile + ":";
			for (auto& s : inf.segs) {
				o += std::to_string(s.partID) + "(";
				for (auto& ss : s.subs) {
					o += std::to_string(ss.partID) + "/" + std::to_string(ss.userSlotID) + "/" + std::to_string(ss.material) + "/";
					bat::hv(o, "x", ss.extraData);
				}
				o += ")";
			}
			bat::hv(o, "segParts", segParts);
		}
	}

	// shader / textures / alpha
	if (auto sh = nif.GetShader(shape)) {
		o += std::string(" shader=") + sh->GetBlockName() + " type=" + std::to_string(sh->GetShaderType());
		o += " ms=" + std::to_string(sh->IsModelSpace()) + " vc=" + std::to_string(sh->HasVertexColors()) + " va=" + std::to_string(sh->HasVertexAlpha())
			 + " sk=" + std::to_string(sh->IsSkinned()) + " ds=" + std::to_string(sh->IsDoubleSided()) + " em=" + std::to_string(sh->IsEmissive())
			 + " env=" + std::to_string(sh->HasEnvironmentMapping()) + " glow=" + std::to_string(sh->HasGlowmap());
		bat::f(o, sh->GetGlossiness());
		bat::f(o, sh->GetSpecularStrength());
		bat::f(o, sh->GetAlpha());
		bat::f(o, sh->GetEmissiveMultiple());
		bat::v3(o, sh->GetSpecularColor());
		o += " wet=" + sh->GetWetMaterialName();
		if (auto bsp = dynamic_cast<BSShaderProperty*>(sh))
			o += " f1=" + std::to_string(bsp->shaderFlags1) + " f2=" + std::to_string(bsp->shaderFlags2);
	}
	for (uint32_t slot = 0; slot < 13; slot++) {
		std::string tex;
		uint32_t r = nif.GetTextureSlot(shape, tex, slot);
		if (r)
			o += " tex" + std::to_string(slot) + "=" + std::to_string(r) + ":" + tex;
	}
	if (auto ap = nif.GetAlphaProperty(shape))
		o += " alpha=" + std::to_string(ap->flags) + "/" + std::to_string(ap->threshold);
	o += " sse=" + std::to_string(nif.IsSSECompatible(shape));
	(void) hdr;
	return o;
}

inline std::string battery(nifly::NifFile& nif, const BatteryOpts& opt) {
	using namespace nifly;
	auto& hdr = nif.GetHeader();
	std::string out;
	out += "valid=" + std::to_string(nif.IsValid()) + " unknown=" + std::to_string(nif.HasUnknown()) + " terrain=" + std::to_string(nif.IsTerrain()) + "\n";
	if (!nif.IsValid())
		return out;

	// header
	if (opt.indexed) {
		out += "blocks=" + std::to_string(hdr.GetNumBlocks()) + ":";
		for (uint32_t i = 0; i < hdr.GetNumBlocks(); i++)
			out += hdr.GetBlockTypeStringById(i) + ",";
		out += "\n";
	}
	else {
		std::map<std::string, int> typeCount;
		for (uint32_t i = 0; i < hdr.GetNumBlocks(); i++)
			typeCount[hdr.GetBlockTypeStringById(i)]++;
		(void) typeCount; // pruning may change counts; reported through shapes/nodes below
	}
	out += "creator=" + hdr.GetCreatorInfo() + " export=" + hdr.GetExportInfo() + "\n";

	// In the logical variant only blocks reachable from the root are described: a default
	// save may prune unreferenced blocks (C04), which is not a change of content.
	std::set<NiObject*> reach;
	if (!opt.indexed) {
		std::vector<NiObject*> tree;
		nif.GetTree(tree);
		reach.insert(tree.begin(), tree.end());
	}
	// shapes
	std::vector<std::string> recs;
	for (auto s : nif.GetShapes())
		if (opt.indexed || reach.count(s))
			recs.push_back(shapeRecord(nif, s, opt));
	if (!opt.indexed)
		std::sort(recs.begin(), recs.end());
	for (auto& r : recs)
		out += r + "\n";
	if (opt.indexed) {
		out += "shapeNames:";
		for (auto& n : nif.GetShapeNames())
			out += n + ",";
		out += "\n";
	}

	// nodes
	std::vector<std::string> nrecs;
	for (auto n : nif.GetNodes()) {
		if (!opt.indexed && !reach.count(n))
			continue;
		std::string o = std::string("node ") + n->GetBlockName() + " name=" + n->name.get();
		if (opt.indexed)
			o += " id=" + std::to_string(nif.GetBlockID(n));
		auto p = nif.GetParentNode(n);
		o += " parent=" + (p ? p->name.get() : std::string("<none>"));
		o += " xf=";
		bat::xf(o, n->GetTransformToParent());
		o += " flags=" + std::to_string(n->flags);
		if (opt.indexed) {
			o += " children:";
			for (auto& c : n->childRefs)
				if (!c.IsEmpty()) // empty entries are dropped by every write (CleanInvalidRefs): not content
					o += std::to_string(static_cast<int>(c.index)) + ",";
		}
		else {
			// children as a sorted multiset of (type,name)
			std::vector<std::string> kids;
			for (auto& c : n->childRefs) {
				auto av = hdr.GetBlock<NiAVObject>(c);
				if (av)
					kids.push_back(std::string(av->GetBlockName()) + ":" + av->name.get());
				else if (!c.IsEmpty() && hdr.GetBlock<NiObject>(c))
					kids.push_back(std::string("?") + hdr.GetBlock<NiObject>(c)->GetBlockName());
			}
			// as a set: a default save may list a child fewer times than before, never more (C04)
			std::sort(kids.begin(), kids.end());
			kids.erase(std::unique(kids.begin(), kids.end()), kids.end());
			o += " children:";
			for (auto& k : kids)
				o += k + ",";
		}
		nrecs.push_back(o);
	}
	if (!opt.indexed)
		std::sort(nrecs.begin(), nrecs.end());
	for (auto& r : nrecs)
		out += r + "\n";

	auto root = nif.GetRootNode();
	out += "root=" + (root ? root->name.get() : std::string("<none>"));
	if (opt.indexed && root)
		out += " id=" + std::to_string(nif.GetBlockID(root));
	Vector3 rt;
	nif.GetRootTranslation(rt);
	out += " rt=";
	bat::v3(out, rt);
	out += "\n";

	// tree (types in traversal order; indexed variant only)
	if (opt.indexed) {
		std::vector<NiObject*> tree;
		nif.GetTree(tree);
		out += "tree:";
		for (auto b : tree)
			out += std::to_string(nif.GetBlockID(b)) + ",";
		out += "\n";
	}
	if (opt.indexed)
		out += "sse=" + std::to_string(nif.IsSSECompatible()) + "\n";
	else {
		// over the reachable shapes only (a default save may prune loose shapes)
		bool all = true;
		for (auto s : nif.GetShapes())
			if (reach.count(s) && !nif.IsSSECompatible(s))
				all = false;
		out += "sse=" + std::to_string(all) + "\n";
	}
	return out;
}

// First line on which two batteries differ (for reports)
inline std::string batteryDiff(const std::string& a, const std::string& b) {
	size_t i = 0, line = 1, ls = 0;
	while (i < a.size() && i < b.size() && a[i] == b[i]) {
		if (a[i] == '\n') {
			line++;
			ls = i + 1;
		}
		i++;
	}
	if (i == a.size() && i == b.size())
		return "same";
	auto lineOf = [&](const std::string& s) {
		size_t e = s.find('\n', ls);
		std::string l = s.substr(ls, e == std::string::npos ? std::string::npos : e - ls);
		// show the neighbourhood of the first difference
		size_t rel = i >= ls ? i - ls : 0;
		size_t from = rel > 60 ? rel - 60 : 0;
		return l.substr(from, 160);
	};
	return "line " + std::to_string(line) + ": [" + lineOf(a) + "] vs [" + lineOf(b) + "]";
}

} // namespace vf
