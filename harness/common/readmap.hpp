// Read map of a whole file: every NiIStream read the loader issues (offset, length, kind, and the
// identity of the reading code = chain of return addresses above the hook), recorded by a
// pass-through supplier on hook H1: the callback performs the real read on the real stream, so
// the load behaves exactly as without it. Used to place faults at field boundaries and to pick
// one representative per read site (never by an oracle).
#pragma once
#include "nifx.hpp"

#include <sstream>
#include <unordered_map>

namespace vf {

struct ReadRec {
	size_t pos = 0;
	size_t count = 0;
	uint64_t site = 0;
	uint8_t hint = 0;
};

struct ReadMap {
	int loadRc = -1;
	std::vector<ReadRec> reads;
};

namespace readmap_detail {
	struct Ctx {
		std::istream* is;
		std::vector<ReadRec>* out;
	};
	inline void readCb(void* vctx, char* dst, std::streamsize count, nifly::verif::Hint hint, std::size_t) {
		auto c = static_cast<Ctx*>(vctx);
		uint64_t k = reinterpret_cast<uint64_t>(__builtin_return_address(0));
		k = k * 1099511628211ull ^ reinterpret_cast<uint64_t>(__builtin_return_address(1));
		k = k * 1099511628211ull ^ reinterpret_cast<uint64_t>(__builtin_return_address(2));
		k = k * 1099511628211ull ^ reinterpret_cast<uint64_t>(__builtin_return_address(3));
		k = k * 1099511628211ull ^ reinterpret_cast<uint64_t>(__builtin_return_address(4));
		k = k * 1099511628211ull ^ reinterpret_cast<uint64_t>(__builtin_return_address(5));
		ReadRec r;
		std::streampos p = c->is->tellg();
		r.pos = p < 0 ? static_cast<size_t>(-1) : static_cast<size_t>(p);
		r.count = static_cast<size_t>(count);
		r.site = k ^ (static_cast<uint64_t>(hint) << 56);
		r.hint = static_cast<uint8_t>(hint);
		c->is->read(dst, count);
		if (r.pos != static_cast<size_t>(-1))
			c->out->push_back(r);
	}
} // namespace readmap_detail

inline ReadMap readMapOf(const std::string& bytes) {
	ReadMap m;
	std::istringstream in(bytes, std::ios::binary);
	readmap_detail::Ctx ctx{&in, &m.reads};
	nifly::verif::Hooks hooks;
	hooks.read = &readmap_detail::readCb;
	hooks.ctx = &ctx;
	auto prev = nifly::verif::hooks;
	nifly::verif::hooks = &hooks;
	{
		nifly::NifFile nif;
		m.loadRc = nif.Load(in);
	}
	nifly::verif::hooks = prev;
	return m;
}

// Offsets worth cutting / corrupting at: for each distinct read site its first `perSite`
// occurrences and its last one, each at the start of the field, one byte in, and one byte
// before its end (a partially read value keeps its low bytes).
inline std::vector<size_t> fieldCuts(const ReadMap& m, size_t perSite) {
	std::unordered_map<uint64_t, size_t> seen;
	std::unordered_map<uint64_t, const ReadRec*> last;
	std::vector<size_t> cuts;
	auto add = [&](const ReadRec& r) {
		cuts.push_back(r.pos);
		if (r.count > 1)
			cuts.push_back(r.pos + 1);
		if (r.count > 2)
			cuts.push_back(r.pos + r.count - 1);
	};
	for (auto& r : m.reads) {
		if (r.count == 0)
			continue;
		if (seen[r.site]++ < perSite)
			add(r);
		else
			last[r.site] = &r;
	}
	for (auto& kv : last)
		add(*kv.second);
	std::sort(cuts.begin(), cuts.end());
	cuts.erase(std::unique(cuts.begin(), cuts.end()), cuts.end());
	return cuts;
}

} // namespace vf
