// File-case decoder shared by the file-level properties (C01, C02, C03, C07, C08, C15, C16):
// a tape selects a sub-domain and the file is built from the rest of the tape.
//   domain byte 0: single synthesised subject   [0, type_lo, type_hi, version, block tape...]
//   domain byte 1: sample corpus file            [1, index]
//   domain byte 2: multi-block synthesised file  [2, version, k, (type_lo,type_hi) x k, block tapes...]
#pragma once
#include "harness.hpp"
#include "synth.hpp"

namespace vf {

struct FileCase {
	bool ok = false;
	std::string why;	// when !ok
	std::string bytes;
	std::string kind;	// "synth1" | "corpus" | "synthN"
	std::string label;	// type name / corpus name / type list
	std::string version;
	size_t vi = 0;
	bool populated = false; // non-trivial by the payload rule
	uint64_t hash = 0;
	size_t payloadSize = 0;
};

inline FileCase decodeFileCase(Tape& t, Run& run, bool allowCorpus = true) {
	FileCase c;
	auto& types = registeredTypes();
	uint8_t dom = t.u8() % 3;
	if (dom == 1 && !allowCorpus)
		dom = 0;
	if (dom == 1) {
		auto& cp = corpus(run.args.corpus);
		if (cp.empty()) {
			c.why = "corpus missing";
			return c;
		}
		size_t i = t.u8() % cp.size();
		c.kind = "corpus";
		c.label = cp[i].name;
		c.bytes = cp[i].bytes;
		auto mf = mini::parse(c.bytes);
		c.version = mf.ver.tag();
		c.ok = true;
		c.populated = true;
		c.hash = fnv1a(c.bytes);
		c.payloadSize = c.bytes.size();
		return c;
	}
	if (dom == 0) {
		size_t ti = t.u16() % types.size();
		size_t vi = t.u8() % versions().size();
		c.kind = "synth1";
		c.label = types[ti];
		c.vi = vi;
		c.version = versions()[vi].name;
		SynthFile sf = synthSingleFile(types[ti], vi, t);
		if (!sf.ok) {
			c.why = sf.aborted ? "synthesis aborted (payload limit)" : "synthesis failed";
			return c;
		}
		c.bytes = std::move(sf.bytes);
		c.payloadSize = sf.payloadSize;
		c.populated = sf.payloadSize > minimalPayloadSize(types[ti], vi);
		c.hash = hash_mix(fnv1a(sf.subject.payload, fnv1a(types[ti])), vi);
		c.ok = true;
		return c;
	}
	// multi
	size_t vi = t.u8() % versions().size();
	uint32_t k = 2 + t.u8() % 5;
	std::vector<std::string> ts;
	for (uint32_t i = 0; i < k; i++)
		ts.push_back(types[t.u16() % types.size()]);
	c.kind = "synthN";
	c.vi = vi;
	c.version = versions()[vi].name;
	for (auto& s : ts)
		c.label += (c.label.empty() ? "" : "+") + s;
	SynthFile sf = synthMultiFile(ts, vi, t);
	if (!sf.ok) {
		c.why = sf.aborted ? "synthesis aborted (payload limit)" : "synthesis failed";
		return c;
	}
	c.bytes = std::move(sf.bytes);
	c.payloadSize = sf.payloadSize;
	size_t minTotal = 0;
	for (auto& s : ts)
		minTotal += minimalPayloadSize(s, vi);
	c.populated = sf.payloadSize > minTotal;
	c.hash = hash_mix(fnv1a(c.bytes), vi);
	c.ok = true;
	return c;
}

// Enumerated tapes: every corpus file, and every type x version x pattern tape.
inline void enumerateFileCases(Run& run, const std::function<void(const std::vector<uint8_t>&)>& feed, size_t nPatterns,
							   bool withCorpus = true) {
	static const uint8_t patterns[] = {0x00, 0xA1, 0xC9, 0x95, 0xE1, 0xFF, 0x61, 0xF9};
	if (withCorpus) {
		size_t n = corpus(run.args.corpus).size();
		for (size_t i = 0; i < n; i++)
			feed({1, static_cast<uint8_t>(i)});
	}
	auto& types = registeredTypes();
	for (size_t ti = 0; ti < types.size(); ti++)
		for (size_t vi = 0; vi < versions().size(); vi++)
			for (size_t p = 0; p < nPatterns && p < sizeof patterns; p++) {
				std::vector<uint8_t> tape = {0, static_cast<uint8_t>(ti & 255), static_cast<uint8_t>(ti >> 8),
											 static_cast<uint8_t>(vi)};
				tape.resize(4 + (patterns[p] ? 600 : 0), patterns[p]);
				feed(tape);
			}
}

inline std::string caseJson(const FileCase& c) {
	return J().s("kind", c.kind).s("subject", c.label).s("version", c.version).u("file_bytes", c.bytes.size()).u("payload_bytes", c.payloadSize).b("populated", c.populated).str();
}

} // namespace vf
