// File-case decoder shared by the file-level properties (C01, C02, C03, C07, C08, C15, C16):
// a tape selects a sub-domain and the file is built from the rest of the tape.
//   domain byte 0: single synthesised subject   [0, type_lo, type_hi, version, block tape...]
//   domain byte 1: sample corpus file            [1, index]
//   domain byte 2: multi-block synthesised file  [2, version, k, (type_lo,type_hi) x k, block tapes...]
//   domain byte >= 0xF0: single subject with one forced integer-like read
//                                                [0xF0.., type_lo, type_hi, version, k, v, block tape...]
//   (bytes below 0xF0 select 0/1/2 by remainder mod 3)
#pragma once
#include "harness.hpp"
#include "synth.hpp"

namespace vf {

struct FileCase {
	bool ok = false;
	std::string why;	// when !ok
	std::string bytes;
	std::string kind;	// "synth1" | "corpus" | "synthN"
	std::string label;	// type name / corpus name / type list
	std::string version;
	size_t vi = 0;
	bool populated = false; // non-trivial by the payload rule
	uint64_t hash = 0;
	size_t payloadSize = 0;
	std::string forced; // "integer read #k = v" for sweep cases
};

const unsigned kSweepMaxReads = 32;
const unsigned kSweepMaxValue = 32;

// allowUnknown: domain bytes 0xD0..0xDF wrap another file case and relabel one or all of its block
// types to names the library does not register (the file then carries opaque blocks; needs a size table):
//   [0xD0.., <inner file case>, which]   which = 0xFF: all types, else type index which % n
inline FileCase decodeFileCase(Tape& t, Run& run, bool allowCorpus = true, bool allowUnknown = false) {
	FileCase c;
	auto& types = registeredTypes();
	if (allowUnknown && t.peek() >= 0xD0 && t.peek() < 0xE0) {
		t.u8();
		c = decodeFileCase(t, run, allowCorpus, false);
		if (!c.ok)
			return c;
		uint8_t which = t.u8();
		auto in = mini::parse(c.bytes);
		if (in.ok && in.ver.hasSizes() && !in.typeNames.empty()) {
			std::string names;
			for (size_t i = 0; i < in.typeNames.size(); i++)
				if (which == 0xFF || i == which % in.typeNames.size()) {
					names += in.typeNames[i] + " ";
					in.typeNames[i] = "Zq" + in.typeNames[i];
				}
			c.bytes = mini::write(in);
			c.kind += "+unknown";
			c.label += " [unregistered: " + names + "]";
			c.hash = hash_mix(c.hash, static_cast<uint32_t>(which) + 0x5151u);
			c.payloadSize = c.bytes.size();
		}
		return c;
	}
	uint8_t domByte = t.u8();
	uint8_t dom = domByte >= 0xF0 ? 3 : domByte % 3;
	if (dom == 1) {
		// the 26 samples are enumerated anyway: only index bytes below 52 select one, the others go on
		// as a synthesised single subject (keeps the random phase from spending a third of its cases here)
		uint8_t ib = t.u8();
		if (ib >= 52 || !allowCorpus)
			dom = 0;
		else {
			auto& cp = corpus(run.args.corpus);
			if (cp.empty()) {
				c.why = "corpus missing";
				return c;
			}
			size_t i = ib % cp.size();
			c.kind = "corpus";
			c.label = cp[i].name;
			c.bytes = cp[i].bytes;
			auto mf = mini::parse(c.bytes);
			c.version = mf.ver.tag();
			c.ok = true;
			c.populated = true;
			c.hash = fnv1a(c.bytes);
			c.payloadSize = c.bytes.size();
			return c;
		}
	}
	if (dom == 0 || dom == 3) {
		size_t ti = t.u16() % types.size();
		size_t vi = t.u8() % versions().size();
		c.kind = dom == 3 ? "synth1-forced" : "synth1";
		c.label = types[ti];
		c.vi = vi;
		c.version = versions()[vi].name;
		if (dom == 3) {
			force().read = t.u8() % kSweepMaxReads;
			force().value = t.u8() % kSweepMaxValue;
			c.forced = "integer read #" + std::to_string(force().read) + " = " + std::to_string(force().value);
		}
		SynthFile sf = synthSingleFile(types[ti], vi, t);
		force() = Force();
		if (!sf.ok) {
			c.why = sf.aborted ? "synthesis aborted (payload limit)" : "synthesis failed";
			return c;
		}
		c.bytes = std::move(sf.bytes);
		c.payloadSize = sf.payloadSize;
		c.populated = sf.payloadSize > minimalPayloadSize(types[ti], vi);
		c.hash = hash_mix(fnv1a(sf.subject.payload, fnv1a(types[ti])), vi);
		c.ok = true;
		return c;
	}
	// multi
	size_t vi = t.u8() % versions().size();
	uint32_t k = 2 + t.u8() % 5;
	std::vector<std::string> ts;
	for (uint32_t i = 0; i < k; i++)
		ts.push_back(types[t.u16() % types.size()]);
	c.kind = "synthN";
	c.vi = vi;
	c.version = versions()[vi].name;
	for (auto& s : ts)
		c.label += (c.label.empty() ? "" : "+") + s;
	SynthFile sf = synthMultiFile(ts, vi, t);
	if (!sf.ok) {
		c.why = sf.aborted ? "synthesis aborted (payload limit)" : "synthesis failed";
		return c;
	}
	c.bytes = std::move(sf.bytes);
	c.payloadSize = sf.payloadSize;
	size_t minTotal = 0;
	for (auto& s : ts)
		minTotal += minimalPayloadSize(s, vi);
	c.populated = sf.payloadSize > minTotal;
	c.hash = hash_mix(fnv1a(c.bytes), vi);
	c.ok = true;
	return c;
}

// Enumerated tapes: every corpus file, and every type x version x pattern tape.
inline void enumerateFileCases(Run& run, const std::function<void(const std::vector<uint8_t>&)>& feed, size_t nPatterns,
							   bool withCorpus = true) {
	static const uint8_t patterns[] = {0x00, 0xA1, 0xC9, 0x95, 0xE1, 0xFF, 0x61, 0xF9};
	if (withCorpus) {
		size_t n = corpus(run.args.corpus).size();
		for (size_t i = 0; i < n; i++)
			feed({1, static_cast<uint8_t>(i)});
	}
	auto& types = registeredTypes();
	for (size_t ti = 0; ti < types.size(); ti++)
		for (size_t vi = 0; vi < versions().size(); vi++)
			for (size_t p = 0; p < nPatterns && p < sizeof patterns; p++) {
				std::vector<uint8_t> tape = {0, static_cast<uint8_t>(ti & 255), static_cast<uint8_t>(ti >> 8),
											 static_cast<uint8_t>(vi)};
				tape.resize(4 + (patterns[p] ? 600 : 0), patterns[p]);
				feed(tape);
			}
}

// One-factor sweep with read-site novelty: for every (type, version) and each of two base tapes,
// each of the first maxK integer-like reads is forced to every value 0..maxV-1 in turn; a sweep
// tape is emitted only when the reader visits a read site (chain of return addresses above the
// hook = a place in some Sync()) that no earlier tape of that (type, version) has visited. Switch
// arms and count-dependent sections that a blind distribution hits rarely are reached one at a time.
// Cells are distributed over the shards here.
// `announce` (optional) is told each candidate tape before it is probed: the probe executes the
// library's reading code outside a case, and a crash there must be attributable to a tape.
inline void sweepCells(int shard, int nshards, unsigned maxK, unsigned maxV, size_t nPatterns,
					   const std::function<void(const std::vector<uint8_t>&)>& emit, uint64_t& tried, uint64_t& novel,
					   const std::function<void(const std::vector<uint8_t>&)>& announce = nullptr) {
	static const uint8_t patterns[] = {0x00, 0xA1, 0xC9, 0x95, 0xE1, 0xFF, 0x61, 0xF9};
	static const uint8_t bases[] = {0x00, 0x61};
	auto& types = registeredTypes();
	const size_t nv = versions().size();
	for (size_t ti = 0; ti < types.size(); ti++)
		for (size_t vi = 0; vi < nv; vi++) {
			if (static_cast<int>((ti * nv + vi) % static_cast<size_t>(nshards)) != shard % nshards)
				continue;
			std::unordered_set<uint64_t> seen;
			// returns the number of read sites not seen before (and records them); -1 if synthesis failed
			auto probe = [&](const std::vector<uint8_t>& body, int k, uint64_t v, size_t& intReads) -> int {
				Tape t(body);
				SynthPlan plan;
				plan.numStrings = versions()[vi].file >= 0x14010001 ? static_cast<uint32_t>(synthStrings().size()) : 0;
				plan.refTargets = {2, 3, 4, 5, 6};
				plan.forceRead = k;
				plan.forceValue = v;
				plan.wantSites = true;
				SynthResult r = synthBlock(types[ti], versions()[vi], t, plan);
				intReads = r.intReads;
				if (!r.ok)
					return -1;
				int fresh = 0;
				for (auto s : r.sites)
					fresh += seen.insert(s).second;
				return fresh;
			};
			size_t dummy;
			for (size_t p = 0; p < nPatterns && p < sizeof patterns; p++)
				probe(std::vector<uint8_t>(patterns[p] ? 600 : 0, patterns[p]), -1, 0, dummy);
			for (uint8_t base : bases) {
				std::vector<uint8_t> body(base ? 600 : 0, base);
				size_t nInt = 0;
				probe(body, -1, 0, nInt);
				for (unsigned k = 0; k < nInt && k < maxK && k < kSweepMaxReads; k++)
					for (unsigned v = 0; v < maxV && v < kSweepMaxValue; v++) {
						size_t n2;
						tried++;
						std::vector<uint8_t> tape = {0xF0, static_cast<uint8_t>(ti & 255), static_cast<uint8_t>(ti >> 8), static_cast<uint8_t>(vi),
													 static_cast<uint8_t>(k), static_cast<uint8_t>(v)};
						tape.insert(tape.end(), body.begin(), body.end());
						if (announce)
							announce(tape);
						if (probe(body, static_cast<int>(k), v, n2) <= 0)
							continue;
						novel++;
						if (getenv("VF_SWEEP_DEBUG"))
							fprintf(stderr, "sweep %s@%s base=%02x read#%u=%u\n", types[ti].c_str(), versions()[vi].name, base, k, v);
						emit(tape);
					}
			}
		}
}

inline void enumerateSweep(Run& run, const std::function<void(const std::vector<uint8_t>&)>& feed, unsigned maxK, unsigned maxV,
						   size_t nPatterns = 3) {
	uint64_t tried = 0, novel = 0;
	run.feedAll = true;
	sweepCells(run.args.shard, run.args.nshards, maxK, maxV, nPatterns, feed, tried, novel, [&](const std::vector<uint8_t>& tape) {
		if (run.noteCurrent)
			run.noteCurrent(tape.data(), tape.size());
	});
	run.feedAll = false;
	run.cls("sweep:forced-reads-tried", tried);
	run.cls("sweep:tapes-reaching-new-read-sites", novel);
}

// every sample with each of its first eight block types, and with all of them, relabelled as unknown
inline void enumerateUnknownCases(Run& run, const std::function<void(const std::vector<uint8_t>&)>& feed) {
	size_t n = corpus(run.args.corpus).size();
	for (size_t i = 0; i < n; i++)
		for (uint8_t which : {0, 1, 2, 3, 4, 5, 6, 7, 0xFF})
			feed({0xD0, 1, static_cast<uint8_t>(i), which});
}

inline std::string caseJson(const FileCase& c) {
	return J().s("kind", c.kind).s("subject", c.label).s("version", c.version).u("file_bytes", c.bytes.size()).u("payload_bytes", c.payloadSize).b("populated", c.populated).s("forced", c.forced).str();
}

} // namespace vf
